#!/usr/bin/env python3
"""./check <ID> [--tier quick|thorough] [--replay FILE]

Decides one property:
  P  deductive part : pyvc generates verification conditions from the *current
     source text* of VERIF_REPO for every function under contract
     (contracts/cNN.py) and discharges them with z3 / cvc5.
  B  bounded part   : the executable contracts of bounded/cNN.py are evaluated
     on the real functions over an enumerated domain (labelled bounded,
     never counted as proved).

Exit status: 0 held on everything explored (known findings are printed, not
raised); 1 violation (VIOLATION line with replay file); 2 nothing could be
explored; 3 internal error of the checker.
"""
import argparse
import hashlib
import importlib
import json
import os
import subprocess
import sys
import tempfile
import time
import traceback

HERE = os.path.dirname(os.path.abspath(__file__))
sys.path.insert(0, HERE)
sys.dont_write_bytecode = True
VENV_PY = "/venv/bin/python"


def load_findings():
    path = os.path.join(HERE, "known_findings.json")
    if not os.path.exists(path):
        return []
    return json.load(open(path))


def finding_for(findings, prop, kind, clause, cls):
    for f in findings:
        if f.get("status") != "known":
            continue
        if f["property"] == prop and f.get("kind", "bounded") == kind and f["clause"] == clause \
                and f.get("class") == cls:
            return f
    return None


def run_bounded(prop, tier, seed, repo, budget=None):
    modpath = os.path.join(HERE, "bounded", prop.lower() + ".py")
    if not os.path.exists(modpath):
        return None
    fd, out = tempfile.mkstemp(prefix="verif_b_", suffix=".json")
    os.close(fd)
    cmd = [VENV_PY, os.path.join(HERE, "bounded", "run.py"), prop, "--tier", tier,
           "--seed", str(seed), "--repo", repo, "--out", out]
    if budget:
        cmd += ["--budget", str(budget)]
    env = dict(os.environ, PYTHONDONTWRITEBYTECODE="1", PYTHONHASHSEED="0")
    try:
        p = subprocess.run(cmd, capture_output=True, text=True, env=env,
                           timeout=(budget or (90 if tier == "quick" else 1500)) + 300)
        if p.returncode != 0:
            return {"error": "bounded runner exit %d\n%s" % (p.returncode, p.stderr[-3000:])}
        return json.load(open(out))
    except subprocess.TimeoutExpired:
        return {"error": "bounded runner timed out"}
    finally:
        if os.path.exists(out):
            os.remove(out)


def replay_bounded(prop, clause, witness, repo):
    fd, out = tempfile.mkstemp(prefix="verif_r_", suffix=".json")
    os.close(fd)
    fd, wf = tempfile.mkstemp(prefix="verif_w_", suffix=".json")
    os.close(fd)
    json.dump(witness, open(wf, "w"))
    cmd = [VENV_PY, os.path.join(HERE, "bounded", "run.py"), prop, "--repo", repo, "--out", out,
           "--replay-clause", clause, "--replay-witness", wf]
    try:
        p = subprocess.run(cmd, capture_output=True, text=True, timeout=600,
                           env=dict(os.environ, PYTHONDONTWRITEBYTECODE="1", PYTHONHASHSEED="0"))
        if p.returncode != 0:
            return {"status": "error", "stderr": p.stderr[-2000:]}
        return json.load(open(out))
    finally:
        for f in (out, wf):
            if os.path.exists(f):
                os.remove(f)


def run_deductive(prop, tier, repo, jobs):
    modpath = os.path.join(HERE, "contracts", prop.lower() + ".py")
    if not os.path.exists(modpath):
        return None
    from pyvc import api
    return api.run_property(prop, repo=repo, tier=tier, jobs=jobs)


def write_replay(prop, name, payload):
    d = os.path.join(HERE, "replays")
    os.makedirs(d, exist_ok=True)
    h = hashlib.sha1(json.dumps(payload, sort_keys=True, default=repr).encode()).hexdigest()[:10]
    safe = "".join(ch if ch.isalnum() or ch in "._-" else "_" for ch in name)[:80]
    path = os.path.join(d, "%s-%s-%s.json" % (prop, safe, h))
    json.dump(payload, open(path, "w"), indent=1, ensure_ascii=False, default=repr)
    return path


def do_replay(path, repo):
    rec = json.load(open(path))
    prop = rec["property"]
    if rec.get("kind") == "bounded-contract" or rec.get("input_origin") in ("bounded-enumeration", "model"):
        if rec.get("clause") and rec.get("input") is not None and rec.get("replay_via", "bounded") == "bounded":
            res = replay_bounded(prop, rec["clause"], rec["input"], repo)
            print("replay %s clause=%s -> %s" % (prop, rec["clause"], json.dumps(res, ensure_ascii=False, default=repr)[:2000]))
            return 1 if res.get("status") == "violated" else 0
    if rec.get("kind") == "obligation":
        from pyvc import api
        res = api.replay_obligation(prop, rec["obligation"], repo=repo, model_input=rec.get("input"))
        print("replay %s obligation=%s -> %s" % (prop, rec["obligation"], json.dumps(res, default=repr)[:2000]))
        return 1 if res.get("status") in ("failed", "violated") else 0
    print("replay file not understood")
    return 3


def main():
    ap = argparse.ArgumentParser()
    ap.add_argument("prop")
    ap.add_argument("--tier", default=os.environ.get("VERIF_TIER", "quick"))
    ap.add_argument("--replay")
    ap.add_argument("--only", choices=["P", "B"], default=None)
    ap.add_argument("--budget", type=float, default=None)
    args = ap.parse_args()
    prop = args.prop.upper()
    tier = args.tier if args.tier in ("quick", "thorough") else "quick"
    seed = int(os.environ.get("VERIF_SEED", "0") or 0)
    repo = os.environ.get("VERIF_REPO", "/repo")
    jobs = int(os.environ.get("VERIF_JOBS", "16"))
    if args.replay:
        sys.exit(do_replay(args.replay, repo))
    t0 = time.time()
    findings = load_findings()
    spec = importlib.import_module("registry").PROPS[prop]
    violations = []       # (name, replay path, has_input)
    known_lines = []
    undecided = []
    internal = []

    # ---------------- P ----------------
    ded = None
    if args.only in (None, "P"):
        try:
            ded = run_deductive(prop, tier, repo, jobs)
        except Exception:
            internal.append("deductive part crashed:\n" + traceback.format_exc())
    if ded:
        for ob in ded["obligations"]:
            if ob["status"] == "failed":
                kf = finding_for(findings, prop, "obligation", ob["name"], ob.get("class"))
                if kf:
                    known_lines.append("KNOWN-FINDING: property=%s %s" % (prop, kf["text"]))
                    continue
                payload = {"property": prop, "kind": "obligation", "obligation": ob["name"],
                           "function": ob.get("function"), "source_sha256": ob.get("source_sha256"),
                           "repo": repo, "back_end": ob.get("backend"), "solver_s": ob.get("time"),
                           "solver_output": ob.get("model_text", "")[:6000],
                           "input": ob.get("input"), "input_origin": ob.get("input_origin", "none"),
                           "expected": ob.get("goal_text"), "observed": ob.get("observed"),
                           "replayed_on_real_code": bool(ob.get("replayed"))}
                path = write_replay(prop, ob["name"], payload)
                violations.append((ob["name"], path, bool(ob.get("replayed"))))
            elif ob["status"] == "undecided":
                undecided.append(ob["name"])
        for e in ded.get("errors", []):
            internal.append(e)

    # ---------------- B ----------------
    bnd = None
    if args.only in (None, "B"):
        bnd = run_bounded(prop, tier, seed, repo, args.budget)
    if bnd and "error" in bnd:
        internal.append(bnd["error"])
        bnd = None
    if bnd:
        for c in bnd.get("crashed", []):
            internal.append("oracle crashed in clause %s: %s" % (c["clause"], c["traceback"][-600:]))
        for f in bnd["failures"]:
            kf = finding_for(findings, prop, "bounded", f["clause"], f.get("class"))
            if kf:
                known_lines.append("KNOWN-FINDING: property=%s %s [%d inputs in this run, e.g. %s]" % (
                    prop, kf["text"], f["count"], json.dumps(f["witness"], ensure_ascii=False, default=repr)[:160]))
                continue
            payload = {"property": prop, "kind": "bounded-contract", "clause": f["clause"],
                       "class": f.get("class"), "function": f["site"], "repo": repo,
                       "input": f["witness"], "input_origin": "bounded-enumeration",
                       "expected": f["expected"], "observed": f["observed"],
                       "failing_inputs_in_run": f["count"], "replayed_on_real_code": True}
            path = write_replay(prop, f["clause"], payload)
            violations.append((f["clause"], path, True))

    # ---------------- evidence ----------------
    wall = time.time() - t0
    ev = build_evidence(prop, spec, tier, seed, ded, bnd, undecided, violations, known_lines, internal, wall)
    # evidence/<id>.json describes /repo itself; a run against another copy (VERIF_REPO: self-tests, seeded changes,
    # harmless edits) writes to evidence/scratch/ (ignored by git) so that it never replaces the committed evidence
    ev_dir = os.path.join(HERE, "evidence")
    if os.path.realpath(repo) != os.path.realpath("/repo"):
        ev_dir = os.path.join(HERE, "evidence", "scratch")
    os.makedirs(ev_dir, exist_ok=True)
    json.dump(ev, open(os.path.join(ev_dir, prop + ".json"), "w"), indent=1, ensure_ascii=False, default=repr)

    for u in undecided:
        print("UNDECIDED obligation=%s" % u)
    for k in sorted(set(known_lines)):
        print(k)
    for e in internal:
        print("CHECKER-ERROR %s" % e.strip().splitlines()[-1][:300], file=sys.stderr)
    nob = len(ded["obligations"]) if ded else 0
    ndis = sum(1 for o in ded["obligations"] if o["status"] == "discharged") if ded else 0
    print("%s tier=%s  deductive: %d/%d obligations discharged, %d undecided | bounded: %s evaluations | %.1fs" % (
        prop, tier, ndis, nob, len(undecided), bnd["evaluations"] if bnd else "-", wall))
    if violations:
        for name, path, has_input in violations:
            print("VIOLATION property=%s replay=%s%s" % (prop, path, "" if has_input else " no-failing-input-found"))
        sys.exit(1)
    if internal:
        for e in internal:
            print(e, file=sys.stderr)
        sys.exit(3)
    if not ded and not bnd:
        sys.exit(2)
    if (ded is None or nob == 0) and (bnd is None or bnd["evaluations"] == 0):
        sys.exit(2)
    sys.exit(0)


def build_evidence(prop, spec, tier, seed, ded, bnd, undecided, violations, known_lines, internal, wall):
    cov = {}
    level = spec.get("level", "other")
    assumptions = list(spec.get("assumptions", []))
    nob = ndis = 0
    if ded:
        obs = ded["obligations"]
        nob = len(obs)
        ndis = sum(1 for o in obs if o["status"] == "discharged")
        by_backend, secs = {}, 0.0
        for o in obs:
            if o["status"] == "discharged":
                by_backend[o.get("backend", "?")] = by_backend.get(o.get("backend", "?"), 0) + 1
            secs += o.get("time", 0.0) or 0.0
        cov.update({
            "obligations": nob, "discharged": ndis,
            "undecided": [o["name"] for o in obs if o["status"] == "undecided"],
            "failed": [o["name"] for o in obs if o["status"] == "failed"],
            "discharged_by_backend": by_backend, "solver_seconds": round(secs, 2),
            "checker_cmd": "./check %s --tier %s   (pyvc: VCs from the ast of %s, z3 %s API -> z3-new CLI -> cvc5 CLI)" % (
                prop, tier, ", ".join(sorted(set(f["file"] for f in ded["functions"]))), ded.get("z3_version", "")),
            "functions_under_contract": ded["functions"],
            "trusted_base": ded.get("trusted_base", []),
            "vacuity_guards": ded.get("guards", {}),
            "obligation_list": [{"name": o["name"], "status": o["status"], "backend": o.get("backend"),
                                 "time": o.get("time")} for o in obs],
        })
        assumptions += ded.get("assumptions", [])
    if bnd:
        cov.update({
            "evaluations": bnd["evaluations"], "distinct_nontrivial": bnd["distinct_nontrivial"],
            "rule": bnd["rule"], "samples": bnd["samples"][:6] or [{"note": "no sample"}],
            "exhaustive": bnd["exhaustive"], "bounds": bnd["bounds"],
            "bounded_per_clause": bnd["per_clause"],
            "skipped_outside_domain": bnd["skipped_outside_domain"],
            "bounded_sites": bnd["sites"],
        })
    elif ded:
        cov.setdefault("samples", [o["name"] for o in ded["obligations"][:8]])
    expl = spec.get("explanation", "")
    parts = []
    if ded:
        parts.append("PROVED (unbounded, from the current source text): %d of %d obligations discharged over %d functions; "
                     "%d undecided." % (ndis, nob, len(ded["functions"]), len(undecided)))
    if bnd:
        parts.append("BOUNDED (stand-in, never counted as proved): %d contract evaluations on the real functions, "
                     "%d distinct non-trivial cases, bounds %s." % (bnd["evaluations"], bnd["distinct_nontrivial"],
                                                                   json.dumps(bnd["bounds"])))
    cov["explanation"] = (expl + " " + " ".join(parts)).strip()
    cov["known_findings_reported"] = sorted(set(known_lines))
    cov["checker_errors"] = internal
    if level == "proof" and (not ded or ndis != nob or nob == 0):
        level = "other"
    if level == "exploration" and not bnd:
        level = "other"
    if "trusted_base" not in cov:
        cov["trusted_base"] = []
    return {"property_id": prop, "tier": tier, "seed": seed, "level": level, "coverage": cov,
            "assumptions": assumptions, "wall_s": round(wall, 2), "violations": len(violations)}


if __name__ == "__main__":
    try:
        main()
    except SystemExit:
        raise
    except Exception:
        traceback.print_exc()
        sys.exit(3)
