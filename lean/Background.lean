/-
Background lemmas about finite lists that the SMT encoding uses but cannot prove (they need induction).
Checked by `lean` (Lean 4 + Mathlib) on every run of the C19 check; nothing here mentions the code under
verification: these are facts about lists.

* `sorted_enumeration_unique`: the contracts of `trees.terminals` / `trees.children` are verified against a
  characterisation (only members of a given set, keys strictly increasing, every member of the set occurs).  Callers
  use "the result is *the* list T(x) / C(x)".  The step from the one to the other is: two lists with strictly
  increasing keys and the same members are the same list.

* `nodup_same_length_covers`: `disco_order` (C16) is verified to return tokens below the node, no token twice, as many
  as there are; with the complete duplicate-free token list T(x) of the same length this means every token occurs.
-/
import Mathlib.Data.List.Sort
import Mathlib.Data.List.Nodup
import Mathlib.Data.List.Perm.Basic
import Mathlib.Data.List.Perm.Subperm
import Mathlib.Data.Int.Order.Basic

/-- Two lists whose keys are strictly increasing and which have the same members are the same list. -/
theorem sorted_enumeration_unique {β : Type} (f : β → ℤ) (l₁ l₂ : List β)
    (h₁ : l₁.Pairwise (fun a b => f a < f b)) (h₂ : l₂.Pairwise (fun a b => f a < f b))
    (hm : ∀ x, x ∈ l₁ ↔ x ∈ l₂) : l₁ = l₂ := by
  have n₁ : l₁.Nodup := h₁.imp (fun {a b} h hab => by subst hab; exact lt_irrefl _ h)
  have n₂ : l₂.Nodup := h₂.imp (fun {a b} h hab => by subst hab; exact lt_irrefl _ h)
  have hp : l₁.Perm l₂ := (List.perm_ext_iff_of_nodup n₁ n₂).2 hm
  exact List.Perm.eq_of_pairwise (fun a b _ _ hab hba => absurd hab (not_lt.mpr (le_of_lt hba))) h₁ h₂ hp

/-- A duplicate-free list whose members all lie in a list that is not longer contains every member of that list. -/
theorem nodup_same_length_covers {β : Type} [DecidableEq β] (l₁ l₂ : List β) (n₁ : l₁.Nodup)
    (hs : ∀ x, x ∈ l₁ → x ∈ l₂) (hl : l₂.length ≤ l₁.length) : ∀ x, x ∈ l₂ → x ∈ l₁ := by
  have sp : l₁.Subperm l₂ := List.subperm_of_subset n₁ hs
  have p : l₁.Perm l₂ := sp.perm_of_length_le hl
  intro x hx
  exact p.symm.subset hx
