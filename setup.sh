#!/bin/sh
# offline setup: nothing is built or cached; only verify the tools the checks need
set -e
python3-vt -c "import z3, jsonschema; print('z3', z3.get_version_string())"
/venv/bin/python -c "import sys; print('python', sys.version.split()[0])"
command -v z3-new >/dev/null && echo "z3-new ok"
command -v cvc5 >/dev/null && echo "cvc5 ok"
mkdir -p evidence replays
command -v lean >/dev/null && echo "lean ok (background list lemmas; without it they are reported undecided)" || true
