#!/usr/bin/env python3
"""dev helper: python3-vt tools/run_lemma.py C06 contracts.extract_blocks lemma_lin_blocks [quick|thorough] [--smoke]
runs the VCs of one lemma function in a 16-process pool and prints each verdict (not part of any registered check)"""
import sys, time, importlib
sys.path.insert(0,'/verif')
from pyvc import api, core, solve
prop, modname, fname = sys.argv[1], sys.argv[2], sys.argv[3]
tier = sys.argv[4] if len(sys.argv)>4 else 'quick'
mod = importlib.import_module(modname)
m, reg = api.load(prop)
repo = core.Repo('/repo')
t0=time.time()
vcs = getattr(mod, fname)(reg, repo)
print(len(vcs), 'vcs generated in %.1fs'%(time.time()-t0))
import multiprocessing
def work(k):
    sub, pc, goal = vcs[k]
    t=time.time()
    r = solve.check_vc(pc, goal, tier)
    return sub, r['status'], r.get('backend'), round(time.time()-t,1)
with multiprocessing.get_context('fork').Pool(16) as pool:
    for res in pool.imap(work, range(len(vcs))):
        print(res)
import sys as _s; _s.exit(0) if "--smoke" not in _s.argv else None
print("vacuity / smoke:")
def smoke(k):
    sub, pc, goal = vcs[k]
    r = solve.check_vc(pc, z3.BoolVal(False), 'quick')
    return sub, 'pc-sat?', solve.is_sat(pc, 3000), 'False-goal:', r['status']
import z3
with multiprocessing.get_context('fork').Pool(16) as pool:
    for res in pool.imap(smoke, range(len(vcs))):
        print(res)
