#!/usr/bin/env python3
"""tools/eval_harmless.py DIR : DIR holds behaviour-preserving patches NN.diff of /repo.  For each patch: fresh scratch
worktree of /repo HEAD, git apply, the repository's tests, then every registered quick check with VERIF_REPO pointing at
the patched copy.  A check must not print VIOLATION / exit 1 on any of them (UNDECIDED lines are allowed: a proof that
no longer goes through is not an alarm).  Prints one line per patch and a JSON summary; worktrees are removed."""
import glob, json, os, shutil, subprocess, sys, tempfile
from concurrent.futures import ThreadPoolExecutor

src = sys.argv[1]
props = ["C%02d" % i for i in range(1, 21)]
summary = {}
for diff in sorted(glob.glob(os.path.join(src, "*.diff"))):
    name = os.path.basename(diff)
    d = tempfile.mkdtemp(prefix="verif_hl_")
    wt = os.path.join(d, "repo")
    res = {"patch": name}
    try:
        subprocess.run(["git", "-C", "/repo", "worktree", "add", "-q", "--detach", wt, "HEAD"], check=True)
        r = subprocess.run(["git", "-C", wt, "apply", diff], capture_output=True, text=True)
        if r.returncode != 0:
            res["error"] = "does not apply: " + r.stderr[-200:]
            summary[name] = res
            print(name, res["error"], flush=True)
            continue
        t = subprocess.run(["/venv/bin/python", "-m", "pytest", "-q", "-p", "no:cacheprovider"], cwd=wt,
                           capture_output=True, text=True)
        res["tests"] = t.stdout.strip().splitlines()[-1] if t.stdout.strip() else t.stderr[-200:]

        def run(p):
            env = dict(os.environ, VERIF_REPO=wt, VERIF_JOBS="4")
            c = subprocess.run(["/verif/check", p], capture_output=True, text=True, env=env, cwd="/verif")
            lines = c.stdout.splitlines()
            return p, c.returncode, [l[:160] for l in lines if l.startswith("VIOLATION")], \
                sum(1 for l in lines if l.startswith("UNDECIDED"))
        with ThreadPoolExecutor(5) as ex:
            outs = list(ex.map(run, props))
        res["alarms"] = {p: v for p, rc, v, u in outs if rc == 1 or v}
        res["other_exit"] = {p: rc for p, rc, v, u in outs if rc not in (0, 1)}
        res["undecided"] = {p: u for p, rc, v, u in outs if u}
        summary[name] = res
        print(name, "tests:", res["tests"], "| ALARMS:", res["alarms"] or "none", "| undecided:", res["undecided"],
              "| other exits:", res["other_exit"], flush=True)
    finally:
        subprocess.run(["git", "-C", "/repo", "worktree", "remove", "--force", wt], capture_output=True)
        shutil.rmtree(d, ignore_errors=True)
print(json.dumps(summary, indent=1))
