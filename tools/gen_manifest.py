#!/usr/bin/env python3
"""regenerate MANIFEST.json from registry.py (claims) + properties.jsonl (not_applicable for the rest)"""
import json, os, sys
HERE = os.path.dirname(os.path.dirname(os.path.abspath(__file__)))
sys.path.insert(0, HERE)
import registry
props = [json.loads(l) for l in open(os.path.join(HERE, "properties.jsonl"))]
checks, na = [], []
NA_REASONS = getattr(registry, "NOT_APPLICABLE", {})
for p in props:
    pid = p["id"]
    r = registry.PROPS.get(pid)
    has = os.path.exists(os.path.join(HERE, "bounded", pid.lower() + ".py")) or \
        os.path.exists(os.path.join(HERE, "contracts", pid.lower() + ".py"))
    if r is None or not has:
        na.append({"property_id": pid, "reason": NA_REASONS.get(pid, "check not built yet (build round in progress); see DESIGN.md section 5")})
        continue
    checks.append({
        "property_id": pid,
        "quick_cmd": "./check %s --tier quick" % pid,
        "thorough_cmd": "./check %s --tier thorough" % pid,
        "evidence_file": "evidence/%s.json" % pid,
        "replay_cmd_template": "./check %s --replay {path}" % pid,
        "engine": "pyvc+bounded",
        "level_claimed": {"category": r["level"], "text": r["level_text"], "design_ref": "DESIGN.md " + r.get("design_ref", "")},
        "level_note": " | ".join(r.get("assumptions", [])),
        "technique": r["technique"],
    })
m = {"version": 1,
     "setup_cmd": "./setup.sh",
     "hooks": {"guard": "WMAIER_TREETOOLS_VERIF", "enable": "no hooks: /repo is verified as it is (sidecar contracts, no instrumentation)",
               "baseline_off_cmd": "cd /repo && /venv/bin/python -m pytest -q -p no:cacheprovider --timeout=900",
               "source_commits": [], "add_only": True},
     "engines": [{"name": "pyvc", "path": "pyvc/", "serves_properties": sorted(k for k in registry.PROPS if os.path.exists(os.path.join(HERE, "contracts", k.lower() + ".py"))),
                  "kind_free_text": "verification-condition generator over the real Python AST + z3/cvc5 portfolio (contract-based deductive verification)"},
                 {"name": "bounded", "path": "bounded/", "serves_properties": sorted(k for k in registry.PROPS if os.path.exists(os.path.join(HERE, "bounded", k.lower() + ".py"))),
                  "kind_free_text": "run-time evaluation of executable contracts on the real functions over enumerated domains (bounded stand-in, never counted as proved)"}],
     "checks": checks, "not_applicable": na,
     "notes": "Exit codes of ./check: 0 held, 1 violation (VIOLATION line), 2 nothing explored, 3 checker error. KNOWN-FINDING lines come from known_findings.json (committed, never written at run time)."}
json.dump(m, open(os.path.join(HERE, "MANIFEST.json"), "w"), indent=1)
print("checks:", [c["property_id"] for c in checks], "n/a:", len(na))
