#!/usr/bin/env python3
"""Evaluate one seeded change: tools/eval_seed.py /tmp/seed_C19/A C19 [other props...]
 - fresh scratch worktree of /repo, apply patch, run the repo tests, run demo (patched / unpatched),
 - run ./check <prop> with VERIF_REPO pointing at the patched copy; print verdicts; clean up."""
import json, os, shutil, subprocess, sys, tempfile
seed, props = sys.argv[1], sys.argv[2:]
d = tempfile.mkdtemp(prefix="verif_ev_")
wt = os.path.join(d, "repo")
out = {"seed": seed}
try:
    subprocess.run(["git", "-C", "/repo", "worktree", "add", "-q", "--detach", wt, "HEAD"], check=True)
    r = subprocess.run(["git", "-C", wt, "apply", os.path.join(seed, "patch.diff")], capture_output=True, text=True)
    out["applies"] = r.returncode == 0
    if r.returncode != 0:
        out["apply_err"] = r.stderr[-300:]
    else:
        t = subprocess.run(["/venv/bin/python", "-m", "pytest", "-q", "-p", "no:cacheprovider"], cwd=wt, capture_output=True, text=True)
        out["tests"] = t.stdout.strip().splitlines()[-1] if t.stdout.strip() else t.stderr[-200:]
        dm = subprocess.run(["/venv/bin/python", os.path.join(seed, "demo.py"), wt], capture_output=True, text=True, cwd=d)
        d0 = subprocess.run(["/venv/bin/python", os.path.join(seed, "demo.py"), "/repo"], capture_output=True, text=True, cwd=d)
        out["demo_patched_exit"], out["demo_clean_exit"] = dm.returncode, d0.returncode
        out["checks"] = {}
        for p in props:
            env = dict(os.environ, VERIF_REPO=wt)
            c = subprocess.run(["/verif/check", p], capture_output=True, text=True, env=env, cwd="/verif")
            lines = [l for l in c.stdout.splitlines() if l.startswith(("VIOLATION", "UNDECIDED", "KNOWN"))]
            out["checks"][p] = {"exit": c.returncode, "lines": [l[:200] for l in lines[:6]],
                                "summary": c.stdout.strip().splitlines()[-1][:200] if c.stdout.strip() else c.stderr[-300:]}
finally:
    subprocess.run(["git", "-C", "/repo", "worktree", "remove", "--force", wt], capture_output=True)
    shutil.rmtree(d, ignore_errors=True)
print(json.dumps(out, indent=1))
