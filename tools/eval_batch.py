#!/usr/bin/env python3
"""tools/eval_batch.py C13 C11 ... : evaluate /tmp/seed_<P>/{A,B} (4 in parallel) against <P> and C18, store under /verif/seeded"""
import json, os, shutil, subprocess, sys
from concurrent.futures import ThreadPoolExecutor
props = sys.argv[1:]
jobs = []
for p in props:
    for ab in os.environ.get("LETTERS", "AB"):
        d = "/tmp/seed_%s/%s" % (p, ab)
        if os.path.exists(os.path.join(d, "patch.diff")):
            jobs.append((p, ab, d))
def run(j):
    p, ab, d = j
    extra = [x for x in os.environ.get("EXTRA", "").split() if x]
    r = subprocess.run(["python3", "/verif/tools/eval_seed.py", d, p] + (["C18"] if p != "C18" else []) + extra, capture_output=True, text=True)
    try:
        return j, json.loads(r.stdout)
    except Exception:
        return j, {"error": r.stdout[-500:] + r.stderr[-500:]}
with ThreadPoolExecutor(4) as ex:
    for (p, ab, d), r in ex.map(run, jobs):
        own = r.get("checks", {}).get(p, {})
        print("%s-%s tests=%s demo=%s/%s | %s" % (p, ab, r.get("tests"), r.get("demo_patched_exit"), r.get("demo_clean_exit"),
              {k: (v["exit"], [l.split("replay=")[1][14:70] for l in v["lines"] if l.startswith("VIOL")][:3]) for k, v in r.get("checks", {}).items()}), flush=True)
        if r.get("error"):
            print("   ERROR", r["error"])
            continue
        dst = "/verif/seeded/%s-%s" % (p, ab)
        os.makedirs(dst, exist_ok=True)
        for f in ("patch.diff", "demo.py"):
            shutil.copy(os.path.join(d, f), dst)
        meta = json.load(open(os.path.join(d, "meta.json")))
        meta["verified_by_lead"] = {"tests_with_patch": r.get("tests"), "demo_exit_with_patch": r.get("demo_patched_exit"),
                                    "demo_exit_without_patch": r.get("demo_clean_exit"),
                                    "how": "tools/eval_seed.py: fresh scratch worktree of /repo HEAD, git apply patch.diff, pytest, demo.py <patched>, demo.py /repo, ./check with VERIF_REPO=<patched>; worktree removed"}
        meta["check_results_at_first_evaluation"] = {k: {"exit": v["exit"], "violations": [l for l in v["lines"] if l.startswith("VIOLATION")]}
                                                     for k, v in r.get("checks", {}).items()}
        json.dump(meta, open(os.path.join(dst, "meta.json"), "w"), indent=1)
