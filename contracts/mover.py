"""The mover step: the detach/attach idiom

    X.parent.children.remove(X) ; T.children.append(X) ; X.parent = T        (in any of the orders the code uses)

located by pattern in the real AST of each function that re-attaches nodes, and verified as a *block contract*:
the three real statements are executed symbolically on an arbitrary heap whose parent/child links are consistent,
and must leave them consistent, change the parent of X only, shrink the old parent's child list by exactly X and
extend T's by exactly X.  (Acyclicity is a separate, caller-level concern: T must not lie below X; DESIGN 4.)
"""
import ast
import copy
import z3
from pyvc import core
from pyvc.core import Contract, Exec, State
from pyvc.heap import Heap
from pyvc.sym import VRef, VBool, VInt, REF, tobool, fresh_name, qforall, Unsupported

# functions that contain mover steps, with the number of steps expected in the unchanged tree
SITES = {
    "trees.transform.root_attach": 1,
    "trees.transform.raising": 2,
    "trees.transform.punctuation_verylow": 1,
    "trees.transform.punctuation_symetrify": 2,
    "trees.transform.punctuation_root": 1,
    "trees.transform.boyd_split": 2,
}


def _is_remove(stmt):
    """X in `<expr>.children.remove(X)` or None"""
    if isinstance(stmt, ast.Expr) and isinstance(stmt.value, ast.Call):
        f = stmt.value.func
        if isinstance(f, ast.Attribute) and f.attr == "remove" and isinstance(f.value, ast.Attribute) \
                and f.value.attr == "children" and len(stmt.value.args) == 1:
            return stmt.value.args[0], f.value.value
    return None


def _is_append(stmt):
    if isinstance(stmt, ast.Expr) and isinstance(stmt.value, ast.Call):
        f = stmt.value.func
        if isinstance(f, ast.Attribute) and f.attr == "append" and isinstance(f.value, ast.Attribute) \
                and f.value.attr == "children" and len(stmt.value.args) == 1:
            return stmt.value.args[0], f.value.value
    return None


def _is_parent_assign(stmt):
    if isinstance(stmt, ast.Assign) and len(stmt.targets) == 1 and isinstance(stmt.targets[0], ast.Attribute) \
            and stmt.targets[0].attr == "parent":
        return stmt.targets[0].value, stmt.value
    return None


def find_steps(fnode):
    """every `<owner>.children.remove(X)` statement with the directly following statements (at most two) that
    append X somewhere / assign X.parent.  kind: 'move' (remove + append + parent-assign), 'detach' (remove +
    X.parent = None), 'broken' (anything else: judged as a move, and fails)"""
    steps = []
    for node in ast.walk(fnode):
        body_lists = [getattr(node, a) for a in ("body", "orelse") if isinstance(getattr(node, a, None), list)]
        for body in body_lists:
            for i, stmt in enumerate(body):
                rm = _is_remove(stmt)
                if not rm:
                    continue
                x = ast.dump(rm[0])
                win = [stmt]
                has_ap = has_pa = False
                pa_none = False
                for nxt in body[i + 1:i + 3]:
                    ap, pa = _is_append(nxt), _is_parent_assign(nxt)
                    if ap and ast.dump(ap[0]) == x and not has_ap:
                        has_ap = True
                        win.append(nxt)
                    elif pa and ast.dump(pa[0]) == x and not has_pa:
                        has_pa = True
                        pa_none = isinstance(pa[1], ast.Constant) and pa[1].value is None
                        win.append(nxt)
                    else:
                        break
                if has_ap and has_pa and not pa_none:
                    kind = "move"
                elif has_pa and pa_none and not has_ap:
                    kind = "detach"
                else:
                    kind = "broken"
                steps.append((kind, win))
    return steps


class _Abstract(ast.NodeTransformer):
    """replace every maximal expression that is not part of the idiom (e.g. split[-1]) by a fresh name"""
    def __init__(self):
        self.names = {}

    def visit_Subscript(self, node):
        key = ast.dump(node)
        if key not in self.names:
            self.names[key] = "__e%d" % len(self.names)
        return ast.copy_location(ast.Name(id=self.names[key], ctx=ast.Load()), node)


def links_consistent(H, tag):
    """every child points back to its parent, every node with a parent occurs in that parent's child list,
    child lists have no duplicates (over allocated, non-null nodes)"""
    n, k, j = z3.Int(fresh_name(tag + "n")), z3.Int(fresh_name(tag + "k")), z3.Int(fresh_name(tag + "j"))
    par, nch, ch = H.parent_t, H.nchild_t, H.child_t
    pos = lambda r: H.pos(VRef(r)).t
    return z3.And(
        qforall([n, k], z3.Implies(z3.And(n != 0, 0 <= k, k < nch(n)),
                                   z3.And(ch(n, k) != 0, par(ch(n, k)) == n, pos(ch(n, k)) == k)), [ch(n, k)]),
        qforall([n], z3.Implies(z3.And(n != 0, par(n) != 0),
                                z3.And(0 <= pos(n), pos(n) < nch(par(n)), ch(par(n), pos(n)) == n)), [par(n)]),
    )


def lemma_mover(qual):
    def run(reg, repo):
        info = repo.fns.get(qual)
        if info is None:
            raise Unsupported("function %s no longer exists" % qual)
        steps = find_steps(info.node)
        if len(steps) != SITES[qual]:
            raise Unsupported("expected %d mover steps in %s, found %d (the contract no longer binds)" % (
                SITES[qual], qual, len(steps)))
        vcs = []
        for si, (kind, win) in enumerate(steps):
            ab = _Abstract()
            stmts = [ab.visit(copy.deepcopy(s)) for s in win]
            for s in stmts:
                ast.fix_missing_locations(s)
            names = sorted({n.id for s in stmts for n in ast.walk(s) if isinstance(n, ast.Name)})
            c = Contract(target=qual, prop="C04", args={})
            ex = Exec(repo, reg, info, c, prefix="C04.mover.%s#%d" % (info.qual, si))
            H = Heap.fresh("M")
            st = State(heap=H)
            for t in H.typing():
                st.assume(t)
            env = {nm: VRef(z3.Int(fresh_name("m_" + nm))) for nm in names}
            st.env.update(env)
            x_expr = _is_remove(stmts[0])[0]
            owner_expr = _is_remove(stmts[0])[1]
            aps = [s for s in stmts if _is_append(s)]
            tgt_expr = _is_append(aps[0])[1] if aps else None
            ex.entry_heap = H.copy()
            H0 = H.copy()
            # preconditions of the block
            x = ex.ev(x_expr, st)
            st.assume(x.t != 0)
            st.assume(H0.parent_t(x.t) != 0)
            st.assume(links_consistent(H0, "p"))
            owner = ex.ev(owner_expr, st)
            st.assume(owner.t == H0.parent_t(x.t))          # we remove X from the list of its parent
            for nm, v in env.items():
                st.assume(v.t != 0)                         # the variables of the block denote nodes
            if tgt_expr is not None:
                tgt0 = ex.ev(tgt_expr, st)
                st.assume(tgt0.t != 0)                      # the target is a node (caller obligation)
            ex.obligations = []
            outs = ex.exec_block(stmts, st)
            outs = ex._with_raises(st, outs)
            for o in outs:
                if o.kind != "normal":
                    raise Unsupported("mover step has an exceptional exit")
                H1 = o.st.heap
                tgt = H1.parent_t(x.t)
                oldp = H0.parent_t(x.t)
                if kind == "detach":
                    vcs.extend(_detach_goals(si, o, H0, H1, x, oldp))
                    continue
                n, k = z3.Int(fresh_name("qn")), z3.Int(fresh_name("qk"))
                # ghost position function after the move: shifted in the old parent, last in the target
                r0 = H0.pos(x).t
                newpos = lambda r: z3.If(r == x.t, H1.nchild_t(tgt) - 1,
                                         z3.If(z3.And(H0.parent_t(r) == oldp, H0.pos(VRef(r)).t > r0),
                                               H0.pos(VRef(r)).t - 1, H0.pos(VRef(r)).t))
                par1, nch1, ch1 = H1.parent_t, H1.nchild_t, H1.child_t
                goal_pre = [z3.And(tgt != 0)]
                o.st.assume(tgt != 0)
                goals = {
                    "only_x_changes_parent": z3.ForAll([n], z3.Implies(n != x.t, par1(n) == H0.parent_t(n))),
                    "old_parent_loses_exactly_x": z3.Implies(oldp != tgt, nch1(oldp) == H0.nchild_t(oldp) - 1),
                    "target_gains_exactly_x": z3.And(
                        z3.Implies(oldp != tgt, nch1(tgt) == H0.nchild_t(tgt) + 1),
                        z3.Implies(oldp == tgt, nch1(tgt) == H0.nchild_t(tgt)),
                        ch1(tgt, nch1(tgt) - 1) == x.t),
                    "other_lists_untouched": z3.ForAll([n], z3.Implies(z3.And(n != oldp, n != tgt),
                                                                      z3.And(nch1(n) == H0.nchild_t(n),
                                                                             z3.Select(H1.f["child"], n) ==
                                                                             z3.Select(H0.f["child"], n)))),
                    "children_point_back": z3.ForAll([n, k], z3.Implies(
                        z3.And(n != 0, 0 <= k, k < nch1(n)),
                        z3.And(ch1(n, k) != 0, par1(ch1(n, k)) == n, newpos(ch1(n, k)) == k))),
                    "parents_list_their_children": z3.ForAll([n], z3.Implies(
                        z3.And(n != 0, par1(n) != 0),
                        z3.And(0 <= newpos(n), newpos(n) < nch1(par1(n)), ch1(par1(n), newpos(n)) == n))),
                }
                for gname, g in goals.items():
                    vcs.append(("%s.%s" % ("step%d" % si, gname), list(o.st.pc), g))
            # safety obligations generated while executing the block (e.g. remove of an absent element)
            for ob in ex.obligations:
                vcs.append(("step%d.%s" % (si, ob.name.split(".")[-1]), list(ob.pc), ob.goal))
        return vcs
    run.target = qual
    return run


def _detach_goals(si, o, H0, H1, x, oldp):
    """remove X from its parent's list and clear its parent pointer: X becomes the root of a detached subtree"""
    n, k = z3.Int(fresh_name("dn")), z3.Int(fresh_name("dk"))
    r0 = H0.pos(x).t
    newpos = lambda r: z3.If(z3.And(H0.parent_t(r) == oldp, H0.pos(VRef(r)).t > r0),
                             H0.pos(VRef(r)).t - 1, H0.pos(VRef(r)).t)
    par1, nch1, ch1 = H1.parent_t, H1.nchild_t, H1.child_t
    goals = {
        "x_is_detached": par1(x.t) == 0,
        "only_x_changes_parent": z3.ForAll([n], z3.Implies(n != x.t, par1(n) == H0.parent_t(n))),
        "old_parent_loses_exactly_x": nch1(oldp) == H0.nchild_t(oldp) - 1,
        "other_lists_untouched": z3.ForAll([n], z3.Implies(n != oldp, z3.And(
            nch1(n) == H0.nchild_t(n), z3.Select(H1.f["child"], n) == z3.Select(H0.f["child"], n)))),
        "children_point_back": z3.ForAll([n, k], z3.Implies(
            z3.And(n != 0, 0 <= k, k < nch1(n)),
            z3.And(ch1(n, k) != 0, ch1(n, k) != x.t, par1(ch1(n, k)) == n, newpos(ch1(n, k)) == k))),
        "parents_list_their_children": z3.ForAll([n], z3.Implies(
            z3.And(n != 0, par1(n) != 0),
            z3.And(0 <= newpos(n), newpos(n) < nch1(par1(n)), ch1(par1(n), newpos(n)) == n))),
    }
    return [("step%d.detach.%s" % (si, g), list(o.st.pc), t) for g, t in goals.items()]
