"""C08 -- counts are added, never overwritten: the counting blocks of binarize_rule and extract as block contracts."""
from contracts.counts import lemma_counts
from contracts import extract_blocks as xb

VERIFY = []
TRUSTED = ["counting blocks are located by AST pattern in the real source; dict keys are opaque values"]
ASSUMPTIONS = ["nested dicts are modelled as presence/value maps over opaque keys (pyvc/sym.py VMap)"]


def build(reg):
    pass


LEMMAS = {"counts.binarize_rule": lemma_counts("trees.grammar.binarize_rule", 4),
          "counts.extract": lemma_counts("trees.grammar.extract", 1),
          "counts.lexicon": xb.lemma_lexicon}
