"""C13 -- punctuation re-attachment: the mover steps of the three transformations as block contracts, and the guard
of punctuation_verylow (a move never empties the constituent it takes the token from)."""
import ast
import z3
from pyvc.core import Contract, Exec, State
from pyvc.heap import Heap
from pyvc.sym import VRef, VBool, tobool, fresh_name, Unsupported, vor, veq
from contracts.common import add_common
from contracts.mover import lemma_mover, links_consistent, find_steps

VERIFY = []
TRUSTED = ["mover steps and the guard are located by AST pattern in the real source"]
ASSUMPTIONS = ["block preconditions as in C04; for the guard lemma: the token being moved is a punctuation word "
               "(it was selected by the comprehension at the top of punctuation_verylow) and is a child of its parent"]


def build(reg):
    add_common(reg)


def lemma_verylow_guard(reg, repo):
    """the real guard expression `not all([child.data['word'] in trees.PUNCT for child in element.parent.children])`
    implies that element's parent has at least two children, so it keeps one after element has been moved away"""
    q = "trees.transform.punctuation_verylow"
    info = repo.fns.get(q)
    if info is None:
        raise Unsupported("punctuation_verylow no longer exists")
    guard = None
    for node in ast.walk(info.node):
        if isinstance(node, ast.If) and any(k == "move" for k, _ in find_steps(node)) and \
                isinstance(node.test, ast.UnaryOp) and isinstance(node.test.op, ast.Not) and guard is None:
            guard = node.test
    if guard is None:
        raise Unsupported("the punctuation-only guard around the mover step of punctuation_verylow was not found")
    c = Contract(target=q, prop="C13", args={})
    ex = Exec(repo, reg, info, c, prefix="C13.verylow_guard")
    H = Heap.fresh("G")
    st = State(heap=H)
    for t in H.typing():
        st.assume(t)
    el = VRef(z3.Int("g_element"))
    st.env["element"] = el
    ex.entry_heap = H.copy()
    p = H.parent(el)
    x = z3.Int(fresh_name("gx"))
    st.assume(z3.And(el.t != 0, p.t != 0, links_consistent(H, "g")))
    st.assume(z3.ForAll([x], z3.Implies(x != 0, z3.Select(H.f["has_word"], x))))
    punct = repo.constant("trees", "PUNCT")
    w = H.data(el, "word")
    st.assume(z3.And(z3.Not(w.isnone), z3.Or(*[w.val.t == z3.StringVal(s) for s in punct])))
    ex.obligations = []
    g = ex.truth(ex.ev(guard, st), st)
    vcs = [("guard_true_means_a_second_child", list(st.pc) + [tobool(g)], H.nchild_t(p.t) >= 2)]
    for ob in ex.obligations:
        vcs.append(("guard." + ob.name.split(".")[-1], list(ob.pc), ob.goal))
    return vcs


LEMMAS = {"mover.punctuation_verylow": lemma_mover("trees.transform.punctuation_verylow"),
          "mover.punctuation_symetrify": lemma_mover("trees.transform.punctuation_symetrify"),
          "mover.punctuation_root": lemma_mover("trees.transform.punctuation_root"),
          "verylow_guard": lemma_verylow_guard}
