"""C13 -- punctuation re-attachment: the mover steps of the three transformations as block contracts, and the guards
in front of them (a move never empties the constituent it takes the token from)."""
import ast
import z3
from pyvc.core import Contract, Exec, State
from pyvc.heap import Heap
from pyvc.sym import VRef, VBool, tobool, fresh_name, Unsupported, vor, veq
from contracts.common import add_common
from contracts.mover import lemma_mover, links_consistent, find_steps

VERIFY = []
TRUSTED = ["mover steps and the guard are located by AST pattern in the real source"]
ASSUMPTIONS = ["block preconditions as in C04; for the guard lemma: the token being moved is a punctuation word "
               "(it was selected by the comprehension at the top of punctuation_verylow) and is a child of its parent"]


def build(reg):
    add_common(reg)


def lemma_verylow_guard(reg, repo):
    """the real guard expression `not all([child.data['word'] in trees.PUNCT for child in element.parent.children])`
    implies that element's parent has at least two children, so it keeps one after element has been moved away"""
    q = "trees.transform.punctuation_verylow"
    info = repo.fns.get(q)
    if info is None:
        raise Unsupported("punctuation_verylow no longer exists")
    guard = None
    for node in ast.walk(info.node):
        if isinstance(node, ast.If) and any(k == "move" for k, _ in find_steps(node)) and \
                isinstance(node.test, ast.UnaryOp) and isinstance(node.test.op, ast.Not) and guard is None:
            guard = node.test
    if guard is None:
        raise Unsupported("the punctuation-only guard around the mover step of punctuation_verylow was not found")
    c = Contract(target=q, prop="C13", args={})
    ex = Exec(repo, reg, info, c, prefix="C13.verylow_guard")
    H = Heap.fresh("G")
    st = State(heap=H)
    for t in H.typing():
        st.assume(t)
    el = VRef(z3.Int("g_element"))
    st.env["element"] = el
    ex.entry_heap = H.copy()
    p = H.parent(el)
    x = z3.Int(fresh_name("gx"))
    st.assume(z3.And(el.t != 0, p.t != 0, links_consistent(H, "g")))
    st.assume(z3.ForAll([x], z3.Implies(x != 0, z3.Select(H.f["has_word"], x))))
    punct = repo.constant("trees", "PUNCT")
    w = H.data(el, "word")
    st.assume(z3.And(z3.Not(w.isnone), z3.Or(*[w.val.t == z3.StringVal(s) for s in punct])))
    ex.obligations = []
    g = ex.truth(ex.ev(guard, st), st)
    vcs = [("guard_true_means_a_second_child", list(st.pc) + [tobool(g)], H.nchild_t(p.t) >= 2)]
    for ob in ex.obligations:
        vcs.append(("guard." + ob.name.split(".")[-1], list(ob.pc), ob.goal))
    return vcs


LEMMAS = {"mover.punctuation_verylow": lemma_mover("trees.transform.punctuation_verylow"),
          "mover.punctuation_symetrify": lemma_mover("trees.transform.punctuation_symetrify"),
          "mover.punctuation_root": lemma_mover("trees.transform.punctuation_root"),
          "verylow_guard": lemma_verylow_guard}


def lemma_root_and_symetrify_guards(reg, repo):
    """punctuation_root and punctuation_symetrify take a token away from its parent only where the real guard in front
    of the mover step (`if len(p.parent.children) < 2: continue`, resp. `... and len(cand.parent.children) > 1`) has
    established that the parent has at least two children: a move never empties a constituent"""
    vcs = []
    # --- punctuation_root: the statement before the mover step is `if len(p.parent.children) < 2: continue`
    q = "trees.transform.punctuation_root"
    info = repo.fns.get(q)
    if info is None:
        raise Unsupported("punctuation_root no longer exists")
    found = False
    for node in ast.walk(info.node):
        if not isinstance(node, ast.For):
            continue
        steps = find_steps(node)
        if not any(k == "move" for k, _ in steps):
            continue
        first_move = [w for k, w in steps if k == "move"][0][0]
        idx = node.body.index(first_move) if first_move in node.body else -1
        if idx < 1:
            continue
        g = node.body[idx - 1]
        if not (isinstance(g, ast.If) and len(g.body) == 1 and isinstance(g.body[0], ast.Continue) and not g.orelse):
            continue
        found = True
        c = Contract(target=q, prop="C13", args={})
        ex = Exec(repo, reg, info, c, prefix="C13.root_guard")
        H = Heap.fresh("G")
        st = State(heap=H)
        for t in H.typing():
            st.assume(t)
        p = VRef(z3.Int("g_p"))
        st.env["p"] = p
        ex.entry_heap = H.copy()
        st.assume(z3.And(p.t != 0, H.parent_t(p.t) != 0))
        ex.obligations = []
        skip = ex.truth(ex.ev(g.test, st), st)
        vcs.append(("root.move_only_from_a_parent_with_two_children", list(st.pc) + [z3.Not(tobool(skip))],
                    H.nchild_t(H.parent_t(p.t)) >= 2))
        for ob in ex.obligations:
            vcs.append(("root.guard." + ob.name.split(".")[-1], list(ob.pc), ob.goal))
    if not found:
        raise Unsupported("the `continue` guard in front of the mover step of punctuation_root was not found")
    # --- punctuation_symetrify: each mover step sits in an `if` whose test ends in len(cand.parent.children) > 1
    q = "trees.transform.punctuation_symetrify"
    info = repo.fns.get(q)
    if info is None:
        raise Unsupported("punctuation_symetrify no longer exists")
    n_found = 0
    for node in ast.walk(info.node):
        if not (isinstance(node, ast.If) and any(k == "move" and w[0] in node.body for k, w in find_steps(node))):
            continue
        n_found += 1
        c = Contract(target=q, prop="C13", args={})
        ex = Exec(repo, reg, info, c, prefix="C13.symetrify_guard")
        H = Heap.fresh("G")
        st = State(heap=H)
        for t in H.typing():
            st.assume(t)
        cand = VRef(z3.Int("g_cand%d" % n_found))
        from pyvc.sym import TList, REF, fresh
        assume = []
        st.env["cand"] = cand
        st.env["done"] = fresh(TList(REF), "g_done", assume=assume)
        for t in assume:
            st.assume(t)
        ex.entry_heap = H.copy()
        x = z3.Int(fresh_name("gx"))
        st.assume(z3.And(cand.t != 0, H.parent_t(cand.t) != 0))
        st.assume(z3.ForAll([x], z3.Implies(x != 0, z3.Select(H.f["has_word"], x))))
        ex.obligations = []
        ok = ex.truth(ex.ev(node.test, st), st)
        vcs.append(("symetrify%d.move_only_from_a_parent_with_two_children" % n_found, list(st.pc) + [tobool(ok)],
                    H.nchild_t(H.parent_t(cand.t)) >= 2))
    if n_found != 2:
        raise Unsupported("expected two guarded mover steps in punctuation_symetrify, found %d" % n_found)
    return vcs


lemma_root_and_symetrify_guards.target = "trees.transform.punctuation_root"
LEMMAS["root_and_symetrify_guards"] = lemma_root_and_symetrify_guards
