"""C09 -- grammarconst.label_strip_fanout: strips exactly the maximal trailing digit run."""
import z3
from pyvc.core import Contract, IS_DIGIT
from pyvc.sym import VInt, VBool, VStr, STR, conj, tobool, toint, tostr, fresh_name, qforall

VERIFY = ["trees.grammarconst.label_strip_fanout"]
TRUSTED = ["str.isdigit on one-character strings: uninterpreted predicate"]
ASSUMPTIONS = []


def at(s, j):
    return z3.SubString(s, j, 1)


def all_digits_from(s, lo):
    j = z3.Int(fresh_name("dj"))
    return z3.ForAll([j], z3.Implies(z3.And(lo <= j, j < z3.Length(s)), IS_DIGIT(at(s, j))))


def build(reg):
    def raises_index_error(S, label):
        # the label consists of digits only (or is empty): nothing would be left
        return VBool(all_digits_from(label.t, z3.IntVal(0)))

    def post(S, label, result):
        r = tostr(result)
        n = z3.Length(r)
        return VBool(z3.And(z3.PrefixOf(r, label.t), all_digits_from(label.t, n),
                            n > 0, z3.Not(IS_DIGIT(at(r, n - 1)))))

    def returns_means_some_non_digit(S, label, result):
        r = tostr(result)
        n = z3.Length(r)
        return VBool(z3.And(n > 0, z3.PrefixOf(r, label.t), z3.Not(IS_DIGIT(at(r, n - 1)))))

    reg.add(Contract(
        target="trees.grammarconst.label_strip_fanout", prop="C09", args=dict(label=STR),
        raises={"IndexError": raises_index_error},
        raises_not={"IndexError": returns_means_some_non_digit},
        ensures={"maximal_trailing_digit_run_removed": post}, result_type=STR,
        loops={0: dict(inv=lambda S: VBool(z3.And(z3.PrefixOf(tostr(S.label), tostr(S.pre.label)),
                                                  all_digits_from(tostr(S.pre.label), z3.Length(tostr(S.label))))),
                       variant=lambda S: VInt(z3.Length(tostr(S.label))))},
    ))


def lemma_not_all_digits(reg, repo):
    """a non-digit character at the end of a prefix refutes "all characters are digits" (links raises_not to raises)"""
    s, r = z3.String("nd_s"), z3.String("nd_r")
    n = z3.Length(r)
    w = n - 1
    hyp = [n > 0, z3.PrefixOf(r, s), z3.Not(IS_DIGIT(at(r, n - 1)))]
    return [("same_character", hyp, at(s, w) == at(r, w)),
            ("witness_is_in_range_and_not_a_digit", hyp + [at(s, w) == at(r, w)],
             z3.And(0 <= w, w < z3.Length(s), z3.Not(IS_DIGIT(at(s, w))))),
            ("instance_of_forall", [all_digits_from(s, z3.IntVal(0)), 0 <= w, w < z3.Length(s)], IS_DIGIT(at(s, w)))]


LEMMAS = {"not_all_digits": lemma_not_all_digits}
