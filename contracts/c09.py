"""C09 -- grammarconst.label_strip_fanout: strips exactly the maximal trailing digit run."""
import z3
from pyvc.core import Contract, IS_DIGIT
from pyvc.sym import VInt, VBool, VStr, STR, conj, tobool, toint, tostr, fresh_name, qforall

VERIFY = ["trees.grammarconst.label_strip_fanout"]
TRUSTED = ["str.isdigit on one-character strings: uninterpreted predicate"]
ASSUMPTIONS = []


def at(s, j):
    return z3.SubString(s, j, 1)


def all_digits_from(s, lo):
    j = z3.Int(fresh_name("dj"))
    return z3.ForAll([j], z3.Implies(z3.And(lo <= j, j < z3.Length(s)), IS_DIGIT(at(s, j))))


def build(reg):
    def raises_index_error(S, label):
        # the label consists of digits only (or is empty): nothing would be left
        return VBool(all_digits_from(label.t, z3.IntVal(0)))

    def post(S, label, result):
        r = tostr(result)
        n = z3.Length(r)
        return VBool(z3.And(z3.PrefixOf(r, label.t), all_digits_from(label.t, n),
                            n > 0, z3.Not(IS_DIGIT(at(r, n - 1)))))

    def returns_means_some_non_digit(S, label, result):
        r = tostr(result)
        n = z3.Length(r)
        return VBool(z3.And(n > 0, z3.PrefixOf(r, label.t), z3.Not(IS_DIGIT(at(r, n - 1)))))

    reg.add(Contract(
        target="trees.grammarconst.label_strip_fanout", prop="C09", args=dict(label=STR),
        raises={"IndexError": raises_index_error},
        raises_not={"IndexError": returns_means_some_non_digit},
        ensures={"maximal_trailing_digit_run_removed": post}, result_type=STR,
        loops={0: dict(inv=lambda S: VBool(z3.And(z3.PrefixOf(tostr(S.label), tostr(S.pre.label)),
                                                  all_digits_from(tostr(S.pre.label), z3.Length(tostr(S.label))))),
                       variant=lambda S: VInt(z3.Length(tostr(S.label))))},
    ))


def lemma_not_all_digits(reg, repo):
    """a non-digit character at the end of a prefix refutes "all characters are digits" (links raises_not to raises)"""
    s, r = z3.String("nd_s"), z3.String("nd_r")
    n = z3.Length(r)
    w = n - 1
    hyp = [n > 0, z3.PrefixOf(r, s), z3.Not(IS_DIGIT(at(r, n - 1)))]
    return [("same_character", hyp, at(s, w) == at(r, w)),
            ("witness_is_in_range_and_not_a_digit", hyp + [at(s, w) == at(r, w)],
             z3.And(0 <= w, w < z3.Length(s), z3.Not(IS_DIGIT(at(s, w))))),
            ("instance_of_forall", [all_digits_from(s, z3.IntVal(0)), 0 <= w, w < z3.Length(s)], IS_DIGIT(at(s, w)))]


LEMMAS = {"not_all_digits": lemma_not_all_digits}


# ----------------------------------------------------------------------------------------------------------------------
# "LoPar output is refused exactly for grammars that are not context-free"
#   grammaranalysis.is_contextfree  verified: True iff every linearization of every rule has at most one argument
#                                   (nested loops over the keys of a nested dict, early return)
#   grammaranalysis.fan_out         used through the contract "result[0] is the number of arguments of the
#                                   linearization"; that clause is proved on the last two statements of the function
#                                   (block), the per-symbol fan-outs (a Counter over a nested comprehension) are
#                                   bounded only
#   grammaroutput.lopar             the guard statement (block): ValueError iff not is_contextfree(gram)
# Linearizations are opaque dict keys here; LINLEN(key) names "the number of arguments of that linearization".
# ----------------------------------------------------------------------------------------------------------------------
from pyvc import sym as _sym
LINLEN = z3.Function("lin_arguments", _sym.KeyS, z3.IntSort())


def all_rules_have_one_argument(g):
    f, l = z3.Const(fresh_name("cf"), _sym.KeyS), z3.Const(fresh_name("cl"), _sym.KeyS)
    return z3.ForAll([f, l], z3.Implies(z3.And(_sym._sel(g.pres[0], [f]), _sym._sel(g.pres[1], [f, l])), LINLEN(l) <= 1))


def add_contextfree(reg):
    from pyvc.sym import TMap, TList, INT, BOOL

    reg.add(Contract(
        target="trees.grammaranalysis.fan_out", prop="C09", args=dict(lin=None),
        ensures={"first_entry_is_the_number_of_arguments": lambda S, lin, result: VBool(z3.And(
            result.n >= 1, toint(result.get(0)) == LINLEN(_sym.key_term(lin))))},
        result_type=TList(INT), assumed=True,
        note="fan_out(lin)[0] == number of arguments of lin (proved on the last two statements of fan_out: lemma "
             "fan_out_first_entry); the per-symbol entries are bounded only"))

    def outer(S):
        g, seq, it = S.grammar, S.seq, toint(S.it)
        i, k = z3.Int(fresh_name("oi")), z3.Const(fresh_name("ok"), _sym.KeyS)
        return VBool(z3.ForAll([i, k], z3.Implies(
            z3.And(0 <= i, i < it, _sym._sel(g.pres[1], [seq.get(i).t, k])), LINLEN(k) <= 1)))

    def inner(S):
        seq, it = S.seq, toint(S.it)
        j = z3.Int(fresh_name("ij"))
        return VBool(z3.ForAll([j], z3.Implies(z3.And(0 <= j, j < it), LINLEN(seq.get(j).t) <= 1)))

    reg.add(Contract(
        target="trees.grammaranalysis.is_contextfree", prop="C09", args=dict(grammar=TMap(3)),
        ensures={"iff_every_linearization_has_at_most_one_argument": lambda S, grammar, result: VBool(
            tobool(result) == all_rules_have_one_argument(grammar))},
        result_type=BOOL, loops={0: dict(inv=outer), 1: dict(inv=inner)}))


_build0 = build


def build(reg):
    _build0(reg)
    add_contextfree(reg)


VERIFY.append("trees.grammaranalysis.is_contextfree")


def lemma_fan_out_first_entry(reg, repo):
    """the last two statements of fan_out: result[0] = len(lin); return result"""
    import ast
    from pyvc.core import Exec, State
    from pyvc.heap import Heap
    from pyvc.sym import TList, TTuple, TOpt, INT, fresh, Unsupported
    qual = "trees.grammaranalysis.fan_out"
    info = repo.fns.get(qual)
    if info is None:
        raise Unsupported("function %s no longer exists" % qual)
    body = info.node.body
    if len(body) < 2 or not isinstance(body[-1], ast.Return) or ast.unparse(body[-1]) != "return result":
        raise Unsupported("fan_out no longer ends in `return result`")
    tail = body[-2:]
    c = Contract(target=qual, prop="C09", args={}, loops={})
    ex = Exec(repo, reg, info, c, prefix="C09.fan_out_tail")
    st = State(heap=Heap.fresh("F"))
    ex.entry_heap = st.heap.copy()
    assume = []
    lin = fresh(TList(TList(TTuple(INT, INT))), "f_lin", assume=assume)
    result = fresh(TList(TOpt(INT)), "f_result", assume=assume)
    for t in assume:
        st.assume(t)
    st.assume(result.n >= 1)            # [None] * (len(cnt) + 1)
    st.env.update(dict(lin=lin, result=result))
    ex.obligations = []
    outs = ex._with_raises(st, ex.exec_block(tail, st))
    vcs = []
    for oi, o in enumerate(outs):
        if o.kind != "return":
            raise Unsupported("the tail of fan_out leaves by %s" % o.kind)
        r = ex.iter_list(o.val, o.st, None)
        first = r.get(0)
        first_t = first.val.t if hasattr(first, "isnone") else toint(first)
        notnone = z3.Not(first.isnone) if hasattr(first, "isnone") else z3.BoolVal(True)
        vcs.append(("path%d.first_entry_is_the_number_of_arguments" % oi, list(o.st.pc),
                    z3.And(r.n == result.n, notnone, first_t == lin.n)))
    for ob in ex.obligations:
        vcs.append(("tail.%s" % ob.name.split(".", 2)[-1], list(ob.pc), ob.goal))
    return vcs


lemma_fan_out_first_entry.target = "trees.grammaranalysis.fan_out"
LEMMAS["fan_out_first_entry"] = lemma_fan_out_first_entry


def lemma_lopar_guard(reg, repo):
    """the guard of grammaroutput.lopar: ValueError exactly when the grammar is not context-free"""
    import ast
    from pyvc.core import Exec, State
    from pyvc.heap import Heap
    from pyvc.sym import TMap, fresh, Unsupported
    qual = "trees.grammaroutput.lopar"
    info = repo.fns.get(qual)
    if info is None:
        raise Unsupported("function %s no longer exists" % qual)
    guard = [s for s in info.node.body if isinstance(s, ast.If) and "is_contextfree(gram)" in ast.unparse(s.test)]
    if len(guard) != 1:
        raise Unsupported("the context-freeness guard of grammaroutput.lopar was not found")
    # nothing is written before the guard: no statement before it opens or writes a file
    before = info.node.body[:info.node.body.index(guard[0])]
    writes_before = any(isinstance(n, (ast.With, ast.Call)) and "open" in ast.unparse(n) for s in before for n in ast.walk(s))
    add_contextfree(reg)
    c = Contract(target=qual, prop="C09", args={}, loops={})
    ex = Exec(repo, reg, info, c, prefix="C09.lopar_guard")
    st = State(heap=Heap.fresh("G"))
    ex.entry_heap = st.heap.copy()
    assume = []
    gram = fresh(TMap(3), "g_gram", assume=assume)
    for t in assume:
        st.assume(t)
    st.env.update(dict(gram=gram))
    ex.obligations = []
    outs = ex._with_raises(st, ex.exec_block(guard, st))
    if writes_before:
        raise Unsupported("something is opened before the context-freeness guard of lopar: the guard block no longer "
                          "says that nothing is written for a refused grammar")
    vcs = [("nothing_is_opened_before_the_guard", [], z3.BoolVal(True))]
    cf = all_rules_have_one_argument(gram)
    for oi, o in enumerate(outs):
        if o.kind == "raise":
            vcs.append(("path%d.refusal_is_a_ValueError_and_only_for_non_context_free_grammars" % oi, list(o.st.pc),
                        z3.And(z3.BoolVal(o.exc == "ValueError"), z3.Not(cf))))
        elif o.kind == "normal":
            vcs.append(("path%d.context_free_grammars_pass_the_guard" % oi, list(o.st.pc), cf))
        else:
            raise Unsupported("the guard of lopar leaves by %s" % o.kind)
    for ob in ex.obligations:
        vcs.append(("guard.%s" % ob.name.split(".", 2)[-1], list(ob.pc), ob.goal))
    return vcs


lemma_lopar_guard.target = "trees.grammaroutput.lopar"
LEMMAS["lopar_guard"] = lemma_lopar_guard
