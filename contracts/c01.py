"""C01 -- export_parse_line: the field map of one export line (v3 / v4 detection, field assignment, parent range,
gf_split through the contract of parse_label)."""
import z3
from pyvc.core import (Contract, IS_DIGIT, IS_INT_LIT, STR_TO_INT, spec_wsplit, named_result)
from pyvc.sym import (VInt, VBool, VStr, VRec, VList, INT, BOOL, STR, TRec, TList, conj, tobool, toint, tostr,
                      fresh_name)

VERIFY = ["trees.treeinput.export_parse_line"]
SHARDS = {"trees.treeinput.export_parse_line": 8}
TRUSTED = ["str.split(): uninterpreted list py_wsplit(line) of non-empty pieces; isdigit/int uninterpreted",
           "parse_label is pure and deterministic (its C18 frame obligation): its result is named py_parse_label(label, sep)"]
ASSUMPTIONS = ["the gf separator option is a one-character string"]

S_ = z3.StringVal
FIELDS = ["word", "lemma", "label", "morph", "edge", "parent_num"]


def build(reg):
    from contracts import c20
    c20.build(reg)
    PL = reg.get("trees.trees.parse_label")

    def F(line):
        return spec_wsplit(line)

    def is_v3(line):
        return IS_DIGIT(F(line).get(4).t)

    def col(line, k):
        """k-th of the six fields after the optional insertion of the dummy lemma"""
        f = F(line)
        if k == 0:
            return f.get(0).t
        return z3.If(is_v3(line), S_("--") if k == 1 else f.get(k - 1).t, f.get(k).t)

    def nfields(line):
        return z3.If(is_v3(line), F(line).n + 1, F(line).n)

    def parent_str(line):
        return col(line, 5)

    def sep_of(params):
        return z3.If(params.fields["has"]["gf_separator"], tostr(params.fields["val"]["gf_separator"]), S_("-"))

    def requires(S, line, params):
        return VBool(z3.Implies(params.fields["has"]["gf_separator"],
                                z3.Length(tostr(params.fields["val"]["gf_separator"])) == 1))

    def raises_index(S, line, params):
        return VBool(F(line).n < 5)                      # fewer than five fields: fields[4] does not exist

    def raises_value(S, line, params):
        p = STR_TO_INT(parent_str(line))
        return VBool(z3.And(F(line).n >= 5, z3.Or(
            nfields(line) < 6,
            z3.Not(IS_INT_LIT(parent_str(line))),
            z3.Not(z3.Or(z3.And(500 <= p, p < 1000), p == 0)))))

    def post(S, line, params, result):
        f = result.fields
        gf_split = params.fields["has"]["gf_split"]
        sepv = VStr(sep_of(params))
        lab_in = VStr(col(line, 2))
        # the named result of parse_label(label column, gf_separator=sep)
        pp = VRec("params", {"has": {"gf_separator": z3.BoolVal(True)}, "val": {"gf_separator": sepv}})
        pl = named_result(PL, [lab_in, pp]).fields
        co, gap = tostr(pl["coindex"]), tostr(pl["gapindex"])
        relabel = z3.Concat(tostr(pl["label"]),
                            z3.If(z3.Length(gap) > 0, z3.Concat(S_("="), gap), S_("")),
                            z3.If(z3.Length(co) > 0, z3.Concat(S_("-"), co), S_("")),
                            tostr(pl["headmarker"]))
        edge_in = col(line, 4)
        return VBool(z3.And(
            tostr(f["word"]) == col(line, 0), tostr(f["lemma"]) == col(line, 1),
            tostr(f["morph"]) == col(line, 3),
            toint(f["parent_num"]) == STR_TO_INT(parent_str(line)),
            tostr(f["label"]) == z3.If(gf_split, relabel, col(line, 2)),
            tostr(f["edge"]) == z3.If(z3.And(gf_split, tostr(pl["gf"]) != S_("--")), tostr(pl["gf"]), edge_in)))

    reg.add(Contract(
        target="trees.treeinput.export_parse_line", prop="C01", args=dict(line=STR),
        params=dict(gf_separator=STR, gf_split=BOOL),
        requires=requires,
        raises={"IndexError": raises_index, "ValueError": raises_value},
        ensures={"field_map": post},
        result_type=TRec(word=STR, lemma=STR, label=STR, morph=STR, edge=STR, parent_num=INT)))


# ----------------------------------------------------------------------------------------------------------------------
# treeinput.brackets: one step of the bracket automaton (the body of `for lextoken, lexclass in lexer`) as a block
# contract over (state, level, queue, term_cnt, cnt): the invariant below is kept by every step that does not raise,
# every raise is a ValueError, the four "unknown state" branches and "unknown lexer token class" are unreachable,
# every subscript of the stack is in range, and the step that yields a sentence resets the per-sentence state.
# Proved for parameter sets without `disco` and `replace_parens`: those two branches (readline / a traversal that
# rewrites characters) are outside the subset; a syntactic obligation checks that they assign none of the automaton's
# variables, so they cannot disturb the invariant.
# ----------------------------------------------------------------------------------------------------------------------
AUTOMATON_VARS = ("state", "level", "queue", "term_cnt", "cnt")


def lemma_brackets_automaton(reg, repo):
    import ast
    from pyvc.core import Exec, State
    from pyvc.heap import Heap
    from pyvc.sym import VRef, REF, fresh, qforall, Unsupported
    from contracts.common import add_common
    from contracts import c20
    add_common(reg)
    c20.build(reg)
    qual = "trees.treeinput.brackets"
    info = repo.fns.get(qual)
    if info is None:
        raise Unsupported("function %s no longer exists" % qual)
    loop = None
    for node in ast.walk(info.node):
        if isinstance(node, ast.For) and ast.unparse(node.target) == "(lextoken, lexclass)":
            loop = node
    if loop is None:
        raise Unsupported("the lexer loop of treeinput.brackets was not found (the contract no longer binds)")
    PKEYS = {"brackets_emptypos": BOOL, "quiet": BOOL, "disco": BOOL, "disco_reordered": BOOL, "replace_parens": BOOL,
             "gf_split": BOOL}
    c = Contract(target=qual, prop="C01", args={}, params=PKEYS, loops={})
    ex = Exec(repo, reg, info, c, prefix="C01.brackets_step")
    H = Heap.fresh("B")
    st = State(heap=H)
    for t in H.typing():
        st.assume(t)
    assume = []
    env = dict(
        queue=fresh(TList(REF), "b_queue", assume=assume),
        state=fresh(INT, "b_state"), level=fresh(INT, "b_level"), term_cnt=fresh(INT, "b_term_cnt"),
        cnt=fresh(INT, "b_cnt"), lexclass=fresh(STR, "b_lexclass"), lextoken=fresh(STR, "b_lextoken"),
        lasttoken=fresh(STR, "b_lasttoken"), gf_separator=fresh(STR, "b_gf_separator"))
    for t in assume:
        st.assume(t)
    st.env.update(env)
    st.env["params"] = ex._fresh_params(st, "bp")
    has = st.env["params"].fields["has"]
    st.assume(z3.Not(has["disco"]))
    st.assume(z3.Not(has["replace_parens"]))
    st.assume(z3.Length(tostr(env["gf_separator"])) == 1)
    st.yielded = fresh(TList(REF), "b_yielded", assume=assume)
    st.assume(st.yielded.n >= 0)
    ex.entry_heap = H.copy()

    def inv(e, heap):
        q, s, l, tc = e["queue"], toint(e["state"]), toint(e["level"]), toint(e["term_cnt"])
        j = z3.Int(fresh_name("qj"))
        el = q.get(j)
        nonnull = qforall([j], z3.Implies(z3.And(0 <= j, j < q.n), el.t != 0), [el.t]) if hasattr(el, "t") \
            else z3.BoolVal(True)           # the empty list literal has no elements
        return z3.And(
            z3.Or(s == 0, s == 1, s == 2, s == 3, s == 4, s == 5, s == 9),
            l == q.n, l >= 0, (s == 0) == (l == 0), tc >= 1,
            # the stack holds allocated nodes
            nonnull)

    st.assume(inv(env, H))
    lc = tostr(env["lexclass"])
    st.assume(z3.Or(lc == S_("LRB"), lc == S_("RRB"), lc == S_("WS"), lc == S_("TOKEN")))
    # the initial values of the per-sentence variables, as assigned before the lexer loop
    init = {}
    for node in info.node.body:
        if isinstance(node, ast.Assign) and len(node.targets) == 1 and isinstance(node.targets[0], ast.Name) \
                and node.targets[0].id in ("state", "level", "term_cnt") and isinstance(node.value, ast.Constant) \
                and isinstance(node.value.value, int):
            init[node.targets[0].id] = node.value.value
        if isinstance(node, ast.Assign) and ast.unparse(node) == "queue = []":
            init["queue"] = []
    if set(init) != {"state", "level", "term_cnt", "queue"}:
        raise Unsupported("the initial values of state / level / term_cnt / queue were not found before the lexer loop")
    ex.obligations = []
    n_y0 = st.yielded.n
    q0, cnt0 = env["queue"], toint(env["cnt"])
    outs = ex._with_raises(st, ex.exec_block(loop.body, st))
    raise_nodes = {ex.line(n): n for n in ast.walk(loop) if isinstance(n, ast.Raise)}
    vcs = []
    for oi, o in enumerate(outs):
        if o.kind == "raise":
            node = raise_nodes.get(o.val)
            text = ast.unparse(node) if node is not None else ""
            if o.exc != "ValueError":
                vcs.append(("path%d.L%s.only_ValueError_is_raised(%s)" % (oi, o.val, o.exc), list(o.st.pc), z3.BoolVal(False)))
            elif "unknown" in text:
                vcs.append(("path%d.L%s.unknown_state_branch_unreachable" % (oi, o.val), list(o.st.pc), z3.BoolVal(False)))
            continue
        if o.kind != "normal":
            raise Unsupported("the automaton step leaves the loop body by %s" % o.kind)
        e = o.st.env
        vcs.append(("path%d.invariant_kept(proof-internal)" % oi, list(o.st.pc), inv(e, o.st.heap)))
        yielded = o.st.yielded
        # a sentence was yielded on this path iff the yielded list has grown
        grew = yielded.n == n_y0 + 1
        vcs.append(("path%d.yields_at_most_one_sentence" % oi, list(o.st.pc), z3.Or(yielded.n == n_y0, grew)))
        vcs.append(("path%d.reset_after_yield" % oi, list(o.st.pc), z3.Implies(grew, z3.And(
            # ... to the values the reader starts with (read from the assignments before the loop)
            e["queue"].n == 0, toint(e["state"]) == init["state"], toint(e["level"]) == init["level"],
            toint(e["term_cnt"]) == init["term_cnt"],
            toint(e["cnt"]) == cnt0 + 1,
            # what is yielded is the bottom of the stack, with the sentence id that was current
            yielded.get(n_y0).t == q0.get(0).t,
            z3.Select(o.st.heap.f["val_sid"], q0.get(0).t) == cnt0))))
        vcs.append(("path%d.sentence_counter_moves_only_with_a_yield" % oi, list(o.st.pc),
                    z3.Implies(z3.Not(grew), toint(e["cnt"]) == cnt0)))
    for ob in ex.obligations:
        vcs.append(("step.%s" % ob.name.split(".", 2)[-1], list(ob.pc), ob.goal))
    # the two branches outside the subset assign none of the automaton's variables
    for node in ast.walk(loop):
        if isinstance(node, ast.If) and ("'replace_parens' in params" in ast.unparse(node.test)
                                         or "'disco' in params" in ast.unparse(node.test)):
            written = set()
            for sub in node.body:
                for n in ast.walk(sub):
                    if isinstance(n, (ast.Assign, ast.AugAssign, ast.For)):
                        tg = n.targets if isinstance(n, ast.Assign) else [n.target]
                        for t in tg:
                            for nm in ast.walk(t):
                                if isinstance(nm, ast.Name) and isinstance(nm.ctx, ast.Store):
                                    written.add(nm.id)
                    if isinstance(n, (ast.Yield, ast.Return, ast.Break, ast.Continue)):
                        written.add("<control:%s>" % type(n).__name__)
                    if isinstance(n, ast.Call) and isinstance(n.func, ast.Attribute) and isinstance(n.func.value, ast.Name) \
                            and n.func.value.id == "queue":
                        written.add("queue")
            bad = sorted(written & (set(AUTOMATON_VARS) | {"<control:Yield>", "<control:Return>", "<control:Break>",
                                                           "<control:Continue>"}))
            if bad:
                # not a violation: the proof simply no longer covers this branch -> undecided, the bounded part decides
                raise Unsupported("the branch at L%d (outside the verified subset) now touches %s: the automaton step is "
                                  "no longer covered by this contract" % (ex.line(node), bad))
            vcs.append(("excluded_branch_L%d_leaves_the_automaton_alone" % ex.line(node), [], z3.BoolVal(True)))
    return vcs


lemma_brackets_automaton.target = "trees.treeinput.brackets"
LEMMAS = dict(globals().get("LEMMAS", {}))
LEMMAS["brackets_automaton"] = lemma_brackets_automaton


# ----------------------------------------------------------------------------------------------------------------------
# treeinput.export: closing a sentence (from the assignment of the sentence id to the end of the #EOS branch) as a block
# contract: the id is the running count with `continuous`, else the number on the #BOS line; exactly that tree is
# yielded; the per-sentence state is reset and the sentence count advances by one.  The `replace_parens` traversal in
# between is outside the subset; a syntactic obligation checks that it assigns none of the reader's variables.
# ----------------------------------------------------------------------------------------------------------------------
def lemma_export_close_sentence(reg, repo):
    import ast
    from pyvc.core import Exec, State
    from pyvc.heap import Heap
    from pyvc.sym import VRef, REF, fresh, Unsupported
    qual = "trees.treeinput.export"
    info = repo.fns.get(qual)
    if info is None:
        raise Unsupported("function %s no longer exists" % qual)
    body = None
    for node in ast.walk(info.node):
        b = getattr(node, "body", None)
        if isinstance(b, list) and any(isinstance(s, ast.Expr) and isinstance(s.value, ast.Yield) for s in b):
            body = b
    if body is None:
        raise Unsupported("the yield of treeinput.export was not found (the contract no longer binds)")
    srcs = [ast.unparse(s) for s in body]
    start = [i for i, t in enumerate(srcs) if t.startswith("tree.data['sid'] =")]
    if not start:
        raise Unsupported("the sentence-id assignment of treeinput.export was not found")
    tail = body[start[0]:]
    excluded = [s for s in tail if isinstance(s, ast.If) and "'replace_parens' in params" in ast.unparse(s.test)]
    block = [s for s in tail if s not in excluded]
    c = Contract(target=qual, prop="C01", args={}, params={"continuous": BOOL, "replace_parens": BOOL}, loops={})
    ex = Exec(repo, reg, info, c, prefix="C01.export_close")
    H = Heap.fresh("E")
    st = State(heap=H)
    for t in H.typing():
        st.assume(t)
    assume = []
    tree = VRef(z3.Int(fresh_name("e_tree")))
    env = dict(tree=tree, tree_cnt=fresh(INT, "e_tree_cnt"), last_id=fresh(INT, "e_last_id"),
               term_cnt=fresh(INT, "e_term_cnt"), in_sentence=VBool(z3.BoolVal(True)),
               sentence=fresh(TList(STR), "e_sentence", assume=assume))
    st.env.update(env)
    st.env["params"] = ex._fresh_params(st, "ep")
    st.yielded = fresh(TList(REF), "e_yielded", assume=assume)
    for t in assume:
        st.assume(t)
    st.assume(tree.t != 0)
    ex.entry_heap = H.copy()
    ex.obligations = []
    n0 = st.yielded.n
    outs = ex._with_raises(st, ex.exec_block(block, st))
    vcs = []
    has = st.env["params"].fields["has"]
    for oi, o in enumerate(outs):
        if o.kind != "normal":
            raise Unsupported("closing a sentence leaves the block by %s" % o.kind)
        e = o.st.env
        sid = z3.Select(o.st.heap.f["val_sid"], tree.t)
        goals = {
            "sentence_id_counted_or_taken_from_the_file": z3.And(
                z3.Select(o.st.heap.f["has_sid"], tree.t),
                sid == z3.If(has["continuous"], toint(env["tree_cnt"]), toint(env["last_id"]))),
            "exactly_this_tree_is_yielded": z3.And(o.st.yielded.n == n0 + 1, o.st.yielded.get(n0).t == tree.t),
            "per_sentence_state_reset_and_count_advanced": z3.And(
                z3.Not(tobool(e["in_sentence"])), ex.iter_list(e["sentence"], o.st, None).n == 0,
                toint(e["term_cnt"]) == 1, toint(e["tree_cnt"]) == toint(env["tree_cnt"]) + 1,
                toint(e["last_id"]) == toint(env["last_id"])),
        }
        for gname, g in goals.items():
            vcs.append(("path%d.%s" % (oi, gname), list(o.st.pc), g))
    for ob in ex.obligations:
        vcs.append(("step.%s" % ob.name.split(".", 2)[-1], list(ob.pc), ob.goal))
    reader_vars = {"tree", "tree_cnt", "last_id", "term_cnt", "in_sentence", "sentence"}
    for node in excluded:
        written = set()
        for sub in node.body:
            for n in ast.walk(sub):
                if isinstance(n, ast.Name) and isinstance(n.ctx, ast.Store):
                    written.add(n.id)
                if isinstance(n, (ast.Yield, ast.Return, ast.Break, ast.Continue)):
                    written.add("<control>")
        bad = sorted(written & (reader_vars | {"<control>"}))
        if bad:
            raise Unsupported("the replace_parens branch at L%d now touches %s: closing a sentence is no longer covered "
                              "by this contract" % (ex.line(node), bad))
        vcs.append(("excluded_branch_L%d_leaves_the_reader_state_alone" % ex.line(node), [], z3.BoolVal(True)))
    return vcs


lemma_export_close_sentence.target = "trees.treeinput.export"
LEMMAS["export_close_sentence"] = lemma_export_close_sentence
