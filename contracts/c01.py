"""C01 -- export_parse_line: the field map of one export line (v3 / v4 detection, field assignment, parent range,
gf_split through the contract of parse_label)."""
import z3
from pyvc.core import (Contract, IS_DIGIT, IS_INT_LIT, STR_TO_INT, spec_wsplit, named_result)
from pyvc.sym import (VInt, VBool, VStr, VRec, VList, INT, BOOL, STR, TRec, TList, conj, tobool, toint, tostr,
                      fresh_name)

VERIFY = ["trees.treeinput.export_parse_line"]
SHARDS = {"trees.treeinput.export_parse_line": 8}
TRUSTED = ["str.split(): uninterpreted list py_wsplit(line) of non-empty pieces; isdigit/int uninterpreted",
           "parse_label is pure and deterministic (its C18 frame obligation): its result is named py_parse_label(label, sep)"]
ASSUMPTIONS = ["the gf separator option is a one-character string"]

S_ = z3.StringVal
FIELDS = ["word", "lemma", "label", "morph", "edge", "parent_num"]


def build(reg):
    from contracts import c20
    c20.build(reg)
    PL = reg.get("trees.trees.parse_label")

    def F(line):
        return spec_wsplit(line)

    def is_v3(line):
        return IS_DIGIT(F(line).get(4).t)

    def col(line, k):
        """k-th of the six fields after the optional insertion of the dummy lemma"""
        f = F(line)
        if k == 0:
            return f.get(0).t
        return z3.If(is_v3(line), S_("--") if k == 1 else f.get(k - 1).t, f.get(k).t)

    def nfields(line):
        return z3.If(is_v3(line), F(line).n + 1, F(line).n)

    def parent_str(line):
        return col(line, 5)

    def sep_of(params):
        return z3.If(params.fields["has"]["gf_separator"], tostr(params.fields["val"]["gf_separator"]), S_("-"))

    def requires(S, line, params):
        return VBool(z3.Implies(params.fields["has"]["gf_separator"],
                                z3.Length(tostr(params.fields["val"]["gf_separator"])) == 1))

    def raises_index(S, line, params):
        return VBool(F(line).n < 5)                      # fewer than five fields: fields[4] does not exist

    def raises_value(S, line, params):
        p = STR_TO_INT(parent_str(line))
        return VBool(z3.And(F(line).n >= 5, z3.Or(
            nfields(line) < 6,
            z3.Not(IS_INT_LIT(parent_str(line))),
            z3.Not(z3.Or(z3.And(500 <= p, p < 1000), p == 0)))))

    def post(S, line, params, result):
        f = result.fields
        gf_split = params.fields["has"]["gf_split"]
        sepv = VStr(sep_of(params))
        lab_in = VStr(col(line, 2))
        # the named result of parse_label(label column, gf_separator=sep)
        pp = VRec("params", {"has": {"gf_separator": z3.BoolVal(True)}, "val": {"gf_separator": sepv}})
        pl = named_result(PL, [lab_in, pp]).fields
        co, gap = tostr(pl["coindex"]), tostr(pl["gapindex"])
        relabel = z3.Concat(tostr(pl["label"]),
                            z3.If(z3.Length(gap) > 0, z3.Concat(S_("="), gap), S_("")),
                            z3.If(z3.Length(co) > 0, z3.Concat(S_("-"), co), S_("")),
                            tostr(pl["headmarker"]))
        edge_in = col(line, 4)
        return VBool(z3.And(
            tostr(f["word"]) == col(line, 0), tostr(f["lemma"]) == col(line, 1),
            tostr(f["morph"]) == col(line, 3),
            toint(f["parent_num"]) == STR_TO_INT(parent_str(line)),
            tostr(f["label"]) == z3.If(gf_split, relabel, col(line, 2)),
            tostr(f["edge"]) == z3.If(z3.And(gf_split, tostr(pl["gf"]) != S_("--")), tostr(pl["gf"]), edge_in)))

    reg.add(Contract(
        target="trees.treeinput.export_parse_line", prop="C01", args=dict(line=STR),
        params=dict(gf_separator=STR, gf_split=BOOL),
        requires=requires,
        raises={"IndexError": raises_index, "ValueError": raises_value},
        ensures={"field_map": post},
        result_type=TRec(word=STR, lemma=STR, label=STR, morph=STR, edge=STR, parent_num=INT)))
