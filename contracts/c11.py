"""C11 -- filter_by_length (complete functional spec) and trees.delete_terminal (leaf removal with upward pruning and
renumbering) under contract."""
import z3
from pyvc.core import Contract
from pyvc.sym import (VInt, VBool, VStr, VRef, VNone, INT, BOOL, STR, REF, TOpt, conj, disj, neg, ite, implies,
                      length, tobool, toint, tostr, fresh_name)
from pyvc.sym import qforall
from contracts.common import add_common, WF, wf_theory, desc, T_idx

VERIFY = ["trees.transform.filter_by_length", "trees.trees.delete_terminal"]
TRUSTED = ["contract of trees.terminals used at the call site (verified under C19); wf_theory (see C19)"]
ASSUMPTIONS = ["filtervalue is an integer (misc.options_dict converts digit strings), filteroperator a string"]


_SPEC = {}


def as_ref(v):
    if v is VNone or v is None:
        return VRef(0)
    return v


def build(reg):
    add_common(reg)

    def post(S, tree, params, result):
        """the tree is dropped (None) exactly when its number of tokens is less than / greater than / equal to
        the value, as the operator says; otherwise it is returned itself"""
        n = S.H.terms(tree).n
        op = tostr(params.fields["val"]["filteroperator"])
        v = toint(params.fields["val"]["filtervalue"])
        drop = z3.Or(z3.And(op == z3.StringVal("lt"), n < v), z3.And(op == z3.StringVal("gt"), n > v),
                     z3.And(op == z3.StringVal("eq"), n == v))
        return VBool(as_ref(result).t == z3.If(drop, 0, tree.t))

    reg.add(Contract(
        target="trees.transform.filter_by_length", prop="C11", args=dict(tree=REF),
        params=dict(filteroperator=STR, filtervalue=INT),
        requires=lambda S, tree, params: conj(WF(S.H, tree), tree != None,
                                              VBool(params.fields["has"]["filteroperator"]),
                                              VBool(params.fields["has"]["filtervalue"])),
        ensures={"drops_exactly_the_trees_the_operator_names": post},
        result_type=REF))


    # ------------------------------------------------------------------------------------------------------------
    # trees.delete_terminal(tree, leaf)
    # ------------------------------------------------------------------------------------------------------------
    def root0(H, tree):
        return H.anc(tree, VInt(0))

    def dt_requires(S, tree, leaf):
        H = S.H
        return conj(WF(H, tree), tree != None, WF(H, leaf), leaf != None, wf_theory(H),
                    VBool(H.nchild_t(leaf.t) == 0), VBool(z3.Select(H.f["has_num"], leaf.t)),
                    # the leaf belongs to the tree
                    VBool(H.anc(leaf, VInt(0)).t == root0(H, tree).t))

    def climb_inv(S):
        H, tree, root = S.H, S.tree, S.root
        return conj(root != None, WF(H, root), desc(H, root, tree))

    def on_chain(H0, L0, n, lo, hi):
        """n is the ancestor of L0 at a depth strictly between lo and hi"""
        return z3.And(tobool(WF(H0, VRef(n))), lo < H0.depth(VRef(n)).t, H0.depth(VRef(n)).t < hi,
                      H0.anc(L0, H0.depth(VRef(n))).t == n)

    def pruned_shape(H, H0, L0, top):
        """the child lists after pruning up to `top` (an ancestor of the leaf L0, or L0 itself when nothing was removed
        yet): the unary nodes strictly between lost their only child, `top` lost the child the leaf hangs below, every
        other list is as before"""
        n, k = z3.Int(fresh_name("sn")), z3.Int(fresh_name("sk"))
        dl, dt = H0.depth(L0).t, H0.depth(top).t
        below = H0.anc(L0, VInt(dt + 1))                    # the child of `top` on the way to the leaf
        p = H0.pos(below).t
        unchanged = lambda m: z3.And(H.nchild_t(m) == H0.nchild_t(m),
                                     z3.Select(H.f["child"], m) == z3.Select(H0.f["child"], m))
        return z3.And(
            z3.Implies(top.t == L0.t, z3.ForAll([n], unchanged(n))),
            z3.Implies(top.t != L0.t, z3.And(
                H.nchild_t(top.t) == H0.nchild_t(top.t) - 1,
                qforall([k], z3.Implies(z3.And(0 <= k, k < H.nchild_t(top.t)),
                                        H.child_t(top.t, k) == z3.If(k < p, H0.child_t(top.t, k),
                                                                     H0.child_t(top.t, k + 1))),
                        [H.child_t(top.t, k)]),
                qforall([n], z3.Implies(on_chain(H0, L0, n, dt, dl),
                                        z3.And(H.nchild_t(n) == 0, H0.nchild_t(n) == 1)), [H.nchild_t(n)]),
                qforall([n], z3.Implies(z3.And(z3.Not(on_chain(H0, L0, n, dt, dl)), n != top.t), unchanged(n)),
                        [H.nchild_t(n)]))))

    def prune_inv(S):
        H, H0 = S.H, S.old
        L0, leaf, parent = S.entry("leaf"), S.final("leaf"), S.parent
        return conj(leaf != None, WF(H0, leaf), desc(H0, leaf, L0),
                    VBool(parent.t == H0.parent_t(leaf.t)),
                    VBool(z3.Implies(leaf.t != L0.t, H0.depth(leaf).t < H0.depth(L0).t)),
                    VBool(pruned_shape(H, H0, L0, leaf)))

    def in_T0(H0, root, n):
        T = H0.terms(root)
        i = T_idx(H0, root, VRef(n)).t
        return z3.And(0 <= i, i < T.n, T.get(i).t == n)

    def renum(H, H0, root, num0, upto):
        """tokens T0[0:upto] with a number above num0 moved down by one; every other number is as before"""
        n = z3.Int(fresh_name("rn"))
        idx = lambda m: T_idx(H0, root, VRef(m)).t
        v0 = lambda m: z3.Select(H0.f["val_num"], m)
        return z3.And(
            qforall([n], z3.Select(H.f["val_num"], n) ==
                    z3.If(z3.And(in_T0(H0, root, n), idx(n) < upto, v0(n) > num0), v0(n) - 1, v0(n)),
                    [z3.Select(H.f["val_num"], n)]),
            qforall([n], z3.Select(H.f["has_num"], n) == z3.Select(H0.f["has_num"], n),
                    [z3.Select(H.f["has_num"], n)]))

    def renum_inv(S):
        H, H0 = S.H, S.old
        root = root0(H0, S.tree)
        return VBool(renum(H, H0, root, z3.Select(H0.f["val_num"], S.entry("leaf").t), toint(S.it)))

    def dt_post_result(S, tree, leaf, result):
        """the lowest ancestor of the leaf that keeps a child, else the root (the leaf itself if it is the root)"""
        H0 = S.old
        n = z3.Int(fresh_name("pn"))
        dl, dr = H0.depth(leaf).t, H0.depth(result).t
        return conj(result != None, WF(H0, result), desc(H0, result, leaf),
                    VBool(z3.Implies(H0.parent_t(leaf.t) == 0, result.t == leaf.t)),
                    VBool(z3.Implies(H0.parent_t(leaf.t) != 0, z3.And(
                        dr < dl,
                        # everything strictly between was a unary chain ...
                        qforall([n], z3.Implies(on_chain(H0, leaf, n, dr, dl), H0.nchild_t(n) == 1),
                                [H0.nchild_t(n)]),
                        # ... and the result is the first node with another child, or the root
                        z3.Or(H0.parent_t(result.t) == 0, H0.nchild_t(result.t) >= 2)))))

    def dt_post_shape(S, tree, leaf, result):
        return VBool(pruned_shape(S.H, S.old, leaf, result))

    def dt_post_numbers(S, tree, leaf, result):
        H, H0 = S.H, S.old
        root = root0(H0, tree)
        return VBool(renum(H, H0, root, z3.Select(H0.f["val_num"], leaf.t), H0.terms(root).n))

    _SPEC["renum"] = renum
    _SPEC["requires"] = dt_requires
    reg.add(Contract(
        target="trees.trees.delete_terminal", prop="C11", args=dict(tree=REF, leaf=REF),
        requires=dt_requires, modifies=["nchild", "child", "has_num", "val_num"],
        ensures={"returns_lowest_surviving_ancestor": dt_post_result,
                 "leaf_and_emptied_unary_ancestors_are_unlinked_nothing_else": dt_post_shape,
                 "later_tokens_move_down_by_one_others_keep_their_number": dt_post_numbers},
        result_type=REF,
        loops={0: dict(inv=climb_inv, variant=lambda S: S.H.depth(S.root)),
               1: dict(inv=prune_inv, variant=lambda S: S.old.depth(S.final("leaf"))),
               2: dict(inv=renum_inv)},
        solver_hints={"inv1.keep": {"cli_s": 30}, "post.": {"cli_s": 30}},
    ))


def lemma_renumbered_without_holes(reg, repo):
    """over the contract of delete_terminal: if the tokens of the tree were numbered 1..n, the surviving tokens are
    numbered 1..n-1 in the same order (token i keeps i+1 before the deleted one, gets i after it)"""
    from pyvc.heap import Heap
    from contracts.common import terms_facts
    H0, H1 = Heap.fresh("N"), Heap.fresh("M")
    tree, leaf = VRef(z3.Int("n_tree")), VRef(z3.Int("n_leaf"))

    class S(object):
        pass
    S.H = H0
    S.old = H0
    root = H0.anc(tree, VInt(0))
    T = H0.terms(root)
    i, k = z3.Int("n_i"), z3.Int("n_k")
    j = z3.Int(fresh_name("nj"))
    v0 = lambda m: z3.Select(H0.f["val_num"], m)
    v1 = lambda m: z3.Select(H1.f["val_num"], m)
    hyp = [tobool(_SPEC["requires"](S, tree, leaf)), tobool(terms_facts(H0, root)),
           _SPEC["renum"](H1, H0, root, v0(leaf.t), T.n),
           # numbered 1..n, and the leaf is the k-th token
           z3.ForAll([j], z3.Implies(z3.And(0 <= j, j < T.n), v0(T.get(j).t) == j + 1)),
           0 <= k, k < T.n, T.get(k).t == leaf.t, 0 <= i, i < T.n, i != k]
    return [("surviving_tokens_are_numbered_1_to_n_minus_1", hyp,
             v1(T.get(i).t) == z3.If(i < k, i + 1, i))]


LEMMAS = {"renumbered_without_holes": lemma_renumbered_without_holes}
