"""C11 -- filter_by_length (complete functional spec) and trees.delete_terminal (leaf removal with upward pruning and
renumbering) under contract."""
import z3
from pyvc.core import Contract
from pyvc.sym import (VInt, VBool, VStr, VRef, VNone, INT, BOOL, STR, REF, TOpt, conj, disj, neg, ite, implies,
                      length, tobool, toint, tostr, fresh_name)
from pyvc.sym import qforall
from contracts.common import add_common, WF, wf_theory, desc, T_idx

VERIFY = ["trees.transform.filter_by_length", "trees.trees.delete_terminal"]
TRUSTED = ["contract of trees.terminals used at the call site (verified under C19); wf_theory (see C19)",
           "insert step: locality of the token list -- writing a node that was not allocated (and is not linked) does not "
           "change T(tree); the call sites prove that nothing else was written",
           "insert step: the lookup in the parameter-file table (a function attribute) is an opaque pair (word, tag)"]
ASSUMPTIONS = ["filtervalue is an integer (misc.options_dict converts digit strings), filteroperator a string"]


_SPEC = {}


def as_ref(v):
    if v is VNone or v is None:
        return VRef(0)
    return v


def build(reg):
    add_common(reg)

    def post(S, tree, params, result):
        """the tree is dropped (None) exactly when its number of tokens is less than / greater than / equal to
        the value, as the operator says; otherwise it is returned itself"""
        n = S.H.terms(tree).n
        op = tostr(params.fields["val"]["filteroperator"])
        v = toint(params.fields["val"]["filtervalue"])
        drop = z3.Or(z3.And(op == z3.StringVal("lt"), n < v), z3.And(op == z3.StringVal("gt"), n > v),
                     z3.And(op == z3.StringVal("eq"), n == v))
        return VBool(as_ref(result).t == z3.If(drop, 0, tree.t))

    reg.add(Contract(
        target="trees.transform.filter_by_length", prop="C11", args=dict(tree=REF),
        params=dict(filteroperator=STR, filtervalue=INT),
        requires=lambda S, tree, params: conj(WF(S.H, tree), tree != None,
                                              VBool(params.fields["has"]["filteroperator"]),
                                              VBool(params.fields["has"]["filtervalue"])),
        ensures={"drops_exactly_the_trees_the_operator_names": post},
        result_type=REF))


    # ------------------------------------------------------------------------------------------------------------
    # trees.delete_terminal(tree, leaf)
    # ------------------------------------------------------------------------------------------------------------
    def root0(H, tree):
        return H.anc(tree, VInt(0))

    def dt_requires(S, tree, leaf):
        H = S.H
        return conj(WF(H, tree), tree != None, WF(H, leaf), leaf != None, wf_theory(H),
                    VBool(H.nchild_t(leaf.t) == 0), VBool(z3.Select(H.f["has_num"], leaf.t)),
                    # the leaf belongs to the tree
                    VBool(H.anc(leaf, VInt(0)).t == root0(H, tree).t))

    def climb_inv(S):
        H, tree, root = S.H, S.tree, S.root
        return conj(root != None, WF(H, root), desc(H, root, tree))

    def on_chain(H0, L0, n, lo, hi):
        """n is the ancestor of L0 at a depth strictly between lo and hi"""
        return z3.And(tobool(WF(H0, VRef(n))), lo < H0.depth(VRef(n)).t, H0.depth(VRef(n)).t < hi,
                      H0.anc(L0, H0.depth(VRef(n))).t == n)

    def pruned_shape(H, H0, L0, top):
        """the child lists after pruning up to `top` (an ancestor of the leaf L0, or L0 itself when nothing was removed
        yet): the unary nodes strictly between lost their only child, `top` lost the child the leaf hangs below, every
        other list is as before"""
        n, k = z3.Int(fresh_name("sn")), z3.Int(fresh_name("sk"))
        dl, dt = H0.depth(L0).t, H0.depth(top).t
        below = H0.anc(L0, VInt(dt + 1))                    # the child of `top` on the way to the leaf
        p = H0.pos(below).t
        unchanged = lambda m: z3.And(H.nchild_t(m) == H0.nchild_t(m),
                                     z3.Select(H.f["child"], m) == z3.Select(H0.f["child"], m))
        return z3.And(
            z3.Implies(top.t == L0.t, z3.ForAll([n], unchanged(n))),
            z3.Implies(top.t != L0.t, z3.And(
                H.nchild_t(top.t) == H0.nchild_t(top.t) - 1,
                qforall([k], z3.Implies(z3.And(0 <= k, k < H.nchild_t(top.t)),
                                        H.child_t(top.t, k) == z3.If(k < p, H0.child_t(top.t, k),
                                                                     H0.child_t(top.t, k + 1))),
                        [H.child_t(top.t, k)]),
                qforall([n], z3.Implies(on_chain(H0, L0, n, dt, dl),
                                        z3.And(H.nchild_t(n) == 0, H0.nchild_t(n) == 1)), [H.nchild_t(n)]),
                qforall([n], z3.Implies(z3.And(z3.Not(on_chain(H0, L0, n, dt, dl)), n != top.t), unchanged(n)),
                        [H.nchild_t(n)]))))

    def prune_inv(S):
        H, H0 = S.H, S.old
        L0, leaf, parent = S.entry("leaf"), S.final("leaf"), S.parent
        return conj(leaf != None, WF(H0, leaf), desc(H0, leaf, L0),
                    VBool(parent.t == H0.parent_t(leaf.t)),
                    VBool(z3.Implies(leaf.t != L0.t, H0.depth(leaf).t < H0.depth(L0).t)),
                    VBool(pruned_shape(H, H0, L0, leaf)))

    def in_T0(H0, root, n):
        T = H0.terms(root)
        i = T_idx(H0, root, VRef(n)).t
        return z3.And(0 <= i, i < T.n, T.get(i).t == n)

    def renum(H, H0, root, num0, upto):
        """tokens T0[0:upto] with a number above num0 moved down by one; every other number is as before"""
        n = z3.Int(fresh_name("rn"))
        idx = lambda m: T_idx(H0, root, VRef(m)).t
        v0 = lambda m: z3.Select(H0.f["val_num"], m)
        return z3.And(
            qforall([n], z3.Select(H.f["val_num"], n) ==
                    z3.If(z3.And(in_T0(H0, root, n), idx(n) < upto, v0(n) > num0), v0(n) - 1, v0(n)),
                    [z3.Select(H.f["val_num"], n)]),
            qforall([n], z3.Select(H.f["has_num"], n) == z3.Select(H0.f["has_num"], n),
                    [z3.Select(H.f["has_num"], n)]))

    def renum_inv(S):
        H, H0 = S.H, S.old
        root = root0(H0, S.tree)
        return VBool(renum(H, H0, root, z3.Select(H0.f["val_num"], S.entry("leaf").t), toint(S.it)))

    def dt_post_result(S, tree, leaf, result):
        """the lowest ancestor of the leaf that keeps a child, else the root (the leaf itself if it is the root)"""
        H0 = S.old
        n = z3.Int(fresh_name("pn"))
        dl, dr = H0.depth(leaf).t, H0.depth(result).t
        return conj(result != None, WF(H0, result), desc(H0, result, leaf),
                    VBool(z3.Implies(H0.parent_t(leaf.t) == 0, result.t == leaf.t)),
                    VBool(z3.Implies(H0.parent_t(leaf.t) != 0, z3.And(
                        dr < dl,
                        # everything strictly between was a unary chain ...
                        qforall([n], z3.Implies(on_chain(H0, leaf, n, dr, dl), H0.nchild_t(n) == 1),
                                [H0.nchild_t(n)]),
                        # ... and the result is the first node with another child, or the root
                        z3.Or(H0.parent_t(result.t) == 0, H0.nchild_t(result.t) >= 2)))))

    def dt_post_shape(S, tree, leaf, result):
        return VBool(pruned_shape(S.H, S.old, leaf, result))

    def dt_post_numbers(S, tree, leaf, result):
        H, H0 = S.H, S.old
        root = root0(H0, tree)
        return VBool(renum(H, H0, root, z3.Select(H0.f["val_num"], leaf.t), H0.terms(root).n))

    _SPEC["renum"] = renum
    _SPEC["requires"] = dt_requires
    reg.add(Contract(
        target="trees.trees.delete_terminal", prop="C11", args=dict(tree=REF, leaf=REF),
        requires=dt_requires, modifies=["nchild", "child", "has_num", "val_num"],
        ensures={"returns_lowest_surviving_ancestor": dt_post_result,
                 "leaf_and_emptied_unary_ancestors_are_unlinked_nothing_else": dt_post_shape,
                 "later_tokens_move_down_by_one_others_keep_their_number": dt_post_numbers},
        result_type=REF,
        loops={0: dict(inv=climb_inv, variant=lambda S: S.H.depth(S.root)),
               1: dict(inv=prune_inv, variant=lambda S: S.old.depth(S.final("leaf"))),
               2: dict(inv=renum_inv)},
        solver_hints={"inv1.keep": {"cli_s": 30}, "post.": {"cli_s": 30}},
    ))


def lemma_renumbered_without_holes(reg, repo):
    """over the contract of delete_terminal: if the tokens of the tree were numbered 1..n, the surviving tokens are
    numbered 1..n-1 in the same order (token i keeps i+1 before the deleted one, gets i after it)"""
    from pyvc.heap import Heap
    from contracts.common import terms_facts
    H0, H1 = Heap.fresh("N"), Heap.fresh("M")
    tree, leaf = VRef(z3.Int("n_tree")), VRef(z3.Int("n_leaf"))

    class S(object):
        pass
    S.H = H0
    S.old = H0
    root = H0.anc(tree, VInt(0))
    T = H0.terms(root)
    i, k = z3.Int("n_i"), z3.Int("n_k")
    j = z3.Int(fresh_name("nj"))
    v0 = lambda m: z3.Select(H0.f["val_num"], m)
    v1 = lambda m: z3.Select(H1.f["val_num"], m)
    hyp = [tobool(_SPEC["requires"](S, tree, leaf)), tobool(terms_facts(H0, root)),
           _SPEC["renum"](H1, H0, root, v0(leaf.t), T.n),
           # numbered 1..n, and the leaf is the k-th token
           z3.ForAll([j], z3.Implies(z3.And(0 <= j, j < T.n), v0(T.get(j).t) == j + 1)),
           0 <= k, k < T.n, T.get(k).t == leaf.t, 0 <= i, i < T.n, i != k]
    return [("surviving_tokens_are_numbered_1_to_n_minus_1", hyp,
             v1(T.get(i).t) == z3.If(i < k, i + 1, i))]


LEMMAS = {"renumbered_without_holes": lemma_renumbered_without_holes}


# ----------------------------------------------------------------------------------------------------------------------
# transform.insert_terminals: one step (the body of `for terminal_num in sorted(...)`) as a block contract.
# Extraction: the two occurrences of the table lookup `insert_terminals.terminals[tree.data['sid']][terminal_num]`
# (a function attribute filled from the parameter file) are replaced by one opaque pair (word, tag) -- nothing else
# is dropped.  An index outside 1..n+1 (0, negative, too large) leaves the tree untouched; an index inside inserts one
# fresh token with that number under the root, moves the tokens numbered >= index up by one, changes nothing else.
# ----------------------------------------------------------------------------------------------------------------------
def lemma_insert_step(reg, repo):
    import ast
    from pyvc.core import Exec, State
    from pyvc.heap import Heap
    from pyvc.sym import VTuple, Unsupported
    from contracts.common import terms_facts
    add_common(reg)
    qual = "trees.transform.insert_terminals"
    info = repo.fns.get(qual)
    if info is None:
        raise Unsupported("function %s no longer exists" % qual)
    loop = None
    for node in ast.walk(info.node):
        if isinstance(node, ast.For) and ast.unparse(node.target) == "terminal_num":
            loop = node
    if loop is None:
        raise Unsupported("the insertion loop of insert_terminals was not found (the contract no longer binds)")
    LOOKUP = "insert_terminals.terminals[tree.data['sid']][terminal_num]"
    count = [0]

    class Sub(ast.NodeTransformer):
        def visit_Subscript(self, n):
            if ast.unparse(n) == LOOKUP:
                count[0] += 1
                return ast.copy_location(ast.Name(id="_table_entry", ctx=ast.Load()), n)
            return self.generic_visit(n)
    import copy
    body = [ast.fix_missing_locations(Sub().visit(copy.deepcopy(s))) for s in loop.body]
    if count[0] != 2:
        raise Unsupported("expected two table lookups in the insertion step, found %d" % count[0])
    inner = [n for s in body for n in ast.walk(s) if isinstance(n, ast.For)]
    if len(inner) != 1:
        raise Unsupported("expected one renumbering loop in the insertion step, found %d" % len(inner))
    c = Contract(target=qual, prop="C11", args={}, params={"quiet": BOOL}, loops={})
    ex = Exec(repo, reg, info, c, prefix="C11.insert_step")
    # the deep copy has new node identities: number the copied loop like the original one
    orig_inner = [n for s in loop.body for n in ast.walk(s) if isinstance(n, ast.For)][0]
    ex.loop_ords[id(inner[0])] = ex.loop_ords[id(orig_inner)]
    H0 = Heap.fresh("I")
    st = State(heap=H0)
    for t in H0.typing():
        st.assume(t)
    tree = VRef(z3.Int(fresh_name("i_tree")))
    tnum = VInt(z3.Int(fresh_name("i_terminal_num")))
    word, tag = VStr(z3.String(fresh_name("i_word"))), VStr(z3.String(fresh_name("i_tag")))
    st.env.update(dict(tree=tree, terminal_num=tnum, _table_entry=VTuple([word, tag])))
    st.env["params"] = ex._fresh_params(st, "ip")
    E = H0.copy()
    ex.entry_heap = E
    T0 = E.terms(tree)
    j = z3.Int(fresh_name("ij"))
    x = z3.Int(fresh_name("ix"))
    st.assume(tree.t != 0)
    st.assume(tobool(WF(E, tree)))
    st.assume(E.parent_t(tree.t) == 0)
    st.assume(tobool(wf_theory(E)))
    st.assume(tobool(terms_facts(E, tree)))
    # every node of the tree is allocated (so a new node is none of them)
    st.assume(qforall([x], z3.Implies(tobool(WF(E, VRef(x))), z3.Select(E.f["alive"], x)), [tobool(WF(E, VRef(x)))]))
    v0 = lambda m: z3.Select(E.f["val_num"], m)
    in_T0 = lambda m: z3.And(0 <= T_idx(E, tree, VRef(m)).t, T_idx(E, tree, VRef(m)).t < T0.n,
                             T0.get(T_idx(E, tree, VRef(m)).t).t == m)

    def shifted(H, node, upto):
        """tokens T0[0:upto] numbered >= terminal_num moved up by one; the new node carries terminal_num; every other
        number is as before"""
        n = z3.Int(fresh_name("sn"))
        return qforall([n], z3.Select(H.f["val_num"], n) == z3.If(
            n == node.t, tnum.t,
            z3.If(z3.And(in_T0(n), T_idx(E, tree, VRef(n)).t < upto, v0(n) >= tnum.t), v0(n) + 1, v0(n))),
            [z3.Select(H.f["val_num"], n)])

    def has_num_frame(H, node):
        n = z3.Int(fresh_name("hn"))
        return qforall([n], z3.Select(H.f["has_num"], n) == z3.If(n == node.t, True, z3.Select(E.f["has_num"], n)),
                       [z3.Select(H.f["has_num"], n)])

    def inner_inv(S):
        return VBool(z3.And(shifted(S.H, S.node, toint(S.it)), has_num_frame(S.H, S.node)))

    # Locality of the token list (assumed, listed in TRUSTED): nodes that are not part of a tree do not influence its
    # token list.  The second call of trees.terminals(tree) happens after the new, still unlinked node has been filled
    # in; at both call sites the obligation is that the heap differs from the entry heap only at nodes that were not
    # allocated then, and the result is the token list of the entry heap.
    def untouched_on_allocated(H):
        m = z3.Int(fresh_name("um"))
        return qforall([m], z3.Implies(z3.Select(E.f["alive"], m), z3.And(
            H.parent_t(m) == E.parent_t(m), H.nchild_t(m) == E.nchild_t(m),
            z3.Select(H.f["child"], m) == z3.Select(E.f["child"], m),
            z3.Select(H.f["has_num"], m) == z3.Select(E.f["has_num"], m),
            z3.Select(H.f["val_num"], m) == z3.Select(E.f["val_num"], m))), [z3.Select(E.f["alive"], m)])

    from pyvc.sym import TList
    reg.add(Contract(
        target="trees.trees.terminals", prop="C19", args=dict(tree=REF),
        requires=lambda S, t: conj(VBool(t.t == tree.t), VBool(untouched_on_allocated(S.H))),
        returns=lambda S, t: E.terms(tree),
        ensures={"T_facts": lambda S, t, result: terms_facts(E, tree)},
        result_type=TList(REF), assumed=True,
        note="terminals(tree) == T(tree) of the heap at the start of the step, given that only nodes not allocated then "
             "have been written since (locality of the token list: unlinked nodes do not influence it)"))
    ex.c.loops = {ex.loop_ords[id(inner[0])]: dict(inv=inner_inv)}
    ex.obligations = []
    outs = ex._with_raises(st, ex.exec_block(body, st))
    vcs = []
    n0 = T0.n
    in_range = z3.And(1 <= tnum.t, tnum.t <= n0 + 1)
    for oi, o in enumerate(outs):
        H = o.st.heap
        if o.kind == "continue":
            same = z3.And(*[H.f[k] == E.f[k] for k in sorted(E.f)])
            vcs.append(("path%d.index_outside_1_to_n_plus_1_is_ignored" % oi, list(o.st.pc),
                        z3.And(z3.Not(in_range), same)))
            continue
        if o.kind != "normal":
            raise Unsupported("the insertion step leaves the loop body by %s" % o.kind)
        node = o.st.env["node"]
        k = z3.Int(fresh_name("ck"))
        m = z3.Int(fresh_name("cm"))
        strs = lambda key, r: z3.Select(H.f["val_" + key], r)
        goals = {
            "only_indices_1_to_n_plus_1_insert": in_range,
            "new_token_is_fresh_and_carries_the_table_entry": z3.And(
                node.t != 0, z3.Not(z3.Select(E.f["alive"], node.t)), H.nchild_t(node.t) == 0,
                z3.Select(H.f["has_num"], node.t), z3.Select(H.f["val_num"], node.t) == tnum.t,
                z3.Not(z3.Select(H.f["none_word"], node.t)), strs("word", node.t) == word.t,
                z3.Not(z3.Select(H.f["none_label"], node.t)), strs("label", node.t) == tag.t),
            "appended_to_the_root": z3.And(
                H.parent_t(node.t) == tree.t, H.nchild_t(tree.t) == E.nchild_t(tree.t) + 1,
                H.child_t(tree.t, E.nchild_t(tree.t)) == node.t,
                z3.ForAll([k], z3.Implies(z3.And(0 <= k, k < E.nchild_t(tree.t)),
                                          H.child_t(tree.t, k) == E.child_t(tree.t, k)))),
            "tokens_from_the_index_on_move_up_by_one_others_keep_their_number": z3.And(
                shifted(H, node, n0), has_num_frame(H, node)),
            "nothing_else_changes": z3.And(
                z3.ForAll([m], z3.Implies(m != node.t, H.parent_t(m) == E.parent_t(m))),
                z3.ForAll([m], z3.Implies(z3.And(m != node.t, m != tree.t), z3.And(
                    H.nchild_t(m) == E.nchild_t(m), z3.Select(H.f["child"], m) == z3.Select(E.f["child"], m)))),
                *[z3.ForAll([m], z3.Implies(m != node.t, z3.Select(H.f[f], m) == z3.Select(E.f[f], m)))
                  for f in sorted(E.f) if f.startswith(("val_", "has_", "none_")) and f not in ("val_num", "has_num")]),
        }
        for gname, g in goals.items():
            vcs.append(("path%d.%s" % (oi, gname), list(o.st.pc), g))
    for ob in ex.obligations:
        vcs.append(("step.%s" % ob.name.split(".", 2)[-1], list(ob.pc), ob.goal))
    return vcs


lemma_insert_step.target = "trees.transform.insert_terminals"
LEMMAS["insert_step"] = lemma_insert_step


def lemma_insert_numbers_without_holes(reg, repo):
    """over the step contract: if the tokens were numbered 1..n, afterwards they and the new token are numbered 1..n+1
    (token i keeps i+1 before the insertion point and gets i+2 from it on; the new token fills the hole)"""
    from pyvc.heap import Heap
    E = Heap.fresh("J")
    tree = VRef(z3.Int("j_tree"))
    tnum, i = z3.Ints("j_tnum j_i")
    T0 = E.terms(tree)
    newnum = z3.Function("j_num_after", z3.IntSort(), z3.IntSort())
    j = z3.Int(fresh_name("jj"))
    v0 = lambda m: z3.Select(E.f["val_num"], m)
    hyp = [z3.ForAll([j], z3.Implies(z3.And(0 <= j, j < T0.n), v0(T0.get(j).t) == j + 1)),
           # postcondition of the step for the old tokens (all of T0 processed)
           z3.ForAll([j], z3.Implies(z3.And(0 <= j, j < T0.n),
                                     newnum(T0.get(j).t) == z3.If(v0(T0.get(j).t) >= tnum, v0(T0.get(j).t) + 1,
                                                                  v0(T0.get(j).t)))),
           1 <= tnum, tnum <= T0.n + 1, 0 <= i, i < T0.n]
    return [("old_tokens_are_numbered_around_the_hole", hyp,
             z3.And(newnum(T0.get(i).t) == z3.If(i + 1 < tnum, i + 1, i + 2), newnum(T0.get(i).t) != tnum,
                    1 <= newnum(T0.get(i).t), newnum(T0.get(i).t) <= T0.n + 1))]


LEMMAS["insert_numbers_without_holes"] = lemma_insert_numbers_without_holes


# ----------------------------------------------------------------------------------------------------------------------
# transform.substitute_terminals: one step (the body of `for terminal_num in sorted(...)`), same extraction as above:
# the table lookup is an opaque pair (word, tag-or-None).  An index outside 1..n is ignored (also under `quiet`); an
# index inside replaces the word of exactly that token, and its tag when the file gives one; nothing else changes.
# ----------------------------------------------------------------------------------------------------------------------
def lemma_substitute_step(reg, repo):
    import ast
    import copy
    from pyvc.core import Exec, State
    from pyvc.heap import Heap
    from pyvc.sym import VTuple, VOpt, Unsupported
    from contracts.common import terms_facts
    add_common(reg)
    qual = "trees.transform.substitute_terminals"
    info = repo.fns.get(qual)
    if info is None:
        raise Unsupported("function %s no longer exists" % qual)
    loop = None
    for node in ast.walk(info.node):
        if isinstance(node, ast.For) and ast.unparse(node.target) == "terminal_num":
            loop = node
    if loop is None:
        raise Unsupported("the substitution loop of substitute_terminals was not found (the contract no longer binds)")
    LOOKUP = "substitute_terminals.terminals[tree.data['sid']][terminal_num]"
    count = [0]

    class Sub(ast.NodeTransformer):
        def visit_Subscript(self, n):
            if ast.unparse(n) == LOOKUP:
                count[0] += 1
                return ast.copy_location(ast.Name(id="_table_entry", ctx=ast.Load()), n)
            return self.generic_visit(n)
    body = [ast.fix_missing_locations(Sub().visit(copy.deepcopy(s))) for s in loop.body]
    if count[0] != 2:
        raise Unsupported("expected two table lookups in the substitution step, found %d" % count[0])
    c = Contract(target=qual, prop="C11", args={}, params={"quiet": BOOL}, loops={})
    ex = Exec(repo, reg, info, c, prefix="C11.substitute_step")
    E = Heap.fresh("S")
    st = State(heap=E.copy())
    for t in E.typing():
        st.assume(t)
    tree = VRef(z3.Int(fresh_name("s_tree")))
    tnum = VInt(z3.Int(fresh_name("s_terminal_num")))
    word = VStr(z3.String(fresh_name("s_word")))
    tag = VOpt(z3.Bool(fresh_name("s_tag_isnone")), VStr(z3.String(fresh_name("s_tag"))))
    T0 = E.terms(tree)
    st.env.update(dict(tree=tree, terminal_num=tnum, _table_entry=VTuple([word, tag]), terminals=T0))
    st.env["params"] = ex._fresh_params(st, "sp")
    ex.entry_heap = E
    st.assume(tree.t != 0)
    st.assume(tobool(WF(E, tree)))
    st.assume(tobool(wf_theory(E)))
    st.assume(tobool(terms_facts(E, tree)))
    ex.obligations = []
    outs = ex._with_raises(st, ex.exec_block(body, st))
    vcs = []
    in_range = z3.And(1 <= tnum.t, tnum.t <= T0.n)
    target = T0.get(tnum.t - 1).t
    for oi, o in enumerate(outs):
        H = o.st.heap
        if o.kind == "continue":
            same = z3.And(*[H.f[k] == E.f[k] for k in sorted(E.f)])
            vcs.append(("path%d.index_outside_1_to_n_is_ignored" % oi, list(o.st.pc), z3.And(z3.Not(in_range), same)))
            continue
        if o.kind != "normal":
            raise Unsupported("the substitution step leaves the loop body by %s" % o.kind)
        m = z3.Int(fresh_name("sm"))
        sel = lambda f, r, heap=H: z3.Select(heap.f[f], r)
        goals = {
            "only_indices_1_to_n_substitute": in_range,
            "word_of_exactly_that_token_replaced": z3.And(
                sel("has_word", target), z3.Not(sel("none_word", target)), sel("val_word", target) == word.t),
            "tag_replaced_iff_the_file_gives_one": z3.If(
                tag.isnone,
                z3.And(sel("val_label", target) == z3.Select(E.f["val_label"], target),
                       sel("none_label", target) == z3.Select(E.f["none_label"], target),
                       sel("has_label", target) == z3.Select(E.f["has_label"], target)),
                z3.And(sel("has_label", target), z3.Not(sel("none_label", target)), sel("val_label", target) == tag.val.t)),
            "nothing_else_changes": z3.And(*(
                [H.f[k] == E.f[k] for k in sorted(E.f)
                 if not k.endswith(("_word", "_label"))] +
                [z3.ForAll([m], z3.Implies(m != target, z3.Select(H.f[k], m) == z3.Select(E.f[k], m)))
                 for k in sorted(E.f) if k.endswith(("_word", "_label"))])),
        }
        for gname, g in goals.items():
            vcs.append(("path%d.%s" % (oi, gname), list(o.st.pc), g))
    for ob in ex.obligations:
        vcs.append(("step.%s" % ob.name.split(".", 2)[-1], list(ob.pc), ob.goal))
    return vcs


lemma_substitute_step.target = "trees.transform.substitute_terminals"
LEMMAS["substitute_step"] = lemma_substitute_step
