"""C11 -- filter_by_length under contract (complete functional spec)."""
import z3
from pyvc.core import Contract
from pyvc.sym import (VInt, VBool, VStr, VRef, VNone, INT, BOOL, STR, REF, TOpt, conj, disj, neg, ite, implies,
                      length, tobool, toint, tostr, fresh_name)
from contracts.common import add_common, WF

VERIFY = ["trees.transform.filter_by_length"]
TRUSTED = []
ASSUMPTIONS = ["filtervalue is an integer (misc.options_dict converts digit strings), filteroperator a string"]


def as_ref(v):
    if v is VNone or v is None:
        return VRef(0)
    return v


def build(reg):
    add_common(reg)

    def post(S, tree, params, result):
        """the tree is dropped (None) exactly when its number of tokens is less than / greater than / equal to
        the value, as the operator says; otherwise it is returned itself"""
        n = S.H.terms(tree).n
        op = tostr(params.fields["val"]["filteroperator"])
        v = toint(params.fields["val"]["filtervalue"])
        drop = z3.Or(z3.And(op == z3.StringVal("lt"), n < v), z3.And(op == z3.StringVal("gt"), n > v),
                     z3.And(op == z3.StringVal("eq"), n == v))
        return VBool(as_ref(result).t == z3.If(drop, 0, tree.t))

    reg.add(Contract(
        target="trees.transform.filter_by_length", prop="C11", args=dict(tree=REF),
        params=dict(filteroperator=STR, filtervalue=INT),
        requires=lambda S, tree, params: conj(WF(S.H, tree), tree != None,
                                              VBool(params.fields["has"]["filteroperator"]),
                                              VBool(params.fields["has"]["filtervalue"])),
        ensures={"drops_exactly_the_trees_the_operator_names": post},
        result_type=REF))
