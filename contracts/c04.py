"""C04 -- the mover step (detach/attach idiom) as a block contract at every site that re-attaches nodes."""
from contracts.mover import lemma_mover, SITES
from contracts.common import add_common

VERIFY = ["trees.transform.add_topnode"]
TRUSTED = ["mover steps are located by AST pattern (remove / append / parent-assign about the same node, three "
           "consecutive statements); expressions such as split[-1] are abstracted to an arbitrary node"]
ASSUMPTIONS = ["block precondition: links consistent before the step, the moved node has a parent, the list it is removed "
               "from is its parent's, and the target is a node (established by each caller's context; not proved here)",
               "acyclicity after the move (the target is not below the moved node) is not part of the block contract; "
               "it is judged by the bounded stand-in (tg.wf_errors)"]


def build(reg):
    add_common(reg)
    import z3
    from pyvc.core import Contract
    from pyvc.sym import VRef, VBool, REF, conj, tobool, fresh_name
    from contracts.common import WF
    from contracts.mover import links_consistent

    def requires(S, tree, params):
        H = S.H
        x = z3.Int(fresh_name("ax"))
        return conj(tree != None, VBool(H.parent_t(tree.t) == 0), VBool(H.has(tree, "sid").t),
                    VBool(z3.Select(H.f["alive"], tree.t)),
                    # every node that is linked to anything is allocated (so a fresh node is new to the tree)
                    VBool(z3.ForAll([x], z3.Implies(z3.Or(H.parent_t(x) != 0, H.nchild_t(x) > 0),
                                                    z3.Select(H.f["alive"], x)))),
                    VBool(links_consistent(H, "a")))

    def post(S, tree, params, result):
        """a new node labelled TOP above the old root: the old root is its only child; nothing else changes"""
        H0, H1 = S.old, S.H
        x, k = z3.Int(fresh_name("px")), z3.Int(fresh_name("pk"))
        top = result.t
        lab = H1.data(result, "label")
        return VBool(z3.And(
            top != 0, top != tree.t, z3.Not(z3.Select(H0.f["alive"], top)),
            H1.parent_t(top) == 0, H1.nchild_t(top) == 1, H1.child_t(top, 0) == tree.t, H1.parent_t(tree.t) == top,
            z3.Not(lab.isnone), lab.val.t == z3.StringVal("TOP"),
            H1.data(result, "sid").t == H0.data(tree, "sid").t,
            z3.ForAll([x], z3.Implies(z3.And(x != top, x != tree.t), H1.parent_t(x) == H0.parent_t(x))),
            z3.ForAll([x], z3.Implies(x != top, z3.And(H1.nchild_t(x) == H0.nchild_t(x),
                                                       z3.Select(H1.f["child"], x) == z3.Select(H0.f["child"], x),
                                                       z3.Select(H1.f["val_label"], x) == z3.Select(H0.f["val_label"], x),
                                                       z3.Select(H1.f["val_word"], x) == z3.Select(H0.f["val_word"], x),
                                                       z3.Select(H1.f["val_num"], x) == z3.Select(H0.f["val_num"], x))))))

    reg.add(Contract(
        target="trees.transform.add_topnode", prop="C04", args=dict(tree=REF), params={},
        requires=requires,
        modifies=["alive", "parent", "nchild", "child"] + [f for f in Heap_fields() if f.startswith(("has_", "val_", "none_"))],
        ensures={"one_new_TOP_node_above_the_root": post}, result_type=REF))


def Heap_fields():
    from pyvc.heap import Heap
    return sorted(Heap.fresh("tmp").f)


LEMMAS = {"mover." + q.split(".")[-1]: lemma_mover(q) for q in SITES}


# ----------------------------------------------------------------------------------------------------------------------
# the caller-level side condition of the mover step (the target must not lie at or below the moved node) for the sites
# where it is a one-line consequence of the theory of well-formed trees
# ----------------------------------------------------------------------------------------------------------------------
def lemma_no_cycle(reg, repo):
    """raising moves a child X of a block node to that node's parent T (T = parent(parent(X))): a proper ancestor is
    never at or below its descendant.  The three punctuation movers move a token X to a node T that has children
    (the parent of another token, a constituent, or the root): a token dominates only itself and T is not X.
    (root_attach: lemma target_not_below_child under C12; boyd_split moves X below a freshly allocated node.)"""
    import z3
    from pyvc.heap import Heap
    from pyvc.sym import VRef, VInt, tobool
    from contracts.common import WF, wf_theory, desc
    H = Heap.fresh("L")
    x, t = VRef(z3.Int("cx")), VRef(z3.Int("ct"))
    an = lambda y, q: H.anc(y, VInt(q)).t
    base = [tobool(wf_theory(H)), tobool(WF(H, x)), tobool(WF(H, t)), x.t != 0, t.t != 0] + H.typing()
    p = H.parent_t(x.t)
    dx, dt = H.depth(x).t, H.depth(t).t
    return [
        ("raising.grandparent_is_not_below", base + [p != 0, H.parent_t(p) == t.t], z3.Not(tobool(desc(H, x, t)))),
        # a proper descendant of X would hang below one of X's children: X has none
        ("token.depth_step", base + [H.nchild_t(x.t) == 0, dx < dt, an(t, dx) == x.t],
         H.parent_t(an(t, dx + 1)) == x.t),
        ("token.dominates_only_itself", base + [H.nchild_t(x.t) == 0, H.nchild_t(t.t) > 0,
                                               z3.Implies(z3.And(dx < dt, an(t, dx) == x.t),
                                                          H.parent_t(an(t, dx + 1)) == x.t)],
         z3.Not(tobool(desc(H, x, t)))),
    ]


LEMMAS["no_cycle"] = lemma_no_cycle


# ----------------------------------------------------------------------------------------------------------------------
# "the returned node is the root": the in-place transformations hand back the very object they were given.  Decided on
# the AST of each function (like the frame obligations of C18): every `return` returns the name `tree`, `tree` is never
# assigned, deleted or used as a loop target, there is no yield, and the function cannot fall off its end.  (That the
# object is still the root afterwards - its parent stays None - is the business of the mover-step contracts: no step moves
# the node it was given as the tree.)
# ----------------------------------------------------------------------------------------------------------------------
RETURNS_ARGUMENT = ["root_attach", "boyd_split", "raising", "substitute_terminals", "insert_terminals",
                    "punctuation_delete", "punctuation_verylow", "punctuation_symetrify", "punctuation_root",
                    "ptb_delete_traces", "negra_mark_heads", "mark_heads_by_rules", "binarize", "collapse_unary_chains"]


def lemma_returns_argument(reg, repo):
    import ast
    import z3
    from pyvc.sym import Unsupported
    vcs = []
    for name in RETURNS_ARGUMENT:
        info = repo.fns.get("trees.transform." + name)
        if info is None:
            raise Unsupported("function trees.transform.%s no longer exists" % name)
        f = info.node
        if not f.args.args or f.args.args[0].arg != "tree":
            raise Unsupported("trees.transform.%s no longer takes the tree as its first parameter `tree`" % name)
        own = [n for n in ast.walk(f) if not isinstance(n, (ast.FunctionDef, ast.Lambda)) or n is f]
        rebound = [n for n in ast.walk(f) if isinstance(n, ast.Name) and n.id == "tree"
                   and isinstance(n.ctx, (ast.Store, ast.Del))]
        rets = [n for n in ast.walk(f) if isinstance(n, ast.Return)]
        bad_rets = [n for n in rets if not (isinstance(n.value, ast.Name) and n.value.id == "tree")]
        yields = [n for n in ast.walk(f) if isinstance(n, (ast.Yield, ast.YieldFrom))]
        nested = [n for n in ast.walk(f) if isinstance(n, (ast.FunctionDef, ast.Lambda)) and n is not f
                  and any(isinstance(m, ast.Return) for m in ast.walk(n))]
        ends_in_return = isinstance(f.body[-1], ast.Return)
        ok = not rebound and not bad_rets and not yields and not nested and ends_in_return and bool(rets)
        if not ok:
            # not a violation: the syntactic argument no longer applies (e.g. `result = tree; return result` is fine);
            # the obligation is then undecided and the bounded stand-in decides
            raise Unsupported("trees.transform.%s: it is no longer syntactically evident that the function returns its "
                              "argument `tree` (rebinding, another return expression, a yield or a missing final return)"
                              % name)
        vcs.append(("%s.returns_the_object_it_was_given" % name, [], z3.BoolVal(True)))
    return vcs


lemma_returns_argument.target = "trees.transform.punctuation_delete"
LEMMAS["returns_argument"] = lemma_returns_argument
