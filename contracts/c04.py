"""C04 -- the mover step (detach/attach idiom) as a block contract at every site that re-attaches nodes."""
from contracts.mover import lemma_mover, SITES
from contracts.common import add_common

VERIFY = []
TRUSTED = ["mover steps are located by AST pattern (remove / append / parent-assign about the same node, three "
           "consecutive statements); expressions such as split[-1] are abstracted to an arbitrary node"]
ASSUMPTIONS = ["block precondition: links consistent before the step, the moved node has a parent, the list it is removed "
               "from is its parent's, and the target is a node (established by each caller's context; not proved here)",
               "acyclicity after the move (the target is not below the moved node) is not part of the block contract; "
               "it is judged by the bounded stand-in (tg.wf_errors)"]


def build(reg):
    add_common(reg)


LEMMAS = {"mover." + q.split(".")[-1]: lemma_mover(q) for q in SITES}
