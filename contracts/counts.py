"""The counting idiom of grammar extraction and binarization

    if not A in R: R[A] = {}
    if not B in R[A]: R[A][B] = {}
    [if not C in R[A][B]: R[A][B][C] = 0]
    R[A][B][C] = R[A][B].get(C, 0) + n          (or  R[A][B][C] += 1)

located by pattern in the real AST and verified as a block contract on an arbitrary nested dict: afterwards the entry
(A, B, C) exists and holds its previous count (0 if it did not exist) plus n, and *no other entry changes* -- so
"a rule observed several times contributes the sum of its occurrences, never only the last one seen"."""
import ast
import copy
import z3
from pyvc.core import Contract, Exec, State
from pyvc.heap import Heap
from pyvc.sym import VMap, VKey, VInt, KeyS, fresh_name, Unsupported, _sel, key_term


def _is_init_if(stmt):
    """(dict expression, key expression) for `if not K in D: D[K] = {}` / `= 0`"""
    if not (isinstance(stmt, ast.If) and not stmt.orelse and len(stmt.body) == 1):
        return None
    t = stmt.test
    if isinstance(t, ast.UnaryOp) and isinstance(t.op, ast.Not) and isinstance(t.operand, ast.Compare) and \
            len(t.operand.ops) == 1 and isinstance(t.operand.ops[0], ast.In):
        key, dct = t.operand.left, t.operand.comparators[0]
    elif isinstance(t, ast.Compare) and len(t.ops) == 1 and isinstance(t.ops[0], ast.NotIn):
        key, dct = t.left, t.comparators[0]
    else:
        return None
    b = stmt.body[0]
    if isinstance(b, ast.Assign) and len(b.targets) == 1 and isinstance(b.targets[0], ast.Subscript) and \
            ast.dump(b.targets[0].value) == ast.dump(dct) and ast.dump(b.targets[0].slice) == ast.dump(key):
        return dct, key
    return None


def _root_name(e):
    while isinstance(e, ast.Subscript):
        e = e.value
    return e.id if isinstance(e, ast.Name) else None


def _depth(e):
    d = 0
    while isinstance(e, ast.Subscript):
        e = e.value
        d += 1
    return d


def find_count_blocks(fnode, depth=3):
    """windows: one or more init-ifs on the same root dict followed directly by a store / += at depth `depth`"""
    blocks = []
    for node in ast.walk(fnode):
        for attr in ("body", "orelse"):
            body = getattr(node, attr, None)
            if not isinstance(body, list):
                continue
            i = 0
            while i < len(body):
                if _is_init_if(body[i]):
                    root = _root_name(_is_init_if(body[i])[0])
                    j = i
                    while j < len(body) and _is_init_if(body[j]) and _root_name(_is_init_if(body[j])[0]) == root:
                        j += 1
                    if j < len(body):
                        s = body[j]
                        tgt = None
                        if isinstance(s, ast.Assign) and len(s.targets) == 1:
                            tgt = s.targets[0]
                        elif isinstance(s, ast.AugAssign):
                            tgt = s.target
                        if tgt is not None and isinstance(tgt, ast.Subscript) and _root_name(tgt) == root \
                                and _depth(tgt) == depth:
                            blocks.append((root, body[i:j + 1]))
                            i = j + 1
                            continue
                    i = max(j, i + 1)
                else:
                    i += 1
    return blocks


class _KeyAbstract(ast.NodeTransformer):
    """every subscript index / membership operand that is not a plain name or attribute constant becomes a name"""
    def __init__(self):
        self.names = {}

    def key(self, e):
        if isinstance(e, (ast.Name, ast.Attribute, ast.Constant)):
            return e
        k = ast.dump(e)
        if k not in self.names:
            self.names[k] = "__k%d" % len(self.names)
        return ast.Name(id=self.names[k], ctx=ast.Load())


def lemma_counts(qual, expected, root_depth=3):
    def run(reg, repo):
        info = repo.fns.get(qual)
        if info is None:
            raise Unsupported("function %s no longer exists" % qual)
        blocks = find_count_blocks(info.node, root_depth)
        if len(blocks) != expected:
            raise Unsupported("expected %d counting blocks in %s, found %d (the contract no longer binds)" % (
                expected, qual, len(blocks)))
        vcs = []
        for bi, (root, stmts) in enumerate(blocks):
            c = Contract(target=qual, prop="C08", args={})
            ex = Exec(repo, reg, info, c, prefix="counts.%s#%d" % (info.qual, bi))
            st = State(heap=Heap.fresh("K"))
            ex.entry_heap = st.heap.copy()
            m0 = VMap.fresh(root_depth, root)
            st.env[root] = m0
            # the other names of the block: keys, except the operand(s) of the final addition, which are counts
            final = stmts[-1]
            count_names = set()
            if isinstance(final, ast.Assign):
                if isinstance(final.value, ast.Name):
                    count_names.add(final.value.id)          # a plain store of a count (judged: must be an addition)
                for n in ast.walk(final.value):
                    if isinstance(n, ast.BinOp) and isinstance(n.op, ast.Add):
                        for side in (n.left, n.right):
                            if isinstance(side, ast.Name):
                                count_names.add(side.id)
            names = {n.id for s in stmts for n in ast.walk(s) if isinstance(n, ast.Name)} - {root}
            amount = None
            for nm in sorted(names):
                if nm in repo.aliases[info.module] or nm in ("True", "False", "None"):
                    continue
                if nm in count_names:
                    st.env[nm] = VInt(z3.Int(fresh_name("n_" + nm)))
                    amount = st.env[nm].t
                else:
                    st.env[nm] = VKey(z3.Const(fresh_name("k_" + nm), KeyS))
            if amount is None:
                amount = z3.IntVal(1)                        # `+= 1`
            ex.obligations = []
            outs = ex._with_raises(st, ex.exec_block(stmts, st))
            # key path of the final store
            tgt = final.targets[0] if isinstance(final, ast.Assign) else final.target
            path = []
            e = tgt
            while isinstance(e, ast.Subscript):
                path.append(e.slice)
                e = e.value
            path.reverse()
            for o in outs:
                if o.kind != "normal":
                    raise Unsupported("counting block has an exceptional exit")
                m1 = o.st.env[root]
                a, b, cc = [key_term(ex.ev(p, o.st)) for p in path]
                x, y, z = [z3.Const(fresh_name("q"), KeyS) for _ in range(3)]

                def entry(m, k1, k2, k3):
                    return z3.And(_sel(m.pres[0], [k1]), _sel(m.pres[1], [k1, k2]), _sel(m.pres[2], [k1, k2, k3]))
                old = z3.If(entry(m0, a, b, cc), _sel(m0.val, [a, b, cc]), 0)
                goals = {
                    "entry_exists": entry(m1, a, b, cc),
                    "count_is_previous_plus_amount": _sel(m1.val, [a, b, cc]) == old + amount,
                    "no_other_entry_changes": z3.ForAll([x, y, z], z3.Implies(
                        z3.Not(z3.And(x == a, y == b, z == cc)),
                        z3.And(entry(m1, x, y, z) == entry(m0, x, y, z),
                               z3.Implies(entry(m0, x, y, z), _sel(m1.val, [x, y, z]) == _sel(m0.val, [x, y, z]))))),
                }
                for g, t in goals.items():
                    vcs.append(("block%d.%s" % (bi, g), list(o.st.pc), t))
            for ob in ex.obligations:
                vcs.append(("block%d.%s" % (bi, ob.name.split(".")[-1]), list(ob.pc), ob.goal))
        return vcs
    run.target = qual
    return run
