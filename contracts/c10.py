"""C10 -- transitions.topdown: the emitted sequence is the reversed preorder of node actions (shape contract).
That replaying the sequence rebuilds the tree is decided by the bounded stand-in (three replay automata)."""
import z3
from pyvc.core import Contract
from pyvc.sym import (VInt, VBool, VStr, VRef, VRec, VList, VTuple, INT, BOOL, STR, REF, TList, TTuple, TRec, conj,
                      tobool, toint, tostr, fresh_name, qforall)
from contracts.common import add_common, WF, wf_theory, preorder_facts

VERIFY = ["trees.transitions.topdown"]
SHARDS = {"trees.transitions.topdown": 4}
TRUSTED = ["contracts of trees.preorder / trees.children / trees.terminals used at call sites; the three functions are verified under C19 (preorder against the recursive definition of P, the other two against characterisations)"]
ASSUMPTIONS = ["Transition objects are modelled as records with the field name"]

S_ = z3.StringVal


def action(H, x):
    """SHIFT for a token, UNARY-label for a unary node, BINARY-side-label for a binary node (side = LEFT when the
    left child is the head)"""
    C = H.ochildren(x)
    lab = H.data(x, "label")
    labs = z3.If(lab.isnone, S_("None"), lab.val.t)
    side = z3.If(H.data(C.get(0), "head").t, S_("LEFT"), S_("RIGHT"))
    return z3.If(C.n == 0, S_("SHIFT"),
                 z3.If(C.n == 1, z3.Concat(S_("UNARY-"), labs),
                       z3.Concat(S_("BINARY-"), side, S_("-"), labs)))


def build(reg):
    add_common(reg)

    def requires(S, tree):
        H = S.H
        x = z3.Int(fresh_name("rx"))
        return conj(WF(H, tree), tree != None, wf_theory(H),
                    VBool(z3.ForAll([x], z3.Implies(tobool(WF(H, VRef(x))), z3.And(
                        H.has(VRef(x), "label").t, H.has(VRef(x), "word").t)))))

    def not_binarized(S, tree):
        H = S.H
        P = H.pre(tree)
        j = z3.Int(fresh_name("nb"))
        bad = lambda q: z3.Or(H.nchild_t(P.get(q).t) > 2,
                              z3.And(H.nchild_t(P.get(q).t) == 2,
                                     z3.Not(H.has(H.ochildren(P.get(q)).get(0), "head").t)))
        return VBool(z3.Exists([j], z3.And(0 <= j, j < P.n, bad(j))))

    def inv(S):
        H, tree, it, tr = S.H, S.tree, toint(S.it), S.transitions
        P = H.pre(tree)
        j = z3.Int(fresh_name("ij"))
        ok = lambda q: z3.And(H.nchild_t(P.get(q).t) <= 2,
                              z3.Implies(H.nchild_t(P.get(q).t) == 2, H.has(H.ochildren(P.get(q)).get(0), "head").t))
        return conj(VBool(tr.n == it),
                    VBool(z3.ForAll([j], z3.Implies(z3.And(0 <= j, j < it),
                                                    z3.And(ok(j), tostr(tr.get(j).fields["name"]) == action(H, P.get(j)))))))

    def post(S, tree, result):
        H = S.H
        P = H.pre(tree)
        T = H.terms(tree)
        sent, seq = result.items
        j = z3.Int(fresh_name("pj"))
        return VBool(z3.And(
            seq.n == P.n,
            z3.ForAll([j], z3.Implies(z3.And(0 <= j, j < P.n),
                                      tostr(seq.get(j).fields["name"]) == action(H, P.get(P.n - 1 - j)))),
            sent.n == T.n))

    TRANS = TRec(_cls="trees.transitions.Transition", name=STR)
    reg.add(Contract(
        target="trees.transitions.topdown", prop="C10", args=dict(tree=REF),
        requires=requires,
        raises={"ValueError": not_binarized},
        ensures={"reversed_preorder_of_node_actions": post},
        result_type=TTuple(TList(TTuple(STR, STR)), TList(TRANS)),
        loops={0: dict(inv=inv, types={"transitions": TList(TRANS)})},
    ))
