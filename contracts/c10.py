"""C10 -- transitions.topdown: the emitted sequence is the reversed preorder of node actions (shape contract).
That replaying the sequence rebuilds the tree is decided by the bounded stand-in (three replay automata)."""
import z3
from pyvc.core import Contract
from pyvc.sym import (VInt, VBool, VStr, VRef, VRec, VList, VTuple, INT, BOOL, STR, REF, TList, TTuple, TRec, conj,
                      tobool, toint, tostr, fresh_name, qforall)
from contracts.common import add_common, WF, wf_theory, preorder_facts

VERIFY = ["trees.transitions.topdown", "trees.transitions._inorder", "trees.transitions.inorder"]
SHARDS = {"trees.transitions.topdown": 4}
TRUSTED = ["contracts of trees.preorder / trees.children / trees.terminals used at call sites; the three functions are verified under C19 (preorder against the recursive definition of P, the other two against characterisations)"]
ASSUMPTIONS = ["Transition objects are modelled as records with the field name",
               "io_def: the in-order sequence IO is defined by recursion over the ordered children (segment lengths, prefix "
               "sums; monotonicity stated); validated on enumerated trees by bounded/c10.py clause io_definition"]

S_ = z3.StringVal


def action(H, x):
    """SHIFT for a token, UNARY-label for a unary node, BINARY-side-label for a binary node (side = LEFT when the
    left child is the head)"""
    C = H.ochildren(x)
    lab = H.data(x, "label")
    labs = z3.If(lab.isnone, S_("None"), lab.val.t)
    side = z3.If(H.data(C.get(0), "head").t, S_("LEFT"), S_("RIGHT"))
    return z3.If(C.n == 0, S_("SHIFT"),
                 z3.If(C.n == 1, z3.Concat(S_("UNARY-"), labs),
                       z3.Concat(S_("BINARY-"), side, S_("-"), labs)))


def build(reg):
    add_common(reg)
    add_inorder(reg)

    def requires(S, tree):
        H = S.H
        x = z3.Int(fresh_name("rx"))
        return conj(WF(H, tree), tree != None, wf_theory(H),
                    VBool(z3.ForAll([x], z3.Implies(tobool(WF(H, VRef(x))), z3.And(
                        H.has(VRef(x), "label").t, H.has(VRef(x), "word").t)))))

    def not_binarized(S, tree):
        H = S.H
        P = H.pre(tree)
        j = z3.Int(fresh_name("nb"))
        bad = lambda q: z3.Or(H.nchild_t(P.get(q).t) > 2,
                              z3.And(H.nchild_t(P.get(q).t) == 2,
                                     z3.Not(H.has(H.ochildren(P.get(q)).get(0), "head").t)))
        return VBool(z3.Exists([j], z3.And(0 <= j, j < P.n, bad(j))))

    def inv(S):
        H, tree, it, tr = S.H, S.tree, toint(S.it), S.transitions
        P = H.pre(tree)
        j = z3.Int(fresh_name("ij"))
        ok = lambda q: z3.And(H.nchild_t(P.get(q).t) <= 2,
                              z3.Implies(H.nchild_t(P.get(q).t) == 2, H.has(H.ochildren(P.get(q)).get(0), "head").t))
        return conj(VBool(tr.n == it),
                    VBool(z3.ForAll([j], z3.Implies(z3.And(0 <= j, j < it),
                                                    z3.And(ok(j), tostr(tr.get(j).fields["name"]) == action(H, P.get(j)))))))

    def post(S, tree, result):
        H = S.H
        P = H.pre(tree)
        T = H.terms(tree)
        sent, seq = result.items
        j = z3.Int(fresh_name("pj"))
        return VBool(z3.And(
            seq.n == P.n,
            z3.ForAll([j], z3.Implies(z3.And(0 <= j, j < P.n),
                                      tostr(seq.get(j).fields["name"]) == action(H, P.get(P.n - 1 - j)))),
            sent.n == T.n))

    TRANS = TRec(_cls="trees.transitions.Transition", name=STR)
    reg.add(Contract(
        target="trees.transitions.topdown", prop="C10", args=dict(tree=REF),
        requires=requires,
        raises={"ValueError": not_binarized},
        ensures={"reversed_preorder_of_node_actions": post},
        result_type=TTuple(TList(TTuple(STR, STR)), TList(TRANS)),
        loops={0: dict(inv=inv, types={"transitions": TList(TRANS)})},
    ))


# ----------------------------------------------------------------------------------------------------------------------
# in-order system: _inorder(x) == IO(x), the sequence defined by recursion over the ordered children c_0 .. c_{m-1} of x
#     IO(x) = seg(c_0) ++ ["PJ-" + label(x)] ++ seg(c_1) ++ ... ++ seg(c_{m-1}) ++ ["REDUCE"]
#     seg(c) = ["SHIFT"] for a token, IO(c) for a constituent
# ----------------------------------------------------------------------------------------------------------------------
def _io_fns(H):
    args = H._shape_args() + [H.f["none_label"], H.f["val_label"]]
    sorts = [a.sort() for a in args]
    I, Sx = z3.IntSort(), z3.StringSort()
    flen = z3.Function("IO_len", *(sorts + [I, I]))
    fel = z3.Function("IO_el", *(sorts + [I, I, Sx]))
    fss = z3.Function("IO_ss", *(sorts + [I, I, I]))
    return (lambda x: flen(*(args + [x])), lambda x, i: fel(*(args + [x, i])), lambda x, k: fss(*(args + [x, k])))


def io_def(H):
    """definition of IO (length, elements) through the segment lengths SL and their prefix sums SS (a definition by
    well-founded recursion over the tree; the last clause, monotone prefix sums, follows by induction and is stated
    because the solver does no induction).  Validated on enumerated trees by bounded/c10.py (clause io_definition)."""
    iolen, ioel, ss = _io_fns(H)
    x, k, j, m = (z3.Int("io_" + c) for c in "xkjm")
    wf = lambda r: tobool(WF(H, VRef(r)))
    cel = lambda r, i: H.ochildren(VRef(r)).get(i).t
    nch = H.nchild_t
    sl = lambda c: z3.If(nch(c) == 0, 1, iolen(c))
    lab = lambda r: z3.If(z3.Select(H.f["none_label"], r), S_("None"), z3.Select(H.f["val_label"], r))
    return VBool(z3.And(
        qforall([x], z3.Implies(z3.And(wf(x), nch(x) > 0), z3.And(
            ss(x, 0) == 0, iolen(x) == ss(x, nch(x)) + 2, iolen(x) >= 3,
            ioel(x, ss(x, 1)) == z3.Concat(S_("PJ-"), lab(x)),
            ioel(x, iolen(x) - 1) == S_("REDUCE"))), [[wf(x), iolen(x)]]),
        qforall([x, k], z3.Implies(z3.And(wf(x), 0 <= k, k < nch(x)), z3.And(
            ss(x, k) >= 0, ss(x, k + 1) == ss(x, k) + sl(cel(x, k)), sl(cel(x, k)) >= 1)), [[wf(x), cel(x, k)]]),
        # the segment of child k starts at SS(x, k), shifted by one behind the PJ for k >= 1
        qforall([x, k], z3.Implies(z3.And(wf(x), 0 <= k, k < nch(x), nch(cel(x, k)) == 0),
                                   ioel(x, ss(x, k) + z3.If(k >= 1, 1, 0)) == S_("SHIFT")), [[wf(x), cel(x, k)]]),
        qforall([x, k, j], z3.Implies(z3.And(wf(x), 0 <= k, k < nch(x), nch(cel(x, k)) > 0, 0 <= j, j < iolen(cel(x, k))),
                                      ioel(x, ss(x, k) + z3.If(k >= 1, 1, 0) + j) == ioel(cel(x, k), j)),
                [[wf(x), ioel(cel(x, k), j)]]),
        qforall([x, k, m], z3.Implies(z3.And(wf(x), 0 <= k, k <= m, m <= nch(x)), ss(x, k) <= ss(x, m)),
                [[wf(x), ss(x, k), ss(x, m)]]),
    ))


def add_inorder(reg):
    from contracts.common import wf_theory_tokens
    from pyvc.sym import VInt
    TRANS = TRec(_cls="trees.transitions.Transition", name=STR)

    def requires(S, tree):
        H = S.H
        x = z3.Int(fresh_name("rx"))
        return conj(WF(H, tree), tree != None, wf_theory(H), wf_theory_tokens(H), io_def(H),
                    VBool(H.nchild_t(tree.t) > 0),
                    VBool(z3.ForAll([x], z3.Implies(tobool(WF(H, VRef(x))), H.has(VRef(x), "label").t))))

    def is_prefix(H, tree, tr, upto):
        iolen, ioel, ss = _io_fns(H)
        a = z3.Int(fresh_name("ia"))
        return qforall([a], z3.Implies(z3.And(0 <= a, a < upto),
                                       tostr(tr.get(a).fields["name"]) == ioel(tree.t, a)),
                       [tostr(tr.get(a).fields["name"])])

    def inv(S):
        H, tree, tr, it = S.H, S.tree, S.transitions, toint(S.it)
        iolen, ioel, ss = _io_fns(H)
        return conj(VBool(tr.n == 1 + ss(tree.t, it + 1)), VBool(is_prefix(H, tree, tr, tr.n)))

    def post(S, tree, result):
        H = S.H
        iolen, ioel, ss = _io_fns(H)
        return VBool(z3.And(result.n == iolen(tree.t), is_prefix(H, tree, result, result.n)))

    reg.add(Contract(
        target="trees.transitions._inorder", prop="C10", args=dict(tree=REF),
        requires=requires,
        ensures={"the_recursively_defined_in_order_sequence": post},
        result_type=TList(TRANS),
        decreases=lambda S, tree: S.H.hgt(tree),
        loops={0: dict(inv=inv, types={"transitions": TList(TRANS)})},
        solver_hints={"inv0.keep": {"cli_s": 30}, "post.": {"cli_s": 30}, "inv0.init": {"cli_s": 30}},
    ))

    def post_outer(S, tree, result):
        H = S.H
        iolen, ioel, ss = _io_fns(H)
        sent, seq = result.items
        return VBool(z3.And(seq.n == iolen(tree.t), is_prefix(H, tree, seq, seq.n), sent.n == H.terms(tree).n))

    def requires_outer(S, tree):
        H = S.H
        x = z3.Int(fresh_name("rx"))
        return conj(requires(S, tree),
                    VBool(z3.ForAll([x], z3.Implies(tobool(WF(H, VRef(x))), H.has(VRef(x), "word").t))))

    reg.add(Contract(
        target="trees.transitions.inorder", prop="C10", args=dict(tree=REF),
        requires=requires_outer,
        ensures={"sentence_and_in_order_sequence": post_outer},
        result_type=TTuple(TList(TTuple(STR, STR)), TList(TRANS)),
    ))
