"""Shared sidecar contracts and spec functions (bound to the real functions of
/repo by qualified name; /repo is not edited)."""
import z3
from pyvc.core import Contract
from pyvc.sym import (VInt, VBool, VRef, VList, VStr, INT, BOOL, STR, REF, TList, TTuple, TOpt, forall, implies,
                      conj, disj, neg, ite, length, fresh_name, tobool, toint, IntS, IntArr)

# ----------------------------------------------------------------------------
# spec functions
# ----------------------------------------------------------------------------

_CB = {}


def cbreaks_fn(H):
    """cbreaks(shape, x, k) = #{ i < k : num(T(x)[i]) + 1 < num(T(x)[i+1]) } -- for the strictly
    increasing token sequence T(x) this is (number of maximal contiguous runs of the first k+1
    tokens) - 1, the set-based gap degree.  Recursive definition over the heap arrays (no lambdas)."""
    args = H._shape_args()
    sorts = tuple(a.sort() for a in args)
    key = tuple(str(s) for s in sorts)
    if key not in _CB:
        f = z3.RecFunction("cbreaks", *(list(sorts) + [IntS, IntS, IntS]))
        ps = [z3.Const("cb_p%d" % i, s) for i, s in enumerate(sorts)]
        x = z3.Int("cb_x")
        k = z3.Int("cb_k")
        fel = z3.Function("T_el", *(list(sorts) + [IntS, IntS, IntS]))
        num = ps[4]
        a = lambda i: z3.Select(num, fel(*(ps + [x, i])))
        z3.RecAddDefinition(f, ps + [x, k],
                            z3.If(k <= 0, 0, f(*(ps + [x, k - 1])) + z3.If(a(k - 1) + 1 < a(k), 1, 0)))
        _CB[key] = f
    return _CB[key]


def cbreaks(H, x, k):
    return VInt(cbreaks_fn(H)(*(H._shape_args() + [x.t, toint(k)])))


def cbreaks_mono(H, x):
    """background lemma (proved by induction in LEMMAS['cbreaks_mono']):
    0 <= j <= k  ->  0 <= cbreaks(x, j) <= cbreaks(x, k)"""
    j, k = z3.Int(fresh_name("mj")), z3.Int(fresh_name("mk"))
    cb = lambda i: cbreaks(H, x, VInt(i)).t
    return VBool(z3.ForAll([j, k], z3.Implies(z3.And(0 <= j, j <= k),
                                             z3.And(0 <= cb(j), cb(j) <= cb(k))),
                           patterns=[z3.MultiPattern(cb(j), cb(k))]))


def lemma_cbreaks_mono(reg, repo):
    """induction on k for an arbitrary heap, node and j"""
    from pyvc.heap import Heap
    H = Heap.fresh("L")
    x = VRef(z3.Int("lx"))
    j, k = z3.Ints("lj lk")
    cb = lambda i: cbreaks(H, x, VInt(i)).t
    return [
        ("nonneg.base", [], cb(z3.IntVal(0)) == 0),
        ("nonneg.step", [k >= 0, cb(k) >= 0], cb(k + 1) >= 0),
        ("base", [0 <= j], cb(j) <= cb(j)),
        ("step", [0 <= j, j <= k, cb(j) <= cb(k)], cb(j) <= cb(k + 1)),
    ]


def cbreaks_break(H, x):
    """background lemma (LEMMAS['cbreaks_break']): a break at position i < k makes cbreaks(x, k) >= 1"""
    i, k = z3.Int(fresh_name("bi")), z3.Int(fresh_name("bk"))
    T = H.terms(x)
    nm = lambda q: H.num(T.get(q)).t
    cb = lambda q: cbreaks(H, x, VInt(q)).t
    return VBool(z3.ForAll([i, k], z3.Implies(z3.And(0 <= i, i < k, nm(i) + 1 < nm(i + 1)), cb(k) >= 1),
                           patterns=[z3.MultiPattern(T.get(i).t, cb(k))]))


def lemma_cbreaks_break(reg, repo):
    from pyvc.heap import Heap
    H = Heap.fresh("L")
    x = VRef(z3.Int("lx"))
    i, k = z3.Ints("li lk")
    T = H.terms(x)
    nm = lambda q: H.num(T.get(q)).t
    cb = lambda q: cbreaks(H, x, VInt(q)).t
    brk = nm(i) + 1 < nm(i + 1)
    return [
        ("base", [0 <= i, brk, cb(i) >= 0], cb(i + 1) >= 1),
        ("step", [0 <= i, i < k, cb(k) >= 1], cb(k + 1) >= 1),
    ]


def gapdeg(H, x):
    """set-based gap degree of node x (0 for tokens)"""
    T = H.terms(x)
    return VInt(z3.If(H.nchild_t(x.t) == 0, 0, cbreaks(H, x, VInt(T.n - 1)).t))


def WF(H, x):
    """x is a node of a well-formed tree (uninterpreted; characterised by the facts below)"""
    args = H._shape_args()
    f = z3.Function("WF", *([a.sort() for a in args] + [IntS, z3.BoolSort()]))
    return VBool(f(*(args + [x.t])))


def T_idx(H, x, leaf):
    """position of `leaf` in T(x)"""
    args = H._shape_args()
    f = z3.Function("T_idx", *([a.sort() for a in args] + [IntS, IntS, IntS]))
    return VInt(f(*(args + [x.t, leaf.t])))


def terms_facts(H, x):
    """what the definition of T(x) gives for a well-formed node x (assumed with
    the contract of trees.terminals; re-checked on enumerated trees by
    bounded/c19.py)"""
    T = H.terms(x)
    n = T.n
    i, j, y = z3.Int(fresh_name("ti")), z3.Int(fresh_name("tj")), z3.Int(fresh_name("ty"))
    el = lambda k: T.get(k).t
    return VBool(z3.And(
        n >= 1,
        z3.ForAll([i], z3.Implies(z3.And(0 <= i, i < n),
                                  z3.And(el(i) != 0, H.nchild_t(el(i)) == 0,
                                         z3.Select(H.f["has_num"], el(i)),
                                         tobool(WF(H, VRef(el(i)))), tobool(desc(H, x, VRef(el(i)))),
                                         T_idx(H, x, VRef(el(i))).t == i))),
        z3.ForAll([i], z3.Implies(z3.And(0 <= i, i + 1 < n),
                                  H.num(VRef(el(i))).t < H.num(VRef(el(i + 1))).t)),
        z3.Implies(H.nchild_t(x.t) == 0, z3.And(n == 1, el(0) == x.t)),
        # globally increasing, and complete: every token below x occurs (both verified for trees.terminals under C19;
        # the triggers keep these two clauses silent unless a proof mentions the terms)
        z3.ForAll([i, j], z3.Implies(z3.And(0 <= i, i < j, j < n), H.num(VRef(el(i))).t < H.num(VRef(el(j))).t),
                  patterns=[z3.MultiPattern(H.num(VRef(el(i))).t, H.num(VRef(el(j))).t)]),
        z3.ForAll([y], z3.Implies(z3.And(tobool(WF(H, VRef(y))), H.nchild_t(y) == 0, tobool(desc(H, x, VRef(y)))),
                                  z3.And(0 <= T_idx(H, x, VRef(y)).t, T_idx(H, x, VRef(y)).t < n,
                                         el(T_idx(H, x, VRef(y)).t) == y)),
                  patterns=[T_idx(H, x, VRef(y)).t]),
    ))


def children_facts(H, x):
    C = H.ochildren(x)
    i = z3.Int(fresh_name("ci"))
    el = lambda k: C.get(k).t
    return VBool(z3.And(
        C.n == H.nchild_t(x.t),
        z3.ForAll([i], z3.Implies(z3.And(0 <= i, i < C.n),
                                  z3.And(el(i) != 0, tobool(WF(H, VRef(el(i)))),
                                         H.parent_t(el(i)) == x.t))),
    ))


def C_idx(H, x):
    """position of x in C(parent(x))"""
    args = H._shape_args()
    f = z3.Function("C_idx", *([a.sort() for a in args] + [IntS, IntS]))
    return VInt(f(*(args + [x.t])))


def wf_theory(H):
    """What 'x is a node of a well-formed tree' (WF) means, with the ghost functions of DESIGN 3.3:
    depth (distance to the root), anc(x, d) (ancestor of x at depth d), pos (index in the stored child list),
    C / C_idx (children ordered by least token).  Every real well-formed tree admits such functions
    (validated on enumerated trees by bounded/c19.py, clause ghost_axioms); assumed as part of the precondition
    'the tree is well formed'."""
    x, k, d = z3.Int(fresh_name("wx")), z3.Int(fresh_name("wk")), z3.Int(fresh_name("wd"))
    wf = lambda r: tobool(WF(H, VRef(r)))
    par = H.parent_t
    dep = lambda r: H.depth(VRef(r)).t
    anc = lambda r, dd: H.anc(VRef(r), VInt(dd)).t
    pos = lambda r: H.pos(VRef(r)).t
    cel = lambda r, i: H.ochildren(VRef(r)).get(i).t
    clen = lambda r: H.ochildren(VRef(r)).n
    cidx = lambda r: C_idx(H, VRef(r)).t
    from pyvc.sym import qforall
    return VBool(z3.And(
        # (1) local facts; mentions neither parent(x) nor children, so it does not feed itself
        qforall([x], z3.Implies(wf(x), z3.And(
            x != 0, dep(x) >= 0, anc(x, dep(x)) == x, clen(x) == H.nchild_t(x))), [wf(x)]),
        # (2) upwards, only where the term parent[x] occurs
        qforall([x], z3.Implies(wf(x), z3.And(
            (par(x) == 0) == (dep(x) == 0),
            z3.Implies(par(x) != 0, z3.And(
                wf(par(x)), dep(x) == dep(par(x)) + 1,
                0 <= pos(x), pos(x) < H.nchild_t(par(x)), H.child_t(par(x), pos(x)) == x,
                0 <= cidx(x), cidx(x) < clen(par(x)), cel(par(x), cidx(x)) == x)))), [[wf(x), par(x)]]),
        # (3) downwards through the stored child list
        qforall([x, k], z3.Implies(z3.And(wf(x), 0 <= k, k < H.nchild_t(x)), z3.And(
            wf(H.child_t(x, k)), par(H.child_t(x, k)) == x, pos(H.child_t(x, k)) == k)),
            [[wf(x), H.child_t(x, k)]]),
        # (4) downwards through the ordered child list C
        qforall([x, k], z3.Implies(z3.And(wf(x), 0 <= k, k < clen(x)), z3.And(
            wf(cel(x, k)), par(cel(x, k)) == x, cidx(cel(x, k)) == k, cel(x, k) != 0)), [[wf(x), cel(x, k)]]),
        # (5) ancestors
        qforall([x, d], z3.Implies(z3.And(wf(x), 0 <= d, d <= dep(x)), z3.And(
            wf(anc(x, d)), dep(anc(x, d)) == d)), [[wf(x), anc(x, d)]]),
        qforall([x, d, k], z3.Implies(z3.And(wf(x), 0 < d, d <= dep(x), k == d - 1),
                                      anc(x, k) == par(anc(x, d))), [[wf(x), anc(x, d), anc(x, k)]]),
    ))


def wf_theory_tokens(H):
    """second part of the meaning of 'well formed' (used where tokens are enumerated or counted):
    a rank decreasing towards the children; tokens (childless nodes) carry a number; distinct tokens of one tree
    carry distinct numbers; NL / SNL count the tokens below a node / below its first k stored children"""
    from pyvc.sym import qforall
    x, y, k, t = z3.Int(fresh_name("tx")), z3.Int(fresh_name("ty")), z3.Int(fresh_name("tk")), z3.Int(fresh_name("tt"))
    wf = lambda r: tobool(WF(H, VRef(r)))
    hg = lambda r: H.hgt(VRef(r)).t
    nl = lambda r: H.nleaves(VRef(r)).t
    snl = lambda r, q: H.snl(VRef(r), q).t
    anc0 = lambda r: H.anc(VRef(r), VInt(0)).t
    return VBool(z3.And(
        qforall([x], z3.Implies(wf(x), z3.And(
            hg(x) >= 0, nl(x) >= 1,
            z3.Implies(H.nchild_t(x) == 0, z3.And(z3.Select(H.f["has_num"], x), nl(x) == 1)),
            z3.Implies(H.nchild_t(x) > 0, nl(x) == snl(x, H.nchild_t(x))),
            snl(x, 0) == 0)), [wf(x)]),
        qforall([x, k], z3.Implies(z3.And(wf(x), 0 <= k, k < H.nchild_t(x)), z3.And(
            hg(H.child_t(x, k)) < hg(x), snl(x, k) >= 0,
            snl(x, k + 1) == snl(x, k) + nl(H.child_t(x, k)))), [[wf(x), H.child_t(x, k)]]),
        # the least tokens of two different children of one node carry different numbers
        qforall([x, k, t], z3.Implies(z3.And(wf(x), 0 <= k, k < t, t < H.nchild_t(x)),
                                      H.num(H.terms(VRef(H.child_t(x, k))).get(0)).t !=
                                      H.num(H.terms(VRef(H.child_t(x, t))).get(0)).t),
                [[wf(x), H.child_t(x, k), H.child_t(x, t)]]),
        # distinct tokens below a common node carry distinct numbers
        qforall([t, x, y], z3.Implies(z3.And(wf(t), wf(x), wf(y), H.nchild_t(x) == 0, H.nchild_t(y) == 0, x != y,
                                             tobool(desc(H, VRef(t), VRef(x))), tobool(desc(H, VRef(t), VRef(y)))),
                                      z3.Select(H.f["val_num"], x) != z3.Select(H.f["val_num"], y)),
                [[wf(t), H.anc(VRef(x), H.depth(VRef(t))).t, H.anc(VRef(y), H.depth(VRef(t))).t]]),
    ))


def desc(H, n, x):
    """n dominates x (reflexive): depth n <= depth x and anc(x, depth n) == n"""
    return VBool(z3.And(H.depth(n).t <= H.depth(x).t, H.anc(x, H.depth(n)).t == n.t))


def preorder_facts(H, x, post=False):
    """what `preorder(x)` (`postorder(x)` with post=True) yields, as facts about the spec list P(x) (Q(x)): x first
    (last); every element is a well-formed node dominated by x; every node dominated by x occurs (at position
    P_idx / Q_idx); no node occurs twice"""
    from pyvc.sym import qforall
    P = H.post(x) if post else H.pre(x)
    i, y = z3.Int(fresh_name("pi")), z3.Int(fresh_name("py"))
    el = lambda k: P.get(k).t
    idx = lambda r: (H.post_idx(x, VRef(r)) if post else H.pre_idx(x, VRef(r))).t
    return VBool(z3.And(
        P.n >= 1, el(P.n - 1 if post else 0) == x.t,
        qforall([i], z3.Implies(z3.And(0 <= i, i < P.n),
                                z3.And(el(i) != 0, tobool(WF(H, VRef(el(i)))), tobool(desc(H, x, VRef(el(i)))),
                                       idx(el(i)) == i)), [el(i)]),
        qforall([y], z3.Implies(z3.And(tobool(WF(H, VRef(y))), tobool(desc(H, x, VRef(y)))),
                                z3.And(0 <= idx(y), idx(y) < P.n, el(idx(y)) == y)), [idx(y)]),
    ))


def pre_def(H, post=False):
    """Definition of the spec list P (and of its inverse P_idx) by recursion over the ordered child lists:

        P(x) = [x] ++ P(C(x)[0]) ++ ... ++ P(C(x)[m-1])          (Q(x) = Q(C(x)[0]) ++ ... ++ [x] with post=True)

    through the node counts NN(x) = 1 + sum NN(C(x)[k]) and their prefix sums SNNC(x, k).  A definition by
    well-founded recursion (conservative); the last clause (prefix sums are monotone) follows from the others by
    induction and is stated because the solver does no induction.  Validated on enumerated trees by bounded/c19.py
    (ghost_axioms)."""
    from pyvc.sym import qforall
    x, y, k, j, m = (z3.Int(fresh_name("d" + c)) for c in "xykjm")
    wf = lambda r: tobool(WF(H, VRef(r)))
    nn = lambda r: H.nn(VRef(r)).t
    sn = lambda r, q: H.snnc(VRef(r), q).t
    cel = lambda r, i: H.ochildren(VRef(r)).get(i).t
    L = (lambda r: H.post(VRef(r))) if post else (lambda r: H.pre(VRef(r)))
    pel = lambda r, i: L(r).get(i).t
    plen = lambda r: L(r).n
    pidx = (lambda r, q: H.post_idx(VRef(r), VRef(q)).t) if post else (lambda r, q: H.pre_idx(VRef(r), VRef(q)).t)
    off = 0 if post else 1                    # where the first child's block starts
    own = (lambda r: nn(r) - 1) if post else (lambda r: z3.IntVal(0))
    return VBool(z3.And(
        qforall([x], z3.Implies(wf(x), z3.And(
            nn(x) >= 1, sn(x, 0) == 0, nn(x) == 1 + sn(x, H.nchild_t(x)), plen(x) == nn(x),
            pel(x, own(x)) == x, pidx(x, x) == own(x))), [wf(x)]),
        qforall([x, k], z3.Implies(z3.And(wf(x), 0 <= k, k < H.nchild_t(x)), z3.And(
            sn(x, k) >= 0, sn(x, k + 1) == sn(x, k) + nn(cel(x, k)))), [[wf(x), cel(x, k)]]),
        qforall([x, k, j], z3.Implies(z3.And(wf(x), 0 <= k, k < H.nchild_t(x), 0 <= j, j < nn(cel(x, k))),
                                      pel(x, off + sn(x, k) + j) == pel(cel(x, k), j)), [[wf(x), pel(cel(x, k), j)]]),
        qforall([x, k, y], z3.Implies(z3.And(wf(x), 0 <= k, k < H.nchild_t(x), wf(y),
                                             tobool(desc(H, VRef(cel(x, k)), VRef(y)))),
                                      pidx(x, y) == off + sn(x, k) + pidx(cel(x, k), y)), [[wf(x), pidx(cel(x, k), y)]]),
        qforall([x, k, m], z3.Implies(z3.And(wf(x), 0 <= k, k <= m, m <= H.nchild_t(x)), sn(x, k) <= sn(x, m)),
                [[wf(x), sn(x, k), sn(x, m)]]),
    ))


def list_eq(a, b):
    j = z3.Int(fresh_name("le"))
    return VBool(z3.And(a.n == b.n, z3.ForAll([j], z3.Implies(z3.And(0 <= j, j < a.n),
                                                             a.get(j).t == b.get(j).t))))


# ----------------------------------------------------------------------------
# contracts of the navigation helpers everything else calls
# ----------------------------------------------------------------------------

def add_common(reg):
    reg.add(Contract(
        target="trees.trees.has_children", prop="C19", args=dict(tree=REF), inline=True))
    reg.add(Contract(target="trees.trees.make_node_data", prop="C19", args={}, inline=True))
    reg.add(Contract(target="trees.trees.make_node_data_fill", prop="C19", args={}, inline=True))
    reg.add(Contract(
        target="trees.trees.terminals", prop="C19", args=dict(tree=REF),
        requires=lambda S, tree: WF(S.H, tree) & (tree != None),
        returns=lambda S, tree: S.H.terms(tree),
        ensures={"T_facts": lambda S, tree, result: terms_facts(S.H, tree)},
        result_type=TList(REF), assumed=True,
        note="terminals(t) == T(t).  The function itself is VERIFIED under C19 against the characterisation F "
             "(only tokens below t, globally strictly increasing in num, every token below t occurs, NL(t) of them); that "
             "such a list is unique - so it is T(t) - is the lemma sorted_enumeration_unique proved in lean/Background.lean "
             "and checked by Lean under C19; also re-checked on all trees n<=6 by bounded/c19.py"))
    reg.add(Contract(
        target="trees.trees.preorder", prop="C19", args=dict(tree=REF),
        requires=lambda S, tree: WF(S.H, tree) & (tree != None),
        returns=lambda S, tree: S.H.pre(tree),
        ensures={"P_facts": lambda S, tree, result: preorder_facts(S.H, tree)},
        result_type=TList(REF), assumed=True,
        note="preorder(t) == P(t): every node under t exactly once, t first.  VERIFIED under C19 against the recursive definition of P (contracts/c19.py traversal_verified_contract); re-checked by bounded/c19.py"))
    reg.add(Contract(
        target="trees.trees.children", prop="C19", args=dict(tree=REF),
        requires=lambda S, tree: WF(S.H, tree) & (tree != None),
        returns=lambda S, tree: S.H.ochildren(tree),
        ensures={"C_facts": lambda S, tree, result: children_facts(S.H, tree)},
        result_type=TList(REF), assumed=True,
        note="children(t) == C(t): t.children ordered by least token.  VERIFIED under C19 against its characterisation (permutation of the stored list in strict order of least token); re-checked by bounded/c19.py"))
