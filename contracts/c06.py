"""C06 -- extraction records exactly one occurrence per node: the counting block of extract as a block contract
(the rule that is counted -- labels, linearization, vertical context -- is decided by the bounded stand-in)."""
from contracts.counts import lemma_counts

VERIFY = []
TRUSTED = ["the counting block is located by AST pattern in the real source; dict keys are opaque values"]
ASSUMPTIONS = ["nested dicts are modelled as presence/value maps over opaque keys (pyvc/sym.py VMap)"]


def build(reg):
    pass


LEMMAS = {"counts.extract": lemma_counts("trees.grammar.extract", 1)}
