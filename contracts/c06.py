"""C06 -- extraction records exactly one occurrence per node: the counting block of extract as a block contract, and
which rule is counted (contracts/extract_blocks.py): the bare rule and the token map, the shape of the linearization
(one argument per terminal block), the vertical context.  That the linearization *instantiates* to the yield of the node
is decided by the bounded stand-in."""
from contracts.counts import lemma_counts
from contracts import extract_blocks as xb

VERIFY = []
TRUSTED = ["the blocks of extract are located by AST pattern in the real source; dict keys of the grammar are opaque values",
           "contracts of trees.children / trees.terminals / trees.dominance (verified under C19) and of "
           "trees.terminal_blocks / treeanalysis.gap_degree_node (verified under C16) at the call sites; wf_theory"]
ASSUMPTIONS = ["nested dicts are modelled as presence/value maps over opaque keys (pyvc/sym.py VMap)",
               "block preconditions: the constituent is a node of a well-formed tree with at least one child and every "
               "node carries a string label; the linearization block starts from what the label / token-map block "
               "establishes (its proved postcondition)"]


def build(reg):
    pass


LEMMAS = {"counts.extract": lemma_counts("trees.grammar.extract", 1),
          "extract.rule_labels": xb.lemma_rule_labels,
          "extract.distinct_numbers": xb.lemma_distinct_numbers,
          "extract.tokens_have_places": xb.lemma_tokens_have_places,
          "extract.lin_blocks": xb.lemma_lin_blocks,
          "extract.vertical_context": xb.lemma_vertical_context,
          "extract.lexicon": xb.lemma_lexicon}
