"""C18 -- frame obligations: no function of the package reads or writes module-level,
class-level or function-attribute state, except the three documented places."""
from pyvc import frame

VERIFY = []

# function -> prefixes of the state it may touch (from the code and its call sites)
ALLOWED = {
    "trees.trees.Tree.__init__": ["Tree.newid"],            # the unique-id generator
    "trees.trees.Tree.__eq__": ["<tree>.id"],
    "trees.trees.Tree.__hash__": ["<tree>.id", "builtin hash()"],
    "trees.transform.insert_terminals": ["insert_terminals.fn", "insert_terminals.terminals",
                                         "hasattr(insert_terminals)"],
    "trees.transform.substitute_terminals": ["substitute_terminals.fn", "substitute_terminals.terminals",
                                             "hasattr(substitute_terminals)"],
}

TRUSTED = ["frame analysis is syntactic (pyvc/frame.py): state reached through eval/exec/globals()/__dict__, "
           "closures over mutable defaults or objects stored inside trees is not seen"]
ASSUMPTIONS = ["a function without module-level, class-level or function-attribute state and without reading "
               "Tree.id/id()/hash() cannot make its result depend on earlier calls or on object identity; "
               "the terminal-file cache (allowed above) is keyed by file name and judged by the bounded part"]


def build(reg):
    pass


def STATIC(repo):
    res, _ = frame.analyse_repo(repo)
    out = []
    for q in sorted(res):
        w, r = res[q]
        allowed = ALLOWED.get(q, [])
        bad = {}
        for d, kind in ((w, "writes"), (r, "reads")):
            for key, lines in d.items():
                if not any(key == a or key.startswith(a + ".") or key.startswith(a + "[") or key.startswith(a + "(")
                           for a in allowed):
                    bad["%s %s" % (kind, key)] = ["L%d" % l for l in sorted(set(lines))]
        name = "C18.frame.%s" % q.split(".", 1)[1]
        out.append({"name": name, "ok": not bad, "function": q,
                    "detail": ("touches state outside its frame: %s" % bad) if bad else "",
                    "file": repo.fns[q].file, "sha": repo.fns[q].sha})
    # dangerous dynamic features defeat the analysis: they must not occur at all
    import ast
    for m, tree in repo.modules.items():
        for n in ast.walk(tree):
            if isinstance(n, ast.Call) and isinstance(n.func, ast.Name) and n.func.id in ("eval", "exec", "vars", "locals"):
                out.append({"name": "C18.frame.%s.no_dynamic_code" % m, "ok": False, "function": "trees." + m,
                            "detail": "%s() at line %d" % (n.func.id, n.lineno), "file": "trees/%s.py" % m, "sha": ""})
    return out
