"""C02 -- writer helpers under contract: export_tabs (exact table), get_label (decorations), export_format."""
import z3
from pyvc.core import Contract
from pyvc.sym import (VInt, VBool, VStr, VRef, VOpt, INT, BOOL, STR, REF, TOpt, conj, disj, neg, ite, implies,
                      length, tobool, toint, tostr, fresh_name, vite)
from contracts.common import add_common

VERIFY = ["trees.treeoutput.export_tabs", "trees.treeoutput.export_format"]
TRUSTED = []
ASSUMPTIONS = ["int = mathematical integer; str = SMT string"]


def tabs_spec(n):
    """documented tab stops: 3 tabs below 8 characters, 2 below 16, else 1 -- never none"""
    return z3.If(n < 8, z3.StringVal("\t\t\t"), z3.If(n < 16, z3.StringVal("\t\t"), z3.StringVal("\t")))


def ostr(H, x, key):
    """optional string field with the documented default '--' for None"""
    v = H.data(x, key)
    return z3.If(v.isnone, z3.StringVal("--"), v.val.t)


def build(reg):
    add_common(reg)
    from contracts.c20 import add_get_label, get_label_spec, get_label_requires, GET_LABEL_PARAMS
    from pyvc.core import int_to_str
    add_get_label(reg)
    EF_PARAMS = dict(GET_LABEL_PARAMS, export_four=BOOL)

    def ef_requires(S, subtree, params):
        H = S.H
        p = H.parent(subtree)
        word = H.data(subtree, "word")
        return conj(get_label_requires(S, subtree, params),
                    VBool(z3.And(H.has(subtree, "word").t, z3.Not(word.isnone),      # a node line has a word / #NNN
                                 H.has(subtree, "morph").t, H.has(subtree, "lemma").t,
                                 p.t != 0, H.has(p, "num").t)))

    def ef_post(S, subtree, params, result):
        """word TABS [lemma TABS] label TAB morph TABS edge TAB parent-number NEWLINE, absent optional fields
        written as '--' (never a failure)"""
        H0 = S.old
        word = H0.data(subtree, "word").val.t
        morph, lemma, edge = ostr(H0, subtree, "morph"), ostr(H0, subtree, "lemma"), ostr(H0, subtree, "edge")
        label = get_label_spec(H0, subtree, params)
        pnum = int_to_str(H0.data(H0.parent(subtree), "num").t)
        T = tabs_spec
        v3 = z3.Concat(word, T(z3.Length(word)), label, z3.StringVal("\t"), morph, T(z3.Length(morph) + 8), edge,
                       z3.StringVal("\t"), pnum, z3.StringVal("\n"))
        v4 = z3.Concat(word, T(z3.Length(word)), lemma, T(z3.Length(lemma)), label, z3.StringVal("\t"), morph,
                       T(z3.Length(morph) + 8), edge, z3.StringVal("\t"), pnum, z3.StringVal("\n"))
        return VBool(tostr(result) == z3.If(params.fields["has"]["export_four"], v4, v3))

    def ef_frame(S, subtree, params, result):
        """the only stores are the three defaults (None -> '--') on the node itself"""
        H0, H1 = S.old, S.H
        x = z3.Int(fresh_name("fx"))
        conds = []
        for k in ("edge", "morph", "lemma"):
            conds.append(z3.ForAll([x], z3.Implies(x != subtree.t, z3.And(
                z3.Select(H1.f["none_" + k], x) == z3.Select(H0.f["none_" + k], x),
                z3.Select(H1.f["val_" + k], x) == z3.Select(H0.f["val_" + k], x),
                z3.Select(H1.f["has_" + k], x) == z3.Select(H0.f["has_" + k], x)))))
            conds.append(ostr(H1, subtree, k) == ostr(H0, subtree, k))
        return VBool(z3.And(*conds))

    reg.add(Contract(
        target="trees.treeoutput.export_format", prop="C02", args=dict(subtree=REF), params=EF_PARAMS,
        requires=ef_requires,
        modifies=["none_edge", "val_edge", "has_edge", "none_morph", "val_morph", "has_morph",
                  "none_lemma", "val_lemma", "has_lemma"],
        ensures={"line_format_with_defaults": ef_post, "stores_only_defaults": ef_frame},
        result_type=STR))

    reg.add(Contract(
        target="trees.treeoutput.export_tabs", prop="C02", args=dict(length=INT),
        requires=lambda S, length: VBool(length.t >= 0),
        ensures={
            "exact_table": lambda S, length, result: VBool(tostr(result) == tabs_spec(length.t)),
            "separates_fields": lambda S, length, result: VBool(z3.Length(tostr(result)) >= 1),
        },
        returns=None, result_type=STR))


def replay_model(rec, repo):
    """replay a counter-model of export_tabs on the real function"""
    from pyvc.replay import call_real
    if ".export_tabs." in rec["name"] and isinstance(rec.get("input"), dict) and isinstance(rec["input"].get("length"), int):
        n = rec["input"]["length"]
        got = call_real(repo, "treeoutput", "export_tabs", [n])
        exp = "\t\t\t" if n < 8 else ("\t\t" if n < 16 else "\t")
        bad = got.get("result") != exp
        return {"replayed": bad, "observed": "export_tabs(%d) -> %r, expected %r" % (n, got, exp)}
    return None
