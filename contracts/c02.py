"""C02 -- writer helpers under contract: export_tabs (exact table), get_label (decorations), export_format."""
import z3
from pyvc.core import Contract
from pyvc.sym import (VInt, VBool, VStr, VRef, VOpt, INT, BOOL, STR, REF, TOpt, conj, disj, neg, ite, implies,
                      length, tobool, toint, tostr, fresh_name, vite)
from contracts.common import add_common

VERIFY = ["trees.treeoutput.export_tabs"]
TRUSTED = []
ASSUMPTIONS = ["int = mathematical integer; str = SMT string"]


def tabs_spec(n):
    """documented tab stops: 3 tabs below 8 characters, 2 below 16, else 1 -- never none"""
    return z3.If(n < 8, z3.StringVal("\t\t\t"), z3.If(n < 16, z3.StringVal("\t\t"), z3.StringVal("\t")))


def build(reg):
    add_common(reg)
    reg.add(Contract(
        target="trees.treeoutput.export_tabs", prop="C02", args=dict(length=INT),
        requires=lambda S, length: VBool(length.t >= 0),
        ensures={
            "exact_table": lambda S, length, result: VBool(tostr(result) == tabs_spec(length.t)),
            "separates_fields": lambda S, length, result: VBool(z3.Length(tostr(result)) >= 1),
        },
        returns=None, result_type=STR))


def replay_model(rec, repo):
    """replay a counter-model of export_tabs on the real function"""
    from pyvc.replay import call_real
    if ".export_tabs." in rec["name"] and isinstance(rec.get("input"), dict) and isinstance(rec["input"].get("length"), int):
        n = rec["input"]["length"]
        got = call_real(repo, "treeoutput", "export_tabs", [n])
        exp = "\t\t\t" if n < 8 else ("\t\t" if n < 16 else "\t")
        bad = got.get("result") != exp
        return {"replayed": bad, "observed": "export_tabs(%d) -> %r, expected %r" % (n, got, exp)}
    return None
