"""C02 -- writer helpers under contract: export_tabs (exact table), get_label (decorations), export_format."""
import z3
from pyvc.core import Contract
from pyvc.sym import (VInt, VBool, VStr, VRef, VOpt, INT, BOOL, STR, REF, TOpt, conj, disj, neg, ite, implies,
                      length, tobool, toint, tostr, fresh_name, vite)
from contracts.common import add_common

VERIFY = ["trees.treeoutput.export_tabs", "trees.treeoutput.export_format", "trees.treeoutput.brackets",
          "trees.treeoutput.terminals", "trees.treeoutput.tigerxml_end"]
TRUSTED = []
ASSUMPTIONS = ["int = mathematical integer; str = SMT string",
               "an output stream is modelled as the text written to it so far (write / print(file=) append); encoding and "
               "buffering of the real file object are outside the model",
               "write_brackets_subtree is used through the assumed contract 'appends some text to the stream and nothing "
               "else' (its output is decided by the bounded stand-in)"]


def tabs_spec(n):
    """documented tab stops: 3 tabs below 8 characters, 2 below 16, else 1 -- never none"""
    return z3.If(n < 8, z3.StringVal("\t\t\t"), z3.If(n < 16, z3.StringVal("\t\t"), z3.StringVal("\t")))


def ostr(H, x, key):
    """optional string field with the documented default '--' for None"""
    v = H.data(x, key)
    return z3.If(v.isnone, z3.StringVal("--"), v.val.t)


def build(reg):
    add_common(reg)
    from contracts.c20 import add_get_label, get_label_spec, get_label_requires, GET_LABEL_PARAMS
    from pyvc.core import int_to_str
    add_get_label(reg)
    EF_PARAMS = dict(GET_LABEL_PARAMS, export_four=BOOL)

    def ef_requires(S, subtree, params):
        H = S.H
        p = H.parent(subtree)
        word = H.data(subtree, "word")
        return conj(get_label_requires(S, subtree, params),
                    VBool(z3.And(H.has(subtree, "word").t, z3.Not(word.isnone),      # a node line has a word / #NNN
                                 H.has(subtree, "morph").t, H.has(subtree, "lemma").t,
                                 p.t != 0, H.has(p, "num").t)))

    def ef_post(S, subtree, params, result):
        """word TABS [lemma TABS] label TAB morph TABS edge TAB parent-number NEWLINE, absent optional fields
        written as '--' (never a failure)"""
        H0 = S.old
        word = H0.data(subtree, "word").val.t
        morph, lemma, edge = ostr(H0, subtree, "morph"), ostr(H0, subtree, "lemma"), ostr(H0, subtree, "edge")
        label = get_label_spec(H0, subtree, params)
        pnum = int_to_str(H0.data(H0.parent(subtree), "num").t)
        T = tabs_spec
        v3 = z3.Concat(word, T(z3.Length(word)), label, z3.StringVal("\t"), morph, T(z3.Length(morph) + 8), edge,
                       z3.StringVal("\t"), pnum, z3.StringVal("\n"))
        v4 = z3.Concat(word, T(z3.Length(word)), lemma, T(z3.Length(lemma)), label, z3.StringVal("\t"), morph,
                       T(z3.Length(morph) + 8), edge, z3.StringVal("\t"), pnum, z3.StringVal("\n"))
        return VBool(tostr(result) == z3.If(params.fields["has"]["export_four"], v4, v3))

    def ef_frame(S, subtree, params, result):
        """the only stores are the three defaults (None -> '--') on the node itself"""
        H0, H1 = S.old, S.H
        x = z3.Int(fresh_name("fx"))
        conds = []
        for k in ("edge", "morph", "lemma"):
            conds.append(z3.ForAll([x], z3.Implies(x != subtree.t, z3.And(
                z3.Select(H1.f["none_" + k], x) == z3.Select(H0.f["none_" + k], x),
                z3.Select(H1.f["val_" + k], x) == z3.Select(H0.f["val_" + k], x),
                z3.Select(H1.f["has_" + k], x) == z3.Select(H0.f["has_" + k], x)))))
            conds.append(ostr(H1, subtree, k) == ostr(H0, subtree, k))
        return VBool(z3.And(*conds))

    reg.add(Contract(
        target="trees.treeoutput.export_format", prop="C02", args=dict(subtree=REF), params=EF_PARAMS,
        requires=ef_requires,
        modifies=["none_edge", "val_edge", "has_edge", "none_morph", "val_morph", "has_morph",
                  "none_lemma", "val_lemma", "has_lemma"],
        ensures={"line_format_with_defaults": ef_post, "stores_only_defaults": ef_frame},
        result_type=STR))

    add_stream_writers(reg)

    reg.add(Contract(
        target="trees.treeoutput.export_tabs", prop="C02", args=dict(length=INT),
        requires=lambda S, length: VBool(length.t >= 0),
        ensures={
            "exact_table": lambda S, length, result: VBool(tostr(result) == tabs_spec(length.t)),
            "separates_fields": lambda S, length, result: VBool(z3.Length(tostr(result)) >= 1),
        },
        returns=None, result_type=STR))


def add_stream_writers(reg):
    """treeoutput.brackets (refusal of discontinuous trees) and treeoutput.terminals (one rendering per token)"""
    from pyvc.sym import TRec, TList, VList, qforall
    from contracts.common import WF, wf_theory, gapdeg, desc, preorder_facts
    import contracts.c16 as c16
    c16.build(reg)
    STREAM = TRec("stream", text=STR)
    text_of = lambda v: tostr(v.fields["text"])

    reg.add(Contract(
        target="trees.treeoutput.write_brackets_subtree", prop="C02", args=dict(tree=REF, stream=STREAM), params={},
        requires=lambda S, tree, stream, params: WF(S.H, tree) & (tree != None),
        appends={"stream": None}, result_type=None, assumed=True,
        note="appends some text to the stream, touches nothing else (what it appends is decided by the bounded "
             "stand-in: independent bracket decoder)"))
    reg.get("trees.treeoutput.write_brackets_subtree").result_type = __import__("pyvc.sym", fromlist=["TNone"]).TNone()

    def tree_gap_degree_positive(S, tree):
        """some node below the tree has a set-based gap degree > 0"""
        H = S.old
        P = H.pre(tree)         # every node below the tree exactly once (contract of trees.preorder, C19)
        k = z3.Int(fresh_name("bk"))
        return z3.Exists([k], z3.And(0 <= k, k < P.n, gapdeg(H, P.get(k)).t > 0))

    def br_raises(S, tree, stream, params):
        return VBool(z3.And(tree_gap_degree_positive(S, tree), z3.Not(params.fields["has"]["brackets_skipdisco"])))

    def br_post(S, tree, stream, params, result):
        """a discontinuous tree that is skipped leaves the stream untouched; a continuous tree is written as the text of
        write_brackets_subtree followed by exactly one newline"""
        new = text_of(S.final("stream"))
        old = text_of(stream)
        w = z3.String(fresh_name("bw"))
        return VBool(z3.If(tree_gap_degree_positive(S, tree), new == old,
                           z3.Exists([w], new == z3.Concat(old, w, z3.StringVal("\n")))))

    reg.add(Contract(
        target="trees.treeoutput.brackets", prop="C02", args=dict(tree=REF, stream=STREAM),
        params={"brackets_skipdisco": BOOL},
        requires=lambda S, tree, stream, params: conj(WF(S.H, tree), tree != None, wf_theory(S.H),
                                                      preorder_facts(S.H, tree)),
        raises={"ValueError": br_raises},
        ensures={"refuses_exactly_discontinuous_trees_else_one_line": br_post}, result_type=None))

    # ---- terminals writer
    def tw_raises(S, tree, stream, params):
        h = params.fields["has"]
        return VBool(z3.And(h["terminals_pos"], h["pos_only"]))

    def rendering(H, x, params):
        """what is written for token x: POS tag, word, or word + separator + POS tag; followed by newline or blank"""
        h = params.fields["has"]
        word = z3.Select(H.f["val_word"], x)
        lab = z3.Select(H.f["val_label"], x)
        one = h["terminals_one"]
        sep = z3.If(one, z3.StringVal("\t"), z3.StringVal("/"))
        body = z3.If(h["pos_only"], lab, z3.If(h["terminals_pos"], z3.Concat(word, sep, lab), word))
        return z3.Concat(body, z3.If(one, z3.StringVal("\n"), z3.StringVal(" ")))

    def tw_requires(S, tree, stream, params):
        H = S.H
        x = z3.Int(fresh_name("tx"))
        return conj(WF(H, tree), tree != None,
                    VBool(qforall([x], z3.Implies(z3.And(tobool(WF(H, VRef(x))), H.nchild_t(x) == 0), z3.And(
                        z3.Select(H.f["has_word"], x), z3.Not(z3.Select(H.f["none_word"], x)),
                        z3.Select(H.f["has_label"], x), z3.Not(z3.Select(H.f["none_label"], x)))),
                        [tobool(WF(H, VRef(x)))])))

    # ghost: W(k) = the text of the stream after the first k tokens, defined by primitive recursion over the token
    # list of the entry state (a conservative definition, introduced in the precondition)
    W = z3.Function("tw_text_after", z3.IntSort(), z3.StringSort())

    def tw_requires_full(S, tree, stream, params):
        H = S.H
        T = H.terms(tree)
        k = z3.Int(fresh_name("wk"))
        return conj(tw_requires(S, tree, stream, params),
                    VBool(W(0) == text_of(stream)),
                    VBool(qforall([k], z3.Implies(z3.And(0 <= k, k < T.n),
                                                  W(k + 1) == z3.Concat(W(k), rendering(H, T.get(k).t, params))),
                                  [W(k + 1)])))

    reg.add(Contract(
        target="trees.treeoutput.terminals", prop="C02", args=dict(tree=REF, stream=STREAM),
        params={"terminals_pos": BOOL, "pos_only": BOOL, "terminals_one": BOOL},
        requires=tw_requires_full,
        raises={"ValueError": tw_raises},
        ensures={"one_rendering_per_token_in_order_then_newline": lambda S, tree, stream, params, result: VBool(
            text_of(S.final("stream")) == z3.Concat(W(S.old.terms(tree).n), z3.StringVal("\n")))},
        loops={0: dict(inv=lambda S: VBool(text_of(S.stream) == W(toint(S.it))))},
        result_type=None))

    # ---- the suffix of a TIGER-XML file (also what ends each part of a split output, C17): body and corpus are closed, in
    # this order, with nothing but white space around them (stated up to white space: an extra newline is not a defect)
    def closes(S, stream, params, result):
        ws = z3.Star(z3.Union(z3.Re(" "), z3.Re("\n"), z3.Re("\t"), z3.Re("\r")))
        w = z3.String(fresh_name("xw"))
        return VBool(z3.Exists([w], z3.And(
            text_of(S.final("stream")) == z3.Concat(text_of(stream), w),
            z3.InRe(w, z3.Concat(ws, z3.Re("</body>"), ws, z3.Re("</corpus>"), ws)))))

    reg.add(Contract(
        target="trees.treeoutput.tigerxml_end", prop="C02", args=dict(stream=STREAM), params={},
        ensures={"closes_body_then_corpus": closes}, result_type=None))


def replay_model(rec, repo):
    """replay a counter-model of export_tabs on the real function"""
    from pyvc.replay import call_real
    if ".export_tabs." in rec["name"] and isinstance(rec.get("input"), dict) and isinstance(rec["input"].get("length"), int):
        n = rec["input"]["length"]
        got = call_real(repo, "treeoutput", "export_tabs", [n])
        exp = "\t\t\t" if n < 8 else ("\t\t" if n < 16 else "\t")
        bad = got.get("result") != exp
        return {"replayed": bad, "observed": "export_tabs(%d) -> %r, expected %r" % (n, got, exp)}
    return None
