"""C20 -- parse_label / format_label / get_label under contract (clauses from the property text)."""
import z3
from pyvc.core import Contract, IS_DIGIT
from pyvc.sym import (VInt, VBool, VStr, VRef, VOpt, VRec, INT, BOOL, STR, REF, TOpt, TRec, conj, disj, neg, ite,
                      implies, length, tobool, toint, tostr, fresh_name, vite, StrS)

VERIFY = ["trees.trees.parse_label", "trees.trees.format_label"]
SHARDS = {"trees.trees.parse_label": 16}

TRUSTED = ["str.isdigit: uninterpreted predicate with the axiom isdigit(s) -> len(s) > 0",
           "SMT strings stand for Python str (code points up to 0x2FFFF in z3, assumption A1)"]
ASSUMPTIONS = ["the gf separator is a one-character string (all separators the package uses and documents are)"]

S_ = z3.StringVal
HM = "'"


def cat(*xs):
    xs = [tostr(x) if not z3.is_expr(x) else x for x in xs]
    return z3.Concat(*xs) if len(xs) > 1 else xs[0]


def parts_glue(s, sep, r):
    """the original string is category + [sep function] + ['=' gap index] + ['-' co-index] + [head mark], where
    the category may be absent when it parsed as the default literal EMPTY and the function may be absent
    when it parsed as the default literal '--'"""
    lab, gf, gap, co, hm = [tostr(r.fields[k]) for k in ("label", "gf", "gapindex", "coindex", "headmarker")]
    gappart = z3.If(z3.Length(gap) > 0, z3.Concat(S_("="), gap), S_(""))
    copart = z3.If(z3.Length(co) > 0, z3.Concat(S_("-"), co), S_(""))
    tail = z3.Concat(gappart, copart, hm)
    with_gf = z3.Concat(sep, gf)
    opts = []
    for L in (lab, None):
        for G in (with_gf, None):
            conds = []
            body = []
            if L is None:
                conds.append(lab == S_("EMPTY"))
            else:
                body.append(L)
            if G is None:
                conds.append(gf == S_("--"))
            else:
                body.append(G)
            body.append(tail)
            opts.append(z3.And(*(conds + [s == (z3.Concat(*body) if len(body) > 1 else body[0])])))
    return z3.Or(*opts)


def build(reg):
    LABEL = TRec(label=STR, gf=STR, gf_separator=STR, coindex=STR, gapindex=STR, headmarker=STR, is_trace=BOOL)

    def sep_of(params):
        return z3.If(params.fields["has"]["gf_separator"], tostr(params.fields["val"]["gf_separator"]), S_("-"))

    def pl_requires(S, label, params):
        return VBool(z3.Implies(params.fields["has"]["gf_separator"],
                                z3.Length(tostr(params.fields["val"]["gf_separator"])) == 1))

    def post_glue(S, label, params, result):
        return VBool(parts_glue(label.t, sep_of(params), result))

    def post_shapes(S, label, params, result):
        f = result.fields
        co, gap, hm, gf, lab = [tostr(f[k]) for k in ("coindex", "gapindex", "headmarker", "gf", "label")]
        return VBool(z3.And(
            z3.Or(co == S_(""), IS_DIGIT(co)), z3.Or(gap == S_(""), IS_DIGIT(gap)),
            z3.Or(hm == S_(""), hm == S_(HM)),
            z3.Length(gf) > 0, z3.Length(lab) > 0,
            tostr(f["gf_separator"]) == sep_of(params),
            # indices contain no further separator of their own kind
            z3.Not(z3.Contains(co, S_("-"))), z3.Not(z3.Contains(gap, S_("="))),
        ))

    def post_trace(S, label, params, result):
        lab = tostr(result.fields["label"])
        star = S_("*")
        return VBool(tobool(result.fields["is_trace"]) ==
                     z3.And(z3.Length(lab) > 0, z3.PrefixOf(star, lab), z3.SuffixOf(star, lab)))

    def post_complete(S, label, params, result):
        """recognition is complete: a head mark, a co-index after the last '-' and a gap index after the last '='
        are recognised whenever they are there"""
        f = result.fields
        co, gap, hm = [tostr(f[k]) for k in ("coindex", "gapindex", "headmarker")]
        s = label.t
        X, D = z3.String(fresh_name("X")), z3.String(fresh_name("D"))
        t = z3.If(hm == S_(HM), z3.SubString(s, 0, z3.Length(s) - 1), s)        # string without head mark
        copart = z3.If(z3.Length(co) > 0, z3.Concat(S_("-"), co), S_(""))
        return VBool(z3.And(
            z3.Implies(z3.SuffixOf(S_(HM), s), hm == S_(HM)),
            # last '-' followed by digits only => that is the co-index
            z3.ForAll([X, D], z3.Implies(z3.And(t == z3.Concat(X, S_("-"), D), z3.Not(z3.Contains(D, S_("-"))),
                                               IS_DIGIT(D)), co == D)),
            # last '=' (of what remains) followed by digits only => that is the gap index
            z3.ForAll([X, D], z3.Implies(z3.And(t == z3.Concat(X, S_("="), D, copart),
                                               z3.Not(z3.Contains(D, S_("="))), IS_DIGIT(D)), gap == D)),
        ))

    reg.add(Contract(
        target="trees.trees.parse_label", prop="C20", args=dict(label=STR), params=dict(gf_separator=STR),
        requires=pl_requires,
        ensures={"parts_glue_back": post_glue, "component_shapes": post_shapes, "trace_iff_starred": post_trace,
                 "recognition_complete": post_complete},
        result_type=LABEL,
        loops={0: dict(inv=lambda S: conj(
            S.gf_sep_pos == -1,
            VBool(z3.Not(z3.Contains(z3.SubString(tostr(S.label), 0, toint(S.it)), tostr(S.gf_separator))))))},
    ))

    # ---------------------------------------------------------------- format_label
    def fl_post(S, label, params, result):
        f = label.fields
        lab, gf, gap, co, sep = [tostr(f[k]) for k in ("label", "gf", "gapindex", "coindex", "gf_separator")]
        hm = f["headmarker"]
        always_label = params.fields["has"]["always_label"]
        always_gf = params.fields["has"]["always_gf"]
        L = z3.If(z3.Or(lab != S_("EMPTY"), always_label), lab, S_(""))
        G = z3.If(z3.Or(z3.And(gf != S_("--"), z3.Length(gf) > 0), always_gf), z3.Concat(sep, gf), S_(""))
        gappart = z3.If(z3.Length(gap) > 0, z3.Concat(S_("="), gap), S_(""))
        copart = z3.If(z3.Length(co) > 0, z3.Concat(S_("-"), co), S_(""))
        hmpart = z3.If(z3.Length(tostr(hm)) > 0, S_(HM), S_(""))
        return VBool(tostr(result) == z3.Concat(L, G, gappart, copart, hmpart))

    reg.add(Contract(
        target="trees.trees.format_label", prop="C20", args=dict(label=LABEL),
        params=dict(always_label=BOOL, always_gf=BOOL),
        ensures={"category_function_gap_coindex_head_in_order": fl_post}, result_type=STR))


def lemma_roundtrip(reg, repo):
    """over the two contracts: format(parse(s)) == s unless a default literal is involved; emptying one
    component removes exactly that component"""
    pl, fl = reg.get("trees.trees.parse_label"), reg.get("trees.trees.format_label")
    s = VStr(z3.String("rt_s"))
    names = ("label", "gf", "gf_separator", "coindex", "gapindex", "headmarker")
    r = VRec("Label", dict([(k, VStr(z3.String("rt_" + k))) for k in names] + [("is_trace", VBool(z3.Bool("rt_tr")))]))
    noparams = VRec("params", {"has": {"gf_separator": z3.BoolVal(False)}, "val": {"gf_separator": VStr(S_("-"))}})
    fparams = VRec("params", {"has": {"always_label": z3.BoolVal(False), "always_gf": z3.BoolVal(False)},
                              "val": {"always_label": VBool(True), "always_gf": VBool(True)}})

    class S(object):
        pass
    hyp = [tobool(c(S, s, noparams, r)) for c in pl.ensures.values()]

    def fmt(rec, name):
        out = VStr(z3.String("rt_out_" + name))
        return out, tobool(fl.ensures["category_function_gap_coindex_head_in_order"](S, rec, fparams, out))
    lab, gf, gap, co, hm = [tostr(r.fields[k]) for k in ("label", "gf", "gapindex", "coindex", "headmarker")]
    vcs = []
    out, fact = fmt(r, "id")
    # 1. identity unless a default literal is involved
    vcs.append(("identity_without_defaults", hyp + [fact, lab != S_("EMPTY"), gf != S_("--")], out.t == s.t))
    # 2. with defaults: the original with exactly the literal default parts dropped
    vcs.append(("defaults_dropped", hyp + [fact],
                z3.Or(out.t == s.t,
                      z3.And(z3.Or(lab == S_("EMPTY"), gf == S_("--")), z3.Length(out.t) < z3.Length(s.t)))))
    # 3. emptying a component removes exactly that component
    for comp, sepc in (("coindex", "-"), ("gapindex", "="), ("headmarker", "")):
        f2 = dict(r.fields)
        f2[comp] = VStr(S_(""))
        out2, fact2 = fmt(VRec("Label", f2), comp)
        removed = z3.If(z3.Length(tostr(r.fields[comp])) > 0, z3.Length(tostr(r.fields[comp])) + len(sepc), 0)
        vcs.append(("emptying_" + comp, hyp + [fact, fact2, lab != S_("EMPTY"), gf != S_("--")],
                    z3.And(z3.Length(out2.t) == z3.Length(s.t) - removed,
                           z3.Implies(z3.Length(tostr(r.fields[comp])) == 0, out2.t == s.t))))
    return vcs


LEMMAS = {"roundtrip": lemma_roundtrip}
