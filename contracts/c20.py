"""C20 -- parse_label / format_label / get_label under contract (clauses from the property text)."""
import z3
from pyvc.core import Contract, IS_DIGIT, LAST_PRE, LAST_SUF, PIECE_M, piece_axioms, last_split_axioms
from pyvc.sym import (VInt, VBool, VStr, VRef, VOpt, VRec, INT, BOOL, STR, REF, TOpt, TRec, conj, disj, neg, ite,
                      implies, length, tobool, toint, tostr, fresh_name, vite, StrS)

VERIFY = ["trees.trees.parse_label", "trees.trees.format_label", "trees.trees.get_label"]
SHARDS = {"trees.trees.parse_label": 16}

TRUSTED = ["str.isdigit: uninterpreted predicate with the axiom isdigit(s) -> len(s) > 0",
           "SMT strings stand for Python str (code points up to 0x2FFFF in z3, assumption A1)"]
ASSUMPTIONS = ["the gf separator is a one-character string (all separators the package uses and documents are)"]

S_ = z3.StringVal
HM = "'"


def cat(*xs):
    xs = [tostr(x) if not z3.is_expr(x) else x for x in xs]
    return z3.Concat(*xs) if len(xs) > 1 else xs[0]


def parts_glue(s, sep, r):
    """the original string is category + [sep function] + ['=' gap index] + ['-' co-index] + [head mark], where
    the category may be absent when it parsed as the default literal EMPTY and the function may be absent
    when it parsed as the default literal '--'"""
    lab, gf, gap, co, hm = [tostr(r.fields[k]) for k in ("label", "gf", "gapindex", "coindex", "headmarker")]
    gappart = z3.If(z3.Length(gap) > 0, z3.Concat(S_("="), gap), S_(""))
    copart = z3.If(z3.Length(co) > 0, z3.Concat(S_("-"), co), S_(""))
    tail = z3.Concat(gappart, copart, hm)
    with_gf = z3.Concat(sep, gf)
    opts = []
    for L in (lab, None):
        for G in (with_gf, None):
            conds = []
            body = []
            if L is None:
                conds.append(lab == S_("EMPTY"))
            else:
                body.append(L)
            if G is None:
                conds.append(gf == S_("--"))
            else:
                body.append(G)
            body.append(tail)
            opts.append(z3.And(*(conds + [s == (z3.Concat(*body) if len(body) > 1 else body[0])])))
    return z3.Or(*opts)


def indices_spec(s, co, gap, hm, tag="is"):
    """(clauses, definitions, auxiliary terms) of the functional specification of head mark / co-index / gap
    index.  t1 / t2 are named by fresh constants with defining equations (keeps the terms small)."""
    n = z3.Length(s)
    has_hm = z3.And(n > 0, z3.SuffixOf(S_(HM), s))
    t1, t2 = z3.String(fresh_name(tag + "_t1")), z3.String(fresh_name(tag + "_t2"))
    dash, eq = S_("-"), S_("=")
    co_found = z3.And(z3.Contains(t1, dash), IS_DIGIT(LAST_SUF(t1, dash)))
    gap_found = z3.And(z3.Contains(t2, eq), IS_DIGIT(LAST_SUF(t2, eq)))
    defs = [t1 == z3.If(has_hm, PIECE_M(s, z3.IntVal(0), n - 1), s),      # without the head mark
            t2 == z3.If(co_found, LAST_PRE(t1, dash), t1)]                 # without the co-index
    clauses = [hm == z3.If(has_hm, S_(HM), S_("")),
               co == z3.If(co_found, LAST_SUF(t1, dash), S_("")),
               gap == z3.If(gap_found, LAST_SUF(t2, eq), S_(""))]
    return clauses, defs, dict(t1=t1, t2=t2, has_hm=has_hm)


def _unique_inst(t, c, a, b):
    """instance of LEMMAS['last_split_unique'] (proved for arbitrary t, a, b)"""
    return z3.Implies(z3.And(t == z3.Concat(a, c, b), z3.Not(z3.Contains(b, c))),
                      z3.And(LAST_SUF(t, c) == b, LAST_PRE(t, c) == a))


def lemma_last_split_unique(reg, repo):
    """the split at the last occurrence of a one-character needle is unique"""
    t, a, b = [z3.String("lu_" + k) for k in "tab"]
    out = []
    for nm, c in (("dash", S_("-")), ("eq", S_("="))):
        out.append((nm, [last_split_axioms(t, c), t == z3.Concat(a, c, b), z3.Not(z3.Contains(b, c))],
                    z3.And(LAST_SUF(t, c) == b, LAST_PRE(t, c) == a)))
    return out


def lemma_recognition_complete(reg, repo):
    """from the functional clause and the meaning of the spec functions: a head mark, a co-index after the last
    '-' and a gap index after the last '=' are recognised whenever they are there (proved once, not per path)"""
    s, co, gap, hm = [z3.String("rc_" + k) for k in ("s", "co", "gap", "hm")]
    D, X = z3.String("rc_D"), z3.String("rc_X")
    clauses, defs, aux = indices_spec(s, co, gap, hm)
    t1, t2 = aux["t1"], aux["t2"]
    dash, eq = S_("-"), S_("=")
    n = z3.Length(s)
    _, pax = piece_axioms(s, z3.IntVal(0), n - 1)
    digit_ax = [z3.Implies(IS_DIGIT(x), z3.Length(x) > 0) for x in (D, LAST_SUF(t1, dash), LAST_SUF(t2, eq))]
    hyp = clauses + defs + pax + [last_split_axioms(t1, dash), last_split_axioms(t2, eq)] + digit_ax
    copart = z3.If(z3.Length(co) > 0, z3.Concat(dash, co), S_(""))
    return [
        ("headmark", hyp, z3.Implies(z3.SuffixOf(S_(HM), s), hm == S_(HM))),
        # s == X . "-" . D . hm with digits D free of '-'
        ("coindex", hyp + [s == z3.Concat(X, dash, D, hm), z3.Not(z3.Contains(D, dash)), IS_DIGIT(D),
                           z3.Not(z3.Contains(D, S_(HM))), _unique_inst(t1, dash, X, D)], co == D),
        # s == X . "=" . D . ["-" co] . hm with digits D free of '=', '-'
    ] + _gap_chain(hyp, s, X, D, co, gap, hm, t1, t2)


def _gap_chain(hyp, s, X, D, co, gap, hm, t1, t2):
    """gap index: proof by cases (co-index empty or not) x (head mark or not), each in three steps
    (what t1 is, what t2 is, the conclusion); every step uses the previous ones as hypotheses"""
    dash, eq = S_("-"), S_("=")
    copart = z3.If(z3.Length(co) > 0, z3.Concat(dash, co), S_(""))
    base = hyp + [s == z3.Concat(X, eq, D, copart, hm), z3.Not(z3.Contains(D, eq)), IS_DIGIT(D),
                  z3.Not(z3.Contains(D, dash)), z3.Not(z3.Contains(D, S_(HM))), z3.Not(z3.Contains(co, S_(HM))),
                  _unique_inst(t1, dash, z3.Concat(X, eq, D), co), _unique_inst(t2, eq, X, D)]
    out = []
    for cn, ccase in (("noco", co == S_("")), ("co", co != S_(""))):
        for hn, hcase in (("nohm", hm == S_("")), ("hm", hm == S_(HM))):
            h = base + [ccase, hcase]
            f1 = t1 == z3.Concat(X, eq, D, copart)
            f2 = t2 == z3.Concat(X, eq, D)
            out.append(("gapindex.%s_%s.t1" % (cn, hn), h, f1))
            out.append(("gapindex.%s_%s.t2" % (cn, hn), h + [f1], f2))
            out.append(("gapindex.%s_%s.gap" % (cn, hn), h + [f1, f2], gap == D))
    return out


def build(reg):
    LABEL = TRec(label=STR, gf=STR, gf_separator=STR, coindex=STR, gapindex=STR, headmarker=STR, is_trace=BOOL)

    def sep_of(params):
        return z3.If(params.fields["has"]["gf_separator"], tostr(params.fields["val"]["gf_separator"]), S_("-"))

    def pl_requires(S, label, params):
        return VBool(z3.Implies(params.fields["has"]["gf_separator"],
                                z3.Length(tostr(params.fields["val"]["gf_separator"])) == 1))

    def post_glue(S, label, params, result):
        return VBool(parts_glue(label.t, sep_of(params), result))

    def post_shapes(S, label, params, result):
        f = result.fields
        co, gap, hm, gf, lab = [tostr(f[k]) for k in ("coindex", "gapindex", "headmarker", "gf", "label")]
        return VBool(z3.And(
            z3.Or(co == S_(""), IS_DIGIT(co)), z3.Or(gap == S_(""), IS_DIGIT(gap)),
            z3.Or(hm == S_(""), hm == S_(HM)),
            z3.Length(gf) > 0, z3.Length(lab) > 0,
            tostr(f["gf_separator"]) == sep_of(params),
            # indices contain no further separator of their own kind
            z3.Not(z3.Contains(co, S_("-"))), z3.Not(z3.Contains(gap, S_("="))),
        ))

    def post_trace(S, label, params, result):
        lab = tostr(result.fields["label"])
        star = S_("*")
        return VBool(tobool(result.fields["is_trace"]) ==
                     z3.And(z3.Length(lab) > 0, z3.PrefixOf(star, lab), z3.SuffixOf(star, lab)))

    def post_indices_functional(S, label, params, result):
        """head mark, co-index and gap index as *functions* of the input (spec functions py_last_pre/suf = the
        split at the last occurrence, py_piece_m = a slice): the head mark is a final apostrophe; the co-index is
        what follows the last '-' of the rest if that is digits; the gap index likewise for the last '=' of what
        then remains.  LEMMAS['recognition_complete'] derives the quantified completeness statement from this."""
        f = result.fields
        co, gap, hm = [tostr(f[k]) for k in ("coindex", "gapindex", "headmarker")]
        clauses, defs, _ = indices_spec(label.t, co, gap, hm)
        return VBool(z3.Implies(z3.And(*defs), z3.And(*clauses)))

    reg.add(Contract(
        target="trees.trees.parse_label", prop="C20", args=dict(label=STR), params=dict(gf_separator=STR),
        requires=pl_requires,
        ensures={"parts_glue_back": post_glue, "component_shapes": post_shapes, "trace_iff_starred": post_trace,
                 "indices_functional": post_indices_functional},
        result_type=LABEL, result_name="py_parse_label",
        # two of the ~120 paths need about 4 s of cvc5 on an idle machine
        solver_hints={"post.indices_functional": {"cli_s": 30}, "inv0.after": {"cli_s": 30},
                      "post.parts_glue_back": {"cli_s": 20}},
        # the loop finds the first occurrence of the separator: gf_sep_pos == str.indexof(label, sep, 0)
        loops={0: dict(
            inv=lambda S: conj(
                S.gf_sep_pos == -1,
                VBool(z3.Or(z3.IndexOf(tostr(S.label), tostr(S.gf_separator), 0) == -1,
                            z3.IndexOf(tostr(S.label), tostr(S.gf_separator), 0) >= toint(S.it)))),
            after=lambda S: VBool(toint(S.gf_sep_pos) == z3.IndexOf(tostr(S.label), tostr(S.gf_separator), 0)))},
    ))

    add_get_label(reg)

    # ---------------------------------------------------------------- format_label
    def fl_post(S, label, params, result):
        f = label.fields
        lab, gf, gap, co, sep = [tostr(f[k]) for k in ("label", "gf", "gapindex", "coindex", "gf_separator")]
        hm = f["headmarker"]
        always_label = params.fields["has"]["always_label"]
        always_gf = params.fields["has"]["always_gf"]
        L = z3.If(z3.Or(lab != S_("EMPTY"), always_label), lab, S_(""))
        G = z3.If(z3.Or(z3.And(gf != S_("--"), z3.Length(gf) > 0), always_gf), z3.Concat(sep, gf), S_(""))
        gappart = z3.If(z3.Length(gap) > 0, z3.Concat(S_("="), gap), S_(""))
        copart = z3.If(z3.Length(co) > 0, z3.Concat(S_("-"), co), S_(""))
        hmpart = z3.If(z3.Length(tostr(hm)) > 0, S_(HM), S_(""))
        return VBool(tostr(result) == z3.Concat(L, G, gappart, copart, hmpart))

    reg.add(Contract(
        target="trees.trees.format_label", prop="C20", args=dict(label=LABEL),
        params=dict(always_label=BOOL, always_gf=BOOL),
        ensures={"category_function_gap_coindex_head_in_order": fl_post}, result_type=STR))


def get_label_spec(H, tree, params):
    """category followed by exactly the decorations the options ask for (as a term)"""
    has, val = params.fields["has"], params.fields["val"]
    lab = H.data(tree, "label")
    labs = z3.If(lab.isnone, S_("None"), lab.val.t)
    edge = H.data(tree, "edge")
    edges = z3.If(edge.isnone, S_("--"), edge.val.t)
    sep = z3.If(has["gf_separator"], tostr(val["gf_separator"]), S_("-"))
    gf_on = z3.And(has["gf"], z3.Not(z3.PrefixOf(S_("-"), edges)),
                   z3.Or(H.nchild_t(tree.t) > 0, has["gf_terminals"]))
    from pyvc.core import int_to_str
    parts = [labs,
             z3.If(gf_on, z3.Concat(sep, edges), S_("")),
             z3.If(z3.And(has["mark_heads_marking"], H.data(tree, "head").t), S_(HM), S_("")),
             z3.If(z3.And(has["boyd_split_marking"], H.data(tree, "split").t), S_("*"), S_("")),
             z3.If(z3.And(has["boyd_split_numbering"], H.data(tree, "split").t),
                   int_to_str(H.data(tree, "block_number").t), S_(""))]
    return z3.Concat(*parts)


GET_LABEL_PARAMS = dict(gf=BOOL, gf_separator=STR, gf_terminals=BOOL, mark_heads_marking=BOOL,
                        boyd_split_marking=BOOL, boyd_split_numbering=BOOL)


def get_label_requires(S, tree, params):
    """the node exists and carries the flags the requested decorations print (Appendix A: mark_heads_marking only on
    head-marked trees, boyd_split_* only after boyd_split)"""
    H = S.H
    has = params.fields["has"]
    return VBool(z3.And(
        tree.t != 0, H.has(tree, "label").t, H.has(tree, "edge").t,
        z3.Implies(has["mark_heads_marking"], H.has(tree, "head").t),
        z3.Implies(z3.Or(has["boyd_split_marking"], has["boyd_split_numbering"]), H.has(tree, "split").t),
        z3.Implies(z3.And(has["boyd_split_numbering"], H.data(tree, "split").t), H.has(tree, "block_number").t)))


def add_get_label(reg):
    from contracts.common import add_common
    add_common(reg)
    reg.add(Contract(
        target="trees.trees.get_label", prop="C20", args=dict(tree=REF), params=GET_LABEL_PARAMS,
        requires=get_label_requires,
        ensures={"category_then_requested_decorations":
                 lambda S, tree, params, result: VBool(tostr(result) == get_label_spec(S.H, tree, params))},
        result_type=STR))


def lemma_roundtrip(reg, repo):
    """over the two contracts: format(parse(s)) == s unless a default literal is involved; emptying one
    component removes exactly that component"""
    pl, fl = reg.get("trees.trees.parse_label"), reg.get("trees.trees.format_label")
    s = VStr(z3.String("rt_s"))
    names = ("label", "gf", "gf_separator", "coindex", "gapindex", "headmarker")
    r = VRec("Label", dict([(k, VStr(z3.String("rt_" + k))) for k in names] + [("is_trace", VBool(z3.Bool("rt_tr")))]))
    noparams = VRec("params", {"has": {"gf_separator": z3.BoolVal(False)}, "val": {"gf_separator": VStr(S_("-"))}})
    fparams = VRec("params", {"has": {"always_label": z3.BoolVal(False), "always_gf": z3.BoolVal(False)},
                              "val": {"always_label": VBool(True), "always_gf": VBool(True)}})

    class S(object):
        pass
    hyp = [tobool(c(S, s, noparams, r)) for c in pl.ensures.values()]

    def fmt(rec, name):
        out = VStr(z3.String("rt_out_" + name))
        return out, tobool(fl.ensures["category_function_gap_coindex_head_in_order"](S, rec, fparams, out))
    lab, gf, gap, co, hm = [tostr(r.fields[k]) for k in ("label", "gf", "gapindex", "coindex", "headmarker")]
    vcs = []
    out, fact = fmt(r, "id")
    # 1. identity unless a default literal is involved
    vcs.append(("identity_without_defaults", hyp + [fact, lab != S_("EMPTY"), gf != S_("--")], out.t == s.t))
    # 2. with defaults: the original with exactly the literal default parts dropped
    vcs.append(("defaults_dropped", hyp + [fact],
                z3.Or(out.t == s.t,
                      z3.And(z3.Or(lab == S_("EMPTY"), gf == S_("--")), z3.Length(out.t) < z3.Length(s.t)))))
    # 3. emptying a component removes exactly that component
    for comp, sepc in (("coindex", "-"), ("gapindex", "="), ("headmarker", "")):
        f2 = dict(r.fields)
        f2[comp] = VStr(S_(""))
        out2, fact2 = fmt(VRec("Label", f2), comp)
        removed = z3.If(z3.Length(tostr(r.fields[comp])) > 0, z3.Length(tostr(r.fields[comp])) + len(sepc), 0)
        vcs.append(("emptying_" + comp, hyp + [fact, fact2, lab != S_("EMPTY"), gf != S_("--")],
                    z3.And(z3.Length(out2.t) == z3.Length(s.t) - removed,
                           z3.Implies(z3.Length(tostr(r.fields[comp])) == 0, out2.t == s.t))))
    return vcs


LEMMAS = {"roundtrip": lemma_roundtrip, "recognition_complete": lemma_recognition_complete,
          "last_split_unique": lemma_last_split_unique}
LEMMA_HINTS = {"recognition_complete": {"cli_s": 60}}
