"""C07 -- LabelGenerator.next: binarization labels are fresh (strictly increasing counter, injective rendering)."""
import z3
from pyvc.core import Contract, int_to_str
from pyvc.sym import VInt, VBool, VStr, VRec, INT, STR, TRec, tobool, toint, tostr, fresh_name

VERIFY = ["trees.grammar.LabelGenerator.next"]
TRUSTED = ["'%d' % n: uninterpreted py_int_to_str (distinct integers have distinct decimal renderings is NOT assumed; "
           "freshness is stated on the counter)"]
ASSUMPTIONS = ["the generator object is modelled as a record with the field numb; args/kwargs are not touched by next()",
               "MarkovLabelGenerator.next: kwargs['p'] is a table with integer v, h and optional nofanout; params carries "
               "vert / func (lists of strings), fanout (list of integers), pos with 0 <= pos and pos + 1 < len(func), "
               "len(fanout) (the call sites in binarize_rule)"]


def build(reg):
    SELF = TRec(numb=INT)

    def post(S, self, params, result):
        """the label is '@' + decimal(counter + 1) + 'X' and the counter has grown by exactly one"""
        new_self = S.final("self")
        return VBool(z3.And(
            tostr(result) == z3.Concat(z3.StringVal("@"), int_to_str(toint(self.fields["numb"]) + 1), z3.StringVal("X")),
            toint(new_self.fields["numb"]) == toint(self.fields["numb"]) + 1))

    reg.add(Contract(
        target="trees.grammar.LabelGenerator.next", prop="C07", args=dict(self=SELF), params={},
        ensures={"next_label_and_counter": post}, result_type=STR))


# ----------------------------------------------------------------------------------------------------------------------
# MarkovLabelGenerator.next: the Markovization label is '@' + vertical part + horizontal part + 'X', where
#   vertical part   = '^' + vert[0] ... '^' + vert[m-1],  m = min(v, len(vert))   (nothing for v <= 0)
#   horizontal part = '-' + func[pos+1] [+ fanout[pos+1]]  '-' + func[pos] [+ fanout[pos]] ...   min(h, pos+1) items,
#                     walking left from the current right-hand-side position (nothing for h <= 0); fan-outs are
#                     left out with `nofanout`
# The two concatenations are ghost prefix sequences defined by primitive recursion (conservative definitions).
# Verified as a block (the whole body of the method): the options record p is a table with symbolic presence of
# `nofanout`, which the typed-argument front end cannot express.
# ----------------------------------------------------------------------------------------------------------------------
def lemma_markov_label(reg, repo):
    from pyvc.core import Exec, State
    from pyvc.heap import Heap
    from pyvc.sym import VList, TList, fresh, qforall, Unsupported, BOOL
    qual = "trees.grammar.MarkovLabelGenerator.next"
    info = repo.fns.get(qual)
    if info is None:
        raise Unsupported("function %s no longer exists" % qual)
    c = Contract(target=qual, prop="C07", args={}, params={}, loops={})
    ex = Exec(repo, reg, info, c, prefix="C07.markov_label")
    st = State(heap=Heap.fresh("M"))
    ex.entry_heap = st.heap.copy()
    assume = []
    v, h = z3.Int(fresh_name("m_v")), z3.Int(fresh_name("m_h"))
    nofan = z3.Bool(fresh_name("m_nofanout"))
    p = VRec("params", {"has": {"v": z3.BoolVal(True), "h": z3.BoolVal(True), "nofanout": nofan},
                        "val": {"v": VInt(v), "h": VInt(h), "nofanout": VBool(z3.BoolVal(True))}})
    vert = fresh(TList(STR), "m_vert", assume=assume)
    func = fresh(TList(STR), "m_func", assume=assume)
    fanout = fresh(TList(INT), "m_fanout", assume=assume)
    pos = z3.Int(fresh_name("m_pos"))
    params = VRec("params", {"has": {k: z3.BoolVal(True) for k in ("vert", "func", "fanout", "pos")},
                             "val": {"vert": vert, "func": func, "fanout": fanout, "pos": VInt(pos)}})
    self_ = VRec("rec", {"kwargs": VRec("dict", {"p": p}), "numb": VInt(z3.Int(fresh_name("m_numb")))})
    st.env.update({"self": self_, "params": params})
    for t in assume:
        st.assume(t)
    # the call sites in binarize_rule: 0 <= pos, func and fanout have an entry for every position up to pos + 1
    st.assume(z3.And(pos >= 0, pos + 1 < func.n, pos + 1 < fanout.n))
    V = z3.Function("m_vertical_prefix", z3.IntSort(), z3.StringSort())
    Hz = z3.Function("m_horizontal_prefix", z3.IntSort(), z3.StringSort())
    k = z3.Int(fresh_name("mk"))
    S_ = z3.StringVal
    item = lambda q: z3.If(nofan, z3.Concat(S_("-"), tostr(func.get(pos - q + 1))),
                           z3.Concat(S_("-"), tostr(func.get(pos - q + 1)), int_to_str(toint(fanout.get(pos - q + 1)))))
    st.assume(V(0) == S_(""))
    st.assume(qforall([k], z3.Implies(z3.And(0 <= k, k < vert.n),
                                      V(k + 1) == z3.Concat(V(k), S_("^"), tostr(vert.get(k)))), [V(k + 1)]))
    st.assume(Hz(0) == S_(""))
    st.assume(qforall([k], z3.Implies(z3.And(0 <= k, k <= pos), Hz(k + 1) == z3.Concat(Hz(k), item(k))), [Hz(k + 1)]))

    def vert_inv(S):
        it = toint(S.it)
        return VBool(z3.And(tostr(S.vert) == V(it), it <= v))

    def horiz_inv(S):
        i, cnt = toint(S.i), toint(S.cnt)
        return VBool(z3.And(cnt >= 0, i == pos + 1 - cnt, i >= 0, cnt <= h, tostr(S.horiz) == Hz(cnt)))

    import ast
    loops = [n for n in ast.walk(info.node) if isinstance(n, (ast.For, ast.While))]
    if len(loops) != 2:
        raise Unsupported("expected two loops in MarkovLabelGenerator.next, found %d" % len(loops))
    for n in loops:
        ex.c.loops[ex.loop_ords[id(n)]] = dict(inv=vert_inv if isinstance(n, ast.For) else horiz_inv,
                                               variant=None if isinstance(n, ast.For) else (lambda S: VInt(toint(S.i))))
    ex.obligations = []
    outs = ex._with_raises(st, ex.exec_block(info.node.body, st))
    vcs = []
    mn = lambda a, b: z3.If(a <= b, a, b)
    m_v = z3.If(v > 0, mn(v, vert.n), 0)
    m_h = z3.If(h > 0, mn(h, pos + 1), 0)
    for oi, o in enumerate(outs):
        if o.kind != "return":
            raise Unsupported("MarkovLabelGenerator.next leaves by %s" % o.kind)
        vcs.append(("path%d.label_is_at_vertical_horizontal_X" % oi, list(o.st.pc),
                    tostr(o.val) == z3.Concat(S_("@"), V(m_v), Hz(m_h), S_("X"))))
    for ob in ex.obligations:
        vcs.append(("body.%s" % ob.name.split(".", 2)[-1], list(ob.pc), ob.goal))
    return vcs


lemma_markov_label.target = "trees.grammar.MarkovLabelGenerator.next"
LEMMAS = {"markov_label": lemma_markov_label}
