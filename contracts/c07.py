"""C07 -- LabelGenerator.next: binarization labels are fresh (strictly increasing counter, injective rendering)."""
import z3
from pyvc.core import Contract, int_to_str
from pyvc.sym import VInt, VBool, VStr, VRec, INT, STR, TRec, tobool, toint, tostr, fresh_name

VERIFY = ["trees.grammar.LabelGenerator.next"]
TRUSTED = ["'%d' % n: uninterpreted py_int_to_str (distinct integers have distinct decimal renderings is NOT assumed; "
           "freshness is stated on the counter)"]
ASSUMPTIONS = ["the generator object is modelled as a record with the field numb; args/kwargs are not touched by next()"]


def build(reg):
    SELF = TRec(numb=INT)

    def post(S, self, params, result):
        """the label is '@' + decimal(counter + 1) + 'X' and the counter has grown by exactly one"""
        new_self = S.final("self")
        return VBool(z3.And(
            tostr(result) == z3.Concat(z3.StringVal("@"), int_to_str(toint(self.fields["numb"]) + 1), z3.StringVal("X")),
            toint(new_self.fields["numb"]) == toint(self.fields["numb"]) + 1))

    reg.add(Contract(
        target="trees.grammar.LabelGenerator.next", prop="C07", args=dict(self=SELF), params={},
        ensures={"next_label_and_counter": post}, result_type=STR))
