"""Block contracts on the per-constituent part of trees.grammar.extract (C06; the block count is shared with C16).

extract as a whole is outside the reach of pyvc (nested dicts keyed by tuples of strings and tuples of tuples); the
statements that decide *which rule is counted* are taken out of its real AST, by pattern, and verified as blocks:

  rule_labels_and_token_map   term_map = {} ... func = tuple(func):
        func = the label of the constituent followed by the labels of its children in order of their least token;
        term_map sends the number of every token below the k-th (ordered) child to k, and holds nothing else
  one_argument_per_block      lin = [] ... lin = tuple(lin):
        the linearization has exactly one argument per terminal block of the constituent (so its length is the
        set-based gap degree + 1, by the contract of terminal_blocks), no argument is empty, every element refers to
        an existing right-hand side position, and neighbouring elements of an argument refer to different positions
"""
import ast
import z3
from pyvc.core import Contract, Exec, State
from pyvc.heap import Heap
from pyvc import sym as _sym
from pyvc.sym import (VRef, VBool, VInt, VList, VStr, REF, INT, STR, TList, TTuple, tobool, toint, fresh_name, qforall,
                      conj, Unsupported)
from contracts.common import WF, wf_theory, wf_theory_tokens, C_idx, desc, terms_facts

QUAL = "trees.grammar.extract"


def _find_block(info, first_src, last_src):
    """the statements from `first_src` to `last_src` (unparsed text) in one statement list of the function"""
    for node in ast.walk(info.node):
        body = getattr(node, "body", None)
        if not isinstance(body, list):
            continue
        srcs = [ast.unparse(s) for s in body]
        if first_src in srcs and last_src in srcs and srcs.index(first_src) < srcs.index(last_src):
            return body[srcs.index(first_src):srcs.index(last_src) + 1]
    return None


def _setup(repo, reg, prefix, loops):
    info = repo.fns.get(QUAL)
    if info is None:
        raise Unsupported("function %s no longer exists" % QUAL)
    from contracts.common import add_common
    add_common(reg)
    c = Contract(target=QUAL, prop="C06", args={}, loops=loops)
    ex = Exec(repo, reg, info, c, prefix=prefix)
    H = Heap.fresh("X")
    st = State(heap=H)
    for t in H.typing():
        st.assume(t)
    sub = VRef(z3.Int(fresh_name("x_subtree")))
    st.env.update(dict(subtree=sub))
    ex.entry_heap = H.copy()
    st.assume(sub.t != 0)
    st.assume(tobool(WF(H, sub)))
    st.assume(H.nchild_t(sub.t) > 0)
    st.assume(tobool(wf_theory(H)))
    st.assume(tobool(wf_theory_tokens(H)))
    # every node carries a label that is a string (what the readers and Tree(make_node_data()) establish)
    x = z3.Int(fresh_name("lx"))
    st.assume(qforall([x], z3.Implies(tobool(WF(H, VRef(x))),
                                      z3.And(z3.Select(H.f["has_label"], x), z3.Not(z3.Select(H.f["none_label"], x)))),
                      [tobool(WF(H, VRef(x)))]))
    st.assume(distinct_numbers(H, sub))
    ex.obligations = []
    return info, ex, H, st, sub


def distinct_numbers(H, sub):
    """tokens at different places (ordered child k, position i in T(child)) below one constituent carry different
    numbers -- proved once from the theory of well-formed trees (lemma_distinct_numbers), assumed in the blocks"""
    C = H.ochildren(sub)
    k, i, k2, i2 = (z3.Int(fresh_name(c)) for c in ("dk", "di", "dq", "dr"))
    tok = lambda a, b: H.terms(C.get(a)).get(b)
    return qforall([k, i, k2, i2], z3.Implies(
        z3.And(0 <= k, k < C.n, 0 <= i, i < H.terms(C.get(k)).n, 0 <= k2, k2 < C.n, 0 <= i2, i2 < H.terms(C.get(k2)).n,
               z3.Or(k != k2, i != i2)),
        z3.And(tok(k, i).t != tok(k2, i2).t, H.num(tok(k, i)).t != H.num(tok(k2, i2)).t)),
        [[tok(k, i).t, tok(k2, i2).t]])


def lemma_distinct_numbers(reg, repo):
    """chain: the tokens are well-formed leaves below their child; the children are different nodes at depth
    depth(sub) + 1, so the tokens differ (different ancestors at that depth) and both hang below sub; distinct tokens
    below a common node carry distinct numbers"""
    H = Heap.fresh("D")
    sub = VRef(z3.Int("d_sub"))
    k, i, k2, i2 = z3.Ints("d_k d_i d_k2 d_i2")
    C = H.ochildren(sub)
    ck, ck2 = C.get(k), C.get(k2)
    x, y = H.terms(ck).get(i), H.terms(ck2).get(i2)
    base = [sub.t != 0, tobool(WF(H, sub)), H.nchild_t(sub.t) > 0, tobool(wf_theory(H)), tobool(wf_theory_tokens(H)),
            0 <= k, k < C.n, 0 <= k2, k2 < C.n]
    dsub = H.depth(sub).t
    s1 = z3.And(tobool(WF(H, ck)), tobool(WF(H, ck2)), H.parent_t(ck.t) == sub.t, H.parent_t(ck2.t) == sub.t,
                C_idx(H, ck).t == k, C_idx(H, ck2).t == k2, ck.t != 0, ck2.t != 0,
                H.depth(ck).t == dsub + 1, H.depth(ck2).t == dsub + 1)
    tf = [tobool(terms_facts(H, ck)), tobool(terms_facts(H, ck2)), 0 <= i, i < H.terms(ck).n, 0 <= i2, i2 < H.terms(ck2).n]
    s2 = z3.And(tobool(WF(H, x)), tobool(WF(H, y)), H.nchild_t(x.t) == 0, H.nchild_t(y.t) == 0,
                H.depth(x).t >= dsub + 1, H.depth(y).t >= dsub + 1,
                H.anc(x, VInt(dsub + 1)).t == ck.t, H.anc(y, VInt(dsub + 1)).t == ck2.t)
    s3 = z3.And(H.anc(x, VInt(dsub)).t == sub.t, H.anc(y, VInt(dsub)).t == sub.t)
    diff = z3.Or(k != k2, i != i2)
    return [("children_are_nodes_one_level_down", base, s1),
            ("tokens_hang_below_their_child", base + [s1] + tf, s2),
            ("tokens_hang_below_the_constituent", base + [s1, s2] + tf, s3),
            ("different_places_different_tokens", base + [s1, s2, s3, diff] + tf, x.t != y.t),
            ("different_tokens_different_numbers", base + [s1, s2, s3, diff, x.t != y.t] + tf,
             H.num(x).t != H.num(y).t)]


def lemma_rule_labels(reg, repo):
    info = repo.fns.get(QUAL)
    if info is None:
        raise Unsupported("function %s no longer exists" % QUAL)
    block = _find_block(info, "term_map = {}", "func = tuple(func)")
    if block is None:
        raise Unsupported("the label / token-map block of extract was not found (the contract no longer binds)")
    TM = _sym.TSMap(INT)

    def label_of(H, r):
        return z3.Select(H.f["val_label"], r)

    def tm_ok(H, sub, tm, upto, cur, upto_cur):
        """term_map holds exactly the numbers of the tokens below the first `upto` ordered children (each sent to the
        index of its child) and of the first `upto_cur` tokens of child `cur`"""
        C = H.ochildren(sub)
        k, i, n = (z3.Int(fresh_name(c)) for c in ("tk", "ti", "tn"))
        Tk = lambda q: H.terms(C.get(q))
        numof = lambda q, r: H.num(Tk(q).get(r)).t
        covered = lambda q, r: z3.Or(z3.And(0 <= q, q < upto, 0 <= r, r < Tk(q).n),
                                     z3.And(q == cur, 0 <= r, r < upto_cur))
        q, r = z3.Int(fresh_name("tq")), z3.Int(fresh_name("tr"))
        return z3.And(
            qforall([k, i], z3.Implies(covered(k, i), z3.And(tobool(tm.has(numof(k, i))), tm.get(numof(k, i)).t == k)),
                    [Tk(k).get(i).t]),
            qforall([n], z3.Implies(tobool(tm.has(n)), z3.Exists([q, r], z3.And(covered(q, r), numof(q, r) == n))),
                    [tobool(tm.has(n))]))

    def func_ok(H, sub, func, upto):
        C = H.ochildren(sub)
        k = z3.Int(fresh_name("fk"))
        return z3.And(func.n == 1 + upto, str_is(func.get(0), label_of(H, sub.t)),
                      qforall([k], z3.Implies(z3.And(0 <= k, k < upto),
                                              str_is(func.get(k + 1), label_of(H, C.get(k).t))), [C.get(k).t]))

    def str_is(v, term):
        """the list element v is the string `term` (and not None)"""
        from pyvc.sym import tostr, VOpt
        if isinstance(v, VOpt):
            return z3.And(z3.Not(v.isnone), v.val.t == term)
        return tostr(v) == term

    def outer(S):
        it = toint(S.it)
        return VBool(z3.And(func_ok(S.H, S.subtree, S.func, it),
                            tm_ok(S.H, S.subtree, S.term_map, it, z3.IntVal(-1), z3.IntVal(0))))

    def inner(S):
        it = toint(S.it)
        i = toint(S.i)
        C = S.H.ochildren(S.subtree)
        return VBool(z3.And(0 <= i, i < C.n, S.child.t == C.get(i).t,
                            func_ok(S.H, S.subtree, S.func, i + 1),
                            tm_ok(S.H, S.subtree, S.term_map, i, i, it)))

    types = {"term_map": TM, "func": TList(_sym.TOpt(STR))}
    info, ex, H, st, sub = _setup(repo, reg, "C06.rule_labels", {})
    # the two loops of the block are loops number (ordinal in the function) of their For nodes
    fors = [n for s in block for n in ast.walk(s) if isinstance(n, ast.For)]
    if len(fors) != 2:
        raise Unsupported("the label / token-map block has %d loops (expected 2)" % len(fors))
    ex.c.loops = {ex.loop_ords[id(fors[0])]: dict(inv=outer, types=types),
                  ex.loop_ords[id(fors[1])]: dict(inv=inner, types=types)}
    outs = ex._with_raises(st, ex.exec_block(block, st))
    vcs = []
    for oi, o in enumerate(outs):
        if o.kind != "normal":
            raise Unsupported("the label / token-map block has an exceptional exit (%s)" % (o.exc,))
        func, tm = o.st.env["func"], o.st.env["term_map"]
        func = ex.iter_list(func, o.st, None)
        C = H.ochildren(sub)
        goals = {
            "rule_is_the_label_followed_by_the_labels_of_the_ordered_children": func_ok(H, sub, func, C.n),
            "token_map_sends_exactly_the_tokens_below_child_k_to_k": tm_ok(H, sub, tm, C.n, z3.IntVal(-1), z3.IntVal(0)),
        }
        for gname, g in goals.items():
            vcs.append(("path%d.%s" % (oi, gname), list(o.st.pc), g))
    for ob in ex.obligations:
        vcs.append(("loop.%s" % ob.name.split(".", 2)[-1], list(ob.pc), ob.goal))
    return vcs


lemma_rule_labels.target = QUAL


# ----------------------------------------------------------------------------------------------------------------------
# every token of T(sub) lies below exactly one ordered child: its place (k, i)
# ----------------------------------------------------------------------------------------------------------------------
def place_of(H, sub, y):
    """(k, i): y == T(C(sub)[k])[i], computed from the ghost functions of the tree theory"""
    C = H.ochildren(sub)
    c = H.anc(y, VInt(H.depth(sub).t + 1))
    k = C_idx(H, c).t
    from contracts.common import T_idx
    return k, T_idx(H, C.get(k), y).t


def tokens_have_places(H, sub):
    T = H.terms(sub)
    C = H.ochildren(sub)
    m = z3.Int(fresh_name("pm"))
    k, i = place_of(H, sub, T.get(m))
    return qforall([m], z3.Implies(z3.And(0 <= m, m < T.n), z3.And(
        0 <= k, k < C.n, 0 <= i, i < H.terms(C.get(k)).n, H.terms(C.get(k)).get(i).t == T.get(m).t)), [T.get(m).t])


def lemma_tokens_have_places(reg, repo):
    """chain for an arbitrary position m of T(sub): the token is a leaf strictly below sub; its ancestor one level
    below sub is a child of sub, hence an element of C(sub); the token hangs below that child, so it occurs in the
    child's token list (completeness clause of the terminals contract)"""
    from contracts.common import T_idx
    H = Heap.fresh("E")
    sub = VRef(z3.Int("e_sub"))
    m = z3.Int("e_m")
    T, C = H.terms(sub), H.ochildren(sub)
    y = T.get(m)
    dsub = H.depth(sub).t
    c = H.anc(y, VInt(dsub + 1))
    k, i = place_of(H, sub, y)
    base = [sub.t != 0, tobool(WF(H, sub)), H.nchild_t(sub.t) > 0, tobool(wf_theory(H)), tobool(wf_theory_tokens(H)),
            tobool(terms_facts(H, sub)), 0 <= m, m < T.n]
    s1 = z3.And(tobool(WF(H, y)), H.nchild_t(y.t) == 0, y.t != sub.t, H.depth(y).t >= dsub,
                H.anc(y, VInt(dsub)).t == sub.t)
    s2 = z3.And(H.depth(y).t >= dsub + 1, tobool(WF(H, c)), H.depth(c).t == dsub + 1, H.parent_t(c.t) == sub.t)
    s3 = z3.And(0 <= k, k < C.n, C.get(k).t == c.t, tobool(desc(H, c, y)))
    tfc = tobool(terms_facts(H, C.get(k)))       # the contract of terminals for the (well-formed) child
    goal = z3.And(0 <= i, i < H.terms(C.get(k)).n, H.terms(C.get(k)).get(i).t == y.t)
    return [("token_is_a_leaf_below_the_constituent", base, s1),
            ("its_ancestor_one_level_down_is_a_child", base + [s1], s2),
            ("that_child_is_an_ordered_child_and_dominates_the_token", base + [s1, s2], s3),
            ("token_occurs_in_the_token_list_of_that_child", base + [s1, s2, s3, tfc], goal)]


# ----------------------------------------------------------------------------------------------------------------------
# the linearization loop
# ----------------------------------------------------------------------------------------------------------------------
def lemma_lin_blocks(reg, repo):
    info = repo.fns.get(QUAL)
    if info is None:
        raise Unsupported("function %s no longer exists" % QUAL)
    block = _find_block(info, "lin = []", "lin = tuple(lin)")
    if block is None:
        raise Unsupported("the linearization block of extract was not found (the contract no longer binds)")
    import contracts.c16 as c16
    c16.build(reg)
    from contracts.common import gapdeg
    LIN = TList(TList(TTuple(INT, INT)))
    types = {"lin": LIN, "rhs_argpos": TList(INT)}
    info, ex, H, st, sub = _setup(repo, reg, "C06.lin_blocks", {})
    C = H.ochildren(sub)
    # what the preceding block established (lemma rule_labels): len(func) == 1 + |C(sub)| and the token map
    assume = []
    func = _sym.fresh(TList(_sym.TOpt(STR)), "x_func", assume=assume)
    tm = _sym.fresh(_sym.TSMap(INT), "x_term_map", assume=assume)
    for t in assume:
        st.assume(t)
    st.assume(func.n == 1 + C.n)
    kq, iq = z3.Int(fresh_name("mk")), z3.Int(fresh_name("mi"))
    Tk = lambda q: H.terms(C.get(q))
    st.assume(qforall([kq, iq], z3.Implies(z3.And(0 <= kq, kq < C.n, 0 <= iq, iq < Tk(kq).n), z3.And(
        tobool(tm.has(H.num(Tk(kq).get(iq)).t)), tm.get(H.num(Tk(kq).get(iq)).t).t == kq)), [Tk(kq).get(iq).t]))
    st.assume(tokens_have_places(H, sub))
    # T(sub) is the token list of the constituent (contract of trees.terminals, verified under C19)
    st.assume(tobool(terms_facts(H, sub)))
    st.env.update(dict(func=func, term_map=tm))

    def arg_ok(arg):
        """a (partial) argument: positions in range, counters non-negative, neighbours refer to different positions"""
        e = z3.Int(fresh_name("ae"))
        first = lambda q: toint(arg.get(q).items[0])
        second = lambda q: toint(arg.get(q).items[1])
        return z3.And(
            qforall([e], z3.Implies(z3.And(0 <= e, e < arg.n), z3.And(0 <= first(e), first(e) < C.n, second(e) >= 0)),
                    [first(e)]),
            qforall([e], z3.Implies(z3.And(1 <= e, e < arg.n), first(e) != first(e - 1)), [first(e)]))

    def closed_ok(lin, upto):
        a = z3.Int(fresh_name("la"))
        e = z3.Int(fresh_name("le"))
        arg = lambda q: lin.get(q)
        first = lambda q, r: toint(arg(q).get(r).items[0])
        second = lambda q, r: toint(arg(q).get(r).items[1])
        return z3.And(
            qforall([a], z3.Implies(z3.And(0 <= a, a < upto), arg(a).n >= 1), [arg(a).n]),
            qforall([a, e], z3.Implies(z3.And(0 <= a, a < upto, 0 <= e, e < arg(a).n),
                                       z3.And(0 <= first(a, e), first(a, e) < C.n, second(a, e) >= 0)), [first(a, e)]),
            qforall([a, e], z3.Implies(z3.And(0 <= a, a < upto, 1 <= e, e < arg(a).n),
                                       first(a, e) != first(a, e - 1)), [first(a, e)]))

    def counters_ok(ap):
        q = z3.Int(fresh_name("cq"))
        return z3.And(ap.n == C.n, qforall([q], z3.Implies(z3.And(0 <= q, q < ap.n), toint(ap.get(q)) >= 0),
                                           [toint(ap.get(q))]))

    def outer(S):
        it = toint(S.it)
        return VBool(z3.And(S.lin.n == it, closed_ok(S.lin, it), counters_ok(S.rhs_argpos)))

    def inner(S):
        it = toint(S.it)
        lin = S.lin
        n0 = S.pre.lin.n
        last = lin.get(lin.n - 1)
        return VBool(z3.And(lin.n == n0, lin.n >= 1, closed_ok(lin, lin.n - 1), counters_ok(S.rhs_argpos),
                            arg_ok(last), last.n >= 0, z3.Implies(it >= 1, last.n >= 1)))

    fors = [n for s in block for n in ast.walk(s) if isinstance(n, ast.For)]
    if len(fors) != 2:
        raise Unsupported("the linearization block has %d loops (expected 2)" % len(fors))
    ex.c.loops = {ex.loop_ords[id(fors[0])]: dict(inv=outer, types=types),
                  ex.loop_ords[id(fors[1])]: dict(inv=inner, types=types)}
    outs = ex._with_raises(st, ex.exec_block(block, st))
    vcs = []
    for oi, o in enumerate(outs):
        if o.kind != "normal":
            raise Unsupported("the linearization block has an exceptional exit (%s)" % (o.exc,))
        lin = ex.iter_list(o.st.env["lin"], o.st, None)
        goals = {
            "one_argument_per_terminal_block_ie_gap_degree_plus_one": lin.n == gapdeg(H, sub).t + 1,
            "arguments_nonempty_positions_in_range_neighbours_differ": closed_ok(lin, lin.n),
        }
        for gname, g in goals.items():
            vcs.append(("path%d.%s" % (oi, gname), list(o.st.pc), g))
    for ob in ex.obligations:
        vcs.append(("loop.%s" % ob.name.split(".", 2)[-1], list(ob.pc), ob.goal))
    return vcs


lemma_lin_blocks.target = QUAL
lemma_distinct_numbers.target = QUAL
lemma_tokens_have_places.target = QUAL


# ----------------------------------------------------------------------------------------------------------------------
# the vertical context
# ----------------------------------------------------------------------------------------------------------------------
def lemma_vertical_context(reg, repo):
    """vert = one entry per node on the path from the constituent to the root, bottom-up: label followed by the
    decimal block count (set-based gap degree + 1) of that node"""
    from pyvc.core import int_to_str
    from contracts.common import gapdeg
    info = repo.fns.get(QUAL)
    if info is None:
        raise Unsupported("function %s no longer exists" % QUAL)
    stmt = None
    for node in ast.walk(info.node):
        if isinstance(node, ast.Assign) and ast.unparse(node.targets[0]) == "vert" \
                and "trees.dominance(subtree)" in ast.unparse(node.value):
            stmt = node
    if stmt is None:
        raise Unsupported("the vertical-context statement of extract was not found (the contract no longer binds)")
    import contracts.c16 as c16
    import contracts.c19 as c19
    c19.build(reg)
    c16.build(reg)
    info, ex, H, st, sub = _setup(repo, reg, "C06.vertical_context", {})
    outs = ex._with_raises(st, ex.exec_block([stmt], st))
    vcs = []
    for oi, o in enumerate(outs):
        if o.kind != "normal":
            raise Unsupported("the vertical-context statement has an exceptional exit (%s)" % (o.exc,))
        vert = ex.iter_list(o.st.env["vert"], o.st, None)
        j = z3.Int(fresh_name("vj"))
        d = H.depth(sub).t
        a = lambda q: H.anc(sub, VInt(d - q))
        from pyvc.sym import tostr
        goals = {
            "one_entry_per_dominating_node": vert.n == d + 1,
            "entry_is_label_then_block_count_bottom_up": z3.ForAll([j], z3.Implies(
                z3.And(0 <= j, j < vert.n),
                tostr(vert.get(j)) == z3.Concat(z3.Select(H.f["val_label"], a(j).t),
                                                int_to_str(gapdeg(H, a(j)).t + 1)))),
        }
        for gname, g in goals.items():
            vcs.append(("path%d.%s" % (oi, gname), list(o.st.pc), g))
    for ob in ex.obligations:
        vcs.append(("stmt.%s" % ob.name.split(".", 2)[-1], list(ob.pc), ob.goal))
    return vcs


lemma_vertical_context.target = QUAL


# ----------------------------------------------------------------------------------------------------------------------
# the lexicon block (the `else` branch: a token)
# ----------------------------------------------------------------------------------------------------------------------
def lemma_lexicon(reg, repo):
    """lexicon[word][tag] grows by exactly one for the token's word and tag (0 when absent before), a word that was
    unknown gets a fresh table, and no other (word, tag) count changes"""
    from pyvc.sym import VMap, VKey, KeyS, _sel, key_term
    info = repo.fns.get(QUAL)
    if info is None:
        raise Unsupported("function %s no longer exists" % QUAL)
    block = None
    for node in ast.walk(info.node):
        if isinstance(node, ast.If) and "trees.has_children(subtree)" in ast.unparse(node.test) and node.orelse \
                and any("lexicon" in ast.unparse(s) for s in node.orelse):
            block = node.orelse
    if block is None:
        raise Unsupported("the lexicon block of extract was not found (the contract no longer binds)")
    from contracts.common import add_common
    add_common(reg)
    c = Contract(target=QUAL, prop="C06", args={}, loops={})
    ex = Exec(repo, reg, info, c, prefix="C06.lexicon")
    H = Heap.fresh("L")
    st = State(heap=H)
    for t in H.typing():
        st.assume(t)
    sub = VRef(z3.Int(fresh_name("l_subtree")))
    st.assume(sub.t != 0)
    # a token with a word and a tag (strings)
    for k in ("word", "label"):
        st.assume(z3.Select(H.f["has_" + k], sub.t))
        st.assume(z3.Not(z3.Select(H.f["none_" + k], sub.t)))
    m0 = VMap.fresh(2, "lexicon")
    st.env.update(dict(subtree=sub, lexicon=m0))
    ex.entry_heap = H.copy()
    ex.obligations = []
    outs = ex._with_raises(st, ex.exec_block(block, st))
    vcs = []
    w = key_term(VStr(z3.Select(H.f["val_word"], sub.t)))
    t = key_term(VStr(z3.Select(H.f["val_label"], sub.t)))
    x, y = z3.Const(fresh_name("lx"), KeyS), z3.Const(fresh_name("ly"), KeyS)
    for oi, o in enumerate(outs):
        if o.kind != "normal":
            raise Unsupported("the lexicon block has an exceptional exit (%s)" % (o.exc,))
        m1 = o.st.env["lexicon"]

        def entry(m, k1, k2):
            return z3.And(_sel(m.pres[0], [k1]), _sel(m.pres[1], [k1, k2]))
        old = z3.If(entry(m0, w, t), _sel(m0.val, [w, t]), 0)
        goals = {
            "count_of_this_word_and_tag_grows_by_one": z3.And(entry(m1, w, t), _sel(m1.val, [w, t]) == old + 1),
            "no_other_count_changes": z3.ForAll([x, y], z3.Implies(
                z3.Not(z3.And(x == w, y == t)),
                z3.And(entry(m1, x, y) == entry(m0, x, y),
                       z3.Implies(entry(m0, x, y), _sel(m1.val, [x, y]) == _sel(m0.val, [x, y]))))),
        }
        for gname, g in goals.items():
            vcs.append(("path%d.%s" % (oi, gname), list(o.st.pc), g))
    for ob in ex.obligations:
        vcs.append(("step.%s" % ob.name.split(".", 2)[-1], list(ob.pc), ob.goal))
    return vcs


lemma_lexicon.target = QUAL
