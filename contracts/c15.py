"""C15 -- negra_mark_heads under contract: every constituent gets exactly the head child the NeGra heuristic names;
get_headpos_by_rule under contract: the only child whose category the parent's head rules list is the head."""
import z3
from pyvc.core import Contract
from pyvc.sym import (VInt, VBool, VStr, VRef, VOpt, INT, BOOL, STR, REF, TList, TOpt, conj, disj, neg, ite, implies,
                      length, tobool, toint, tostr, fresh_name, qforall)
from contracts.common import add_common, WF, wf_theory, desc, preorder_facts

VERIFY = ["trees.transform.negra_mark_heads", "trees.transformconst.get_headpos_by_rule",
          "trees.transform.mark_heads_by_rules"]
SHARDS = {"trees.transform.negra_mark_heads": 8, "trees.transform.mark_heads_by_rules": 8}
TRUSTED = ["contracts of trees.preorder / trees.children used at call sites (both verified under C19); wf_theory"]
ASSUMPTIONS = ["every node carries an 'edge' entry (value may be None); Tree heap model of DESIGN 3.3",
               "get_headpos_by_rule: the rule table is a dict str -> list of (direction, 'cat cat ...') with symbolic "
               "content; every rule of the parent's category names one of the two known directions (true of both "
               "presets); str.lower / str.split() are uninterpreted (pieces of split() are non-empty)"]

HEAD = ["has_head", "val_head"]


def edge_is(H, x, lab):
    e = H.data(x, "edge")
    return z3.And(z3.Not(e.isnone), e.val.t == z3.StringVal(lab))


def head_index(H, p):
    """index (in the ordered child list C(p)) of the child the NeGra heuristic selects: the leftmost child with
    edge HD, else the rightmost child with edge NK, else the leftmost child"""
    C = H.ochildren(p)
    args = H._shape_args() + [H.f["none_edge"], H.f["val_edge"]]
    f = z3.Function("negra_head_index", *([a.sort() for a in args] + [z3.IntSort(), z3.IntSort()]))
    return f(*(args + [p.t]))


def head_index_def(H, p):
    """defining property of head_index(p) (a definitional extension)"""
    C = H.ochildren(p)
    n = C.n
    h = head_index(H, p)
    j = z3.Int(fresh_name("hj"))
    is_hd = lambda q: edge_is(H, C.get(q), "HD")
    is_nk = lambda q: edge_is(H, C.get(q), "NK")
    some_hd = z3.Exists([j], z3.And(0 <= j, j < n, is_hd(j)))
    some_nk = z3.Exists([j], z3.And(0 <= j, j < n, is_nk(j)))
    return z3.And(0 <= h, h < n,
                  z3.Implies(some_hd, z3.And(is_hd(h), z3.ForAll([j], z3.Implies(z3.And(0 <= j, j < h), z3.Not(is_hd(j)))))),
                  z3.Implies(z3.And(z3.Not(some_hd), some_nk),
                             z3.And(is_nk(h), z3.ForAll([j], z3.Implies(z3.And(h < j, j < n), z3.Not(is_nk(j)))))),
                  z3.Implies(z3.And(z3.Not(some_hd), z3.Not(some_nk)), h == 0))


def marked(H, p):
    """exactly the selected child of p is marked as head, every other child as non-head"""
    C = H.ochildren(p)
    j = z3.Int(fresh_name("mj"))
    h = head_index(H, p)
    return qforall([j], z3.Implies(z3.And(0 <= j, j < C.n),
                                   z3.And(H.has(C.get(j), "head").t, H.data(C.get(j), "head").t == (j == h))),
                   [C.get(j).t])


def category(reg, s):
    """lower-cased category of a child label as get_headpos_by_rule computes it:
    parse_label(s.lower()).label.lower()   (parse_label's result named by its proved contract, C20)"""
    from pyvc.core import named_result, STR_LOWER
    from pyvc.sym import VRec
    c = reg.get("trees.trees.parse_label")
    params = VRec("params", {"has": {"gf_separator": z3.BoolVal(False)}, "val": {"gf_separator": VStr(z3.StringVal(""))}})
    rec = named_result(c, [VStr(STR_LOWER(s)), params])
    return STR_LOWER(tostr(rec.fields["label"]))


def add_headpos(reg):
    """transformconst.get_headpos_by_rule(parent_label, children_label, rules, default)"""
    from pyvc.core import spec_wsplit, STR_LOWER
    from pyvc.sym import TDict, TTuple
    LTR, RTL = z3.StringVal("left-to-right"), z3.StringVal("right-to-left")

    def rules_of(S):
        return S.rules.val(STR_LOWER(tostr(S.parent_label)))          # list of (direction, "cat cat ...")

    def nomatch_word(S, word, lo, hi):
        """no child with index in [lo, hi) has the category `word`"""
        i = z3.Int("hp_mi")
        ch = S.children_label
        return qforall([i], z3.Implies(z3.And(lo <= i, i < hi), category(reg, tostr(ch.get(i))) != word),
                       [tostr(ch.get(i))])

    def nomatch_rule(S, labs, upto):
        """none of the first `upto` categories listed in `labs` is the category of a child"""
        w = z3.Int("hp_mw")
        W = spec_wsplit(VStr(labs))
        return qforall([w], z3.Implies(z3.And(0 <= w, w < upto),
                                       nomatch_word(S, tostr(W.get(w)), 0, S.children_label.n)), [tostr(W.get(w))])

    def listed(S, i, bound):
        """the category of child i is listed in one of the first `bound` head rules of the parent's category"""
        r, w = z3.Int("hp_lr"), z3.Int("hp_lw")
        R = rules_of(S)
        labs = lambda q: tostr(R.get(q).items[1])
        return z3.Exists([r, w], z3.And(0 <= r, r < bound, 0 <= w, w < spec_wsplit(VStr(labs(r))).n,
                                        category(reg, tostr(S.children_label.get(i))) ==
                                        tostr(spec_wsplit(VStr(labs(r))).get(w))))

    def requires(S, parent_label, children_label, rules, default):
        # the head rules of this category name a known direction each
        r = z3.Int("hp_qr")
        R = rules.val(STR_LOWER(tostr(parent_label)))
        key = rules.has(STR_LOWER(tostr(parent_label)))
        return VBool(z3.Implies(tobool(key), qforall([r], z3.Implies(z3.And(0 <= r, r < R.n), z3.Or(
            tostr(R.get(r).items[0]) == LTR, tostr(R.get(r).items[0]) == RTL)), [tostr(R.get(r).items[0])])))

    def outer_inv(S):
        r = z3.Int("hp_or")
        R = rules_of(S)
        return VBool(qforall([r], z3.Implies(z3.And(0 <= r, r < toint(S.it)), z3.And(
            z3.Length(tostr(R.get(r).items[1])) > 0,
            nomatch_rule(S, tostr(R.get(r).items[1]), spec_wsplit(R.get(r).items[1]).n))),
            [tostr(R.get(r).items[1])]))

    def middle_inv(S):
        return VBool(nomatch_rule(S, tostr(S.hrule.items[1]), toint(S.it)))

    def ltr_inv(S):
        return VBool(nomatch_word(S, tostr(S.label), 0, toint(S.it)))

    def rtl_inv(S):
        n = S.children_label.n
        return VBool(nomatch_word(S, tostr(S.label), n - toint(S.it), n))

    def post(S, parent_label, children_label, rules, default, result):
        """e: the index of the first rule with an empty priority list (such a rule ends the search), or the number of
        rules.  Among the rules before e: the only listed child is the head; if several are listed the head is one of
        them; if none is listed the head is the last / first child as the empty rule's direction says, or the first
        child when there is no empty rule."""
        i0, i, e, r = (z3.Int("hp_" + x) for x in ("pi", "pj", "pe", "pr"))
        key = tobool(rules.has(STR_LOWER(tostr(parent_label))))
        R = rules.val(STR_LOWER(tostr(parent_label)))
        labs = lambda q: tostr(R.get(q).items[1])
        n = children_label.n
        res = toint(result)
        is_e = z3.And(0 <= e, e <= R.n, z3.ForAll([r], z3.Implies(z3.And(0 <= r, r < e), z3.Length(labs(r)) > 0)),
                      z3.Implies(e < R.n, z3.Length(labs(e)) == 0))
        fallback = z3.If(e == R.n, 0, z3.If(tostr(R.get(e).items[0]) == LTR, n - 1, 0))
        return VBool(z3.And(
            z3.Implies(z3.Not(key), res == toint(default)),
            # always one of: a child index, the first, the last child
            z3.Implies(key, z3.Or(res == 0, res == n - 1, z3.And(0 <= res, res < n))),
            z3.ForAll([e], z3.Implies(z3.And(key, is_e), z3.And(
                z3.ForAll([i0], z3.Implies(
                    z3.And(0 <= i0, i0 < n, listed(S, i0, e),
                           z3.ForAll([i], z3.Implies(z3.And(0 <= i, i < n, i != i0), z3.Not(listed(S, i, e))))),
                    res == i0)),
                z3.Implies(z3.Exists([i], z3.And(0 <= i, i < n, listed(S, i, e))),
                           z3.And(0 <= res, res < n, listed(S, res, e))),
                z3.Implies(z3.ForAll([i], z3.Implies(z3.And(0 <= i, i < n), z3.Not(listed(S, i, e)))),
                           res == fallback))))))

    reg.add(Contract(
        target="trees.transformconst.get_headpos_by_rule", prop="C15",
        args=dict(parent_label=STR, children_label=TList(STR), rules=TDict(TList(TTuple(STR, STR))), default=INT),
        requires=requires,
        ensures={"the_only_listed_child_is_the_head": post}, result_type=INT,
        loops={0: dict(inv=outer_inv), 1: dict(inv=middle_inv), 2: dict(inv=ltr_inv), 3: dict(inv=rtl_inv)},
        solver_hints={"post.": {"cli_s": 30}},
    ))


def build(reg):
    from contracts import c20
    c20.build(reg)                        # parse_label (proved under C20) is called by get_headpos_by_rule
    add_common(reg)
    add_headpos(reg)
    add_mark_heads_by_rules(reg)

    def requires(S, tree, params):
        H = S.H
        x = z3.Int(fresh_name("rx"))
        return conj(WF(H, tree), tree != None, wf_theory(H), VBool(H.parent_t(tree.t) == 0),
                    # every node has an edge entry, and head_index is what its definition says
                    VBool(z3.ForAll([x], z3.Implies(tobool(WF(H, VRef(x))), H.has(VRef(x), "edge").t))),
                    VBool(qforall([x], z3.Implies(z3.And(tobool(WF(H, VRef(x))), H.nchild_t(x) > 0),
                                                  head_index_def(H, VRef(x))), [head_index(H, VRef(x))])))

    def untouched_outside(H1, H0, inside):
        """the head flag of every node for which `inside` is false is as in H0"""
        x = z3.Int(fresh_name("ux"))
        return z3.ForAll([x], z3.Implies(z3.Not(inside(x)), z3.And(
            z3.Select(H1.f["has_head"], x) == z3.Select(H0.f["has_head"], x),
            z3.Select(H1.f["val_head"], x) == z3.Select(H0.f["val_head"], x))))

    def outer_inv(S):
        H, tree, it = S.H, S.tree, toint(S.it)
        P = H.pre(tree)
        k = z3.Int(fresh_name("ok"))
        return conj(
            VBool(z3.And(H.has(tree, "head").t, z3.Not(H.data(tree, "head").t))),
            VBool(qforall([k], z3.Implies(z3.And(0 <= k, k < it, H.nchild_t(P.get(k).t) > 0), marked(H, P.get(k))),
                          [P.get(k).t])))

    def inner_inv(S):
        H, sub, idx, it = S.H, S.subtree, toint(S.index), toint(S.it)
        C = H.ochildren(sub)
        j = z3.Int(fresh_name("ij"))
        Hh = S.pre.H          # heap at the inner loop head
        return conj(
            VBool(z3.And(H.has(C.get(idx), "head").t, H.data(C.get(idx), "head").t)),
            VBool(qforall([j], z3.Implies(z3.And(0 <= j, j < it, j != idx),
                                          z3.And(H.has(C.get(j), "head").t, z3.Not(H.data(C.get(j), "head").t))),
                          [C.get(j).t])),
            VBool(untouched_outside(H, Hh, lambda x: z3.And(H.parent_t(x) == sub.t, x != 0))))

    def post(S, tree, params, result):
        H = S.H
        p = z3.Int(fresh_name("pp"))
        return VBool(z3.And(
            result.t == tree.t,
            H.has(tree, "head").t, z3.Not(H.data(tree, "head").t),
            z3.ForAll([p], z3.Implies(z3.And(tobool(WF(H, VRef(p))), tobool(desc(H, tree, VRef(p))),
                                             H.nchild_t(p) > 0), marked(H, VRef(p))))))

    reg.add(Contract(
        target="trees.transform.negra_mark_heads", prop="C15", args=dict(tree=REF), params={},
        requires=requires, modifies=HEAD,
        ensures={"one_head_per_constituent_as_the_heuristic_says": post},
        result_type=REF,
        solver_hints={"inv0.keep": {"cli_s": 60}, "post.": {"cli_s": 30}, "safe.": {"cli_s": 20}},
        loops={0: dict(inv=outer_inv), 1: dict(inv=inner_inv)},
    ))


# ----------------------------------------------------------------------------------------------------------------------
# mark_heads_by_rules: preset selection (ValueError otherwise), then for every constituent exactly the child that
# get_headpos_by_rule names (over its proved contract) is marked
# ----------------------------------------------------------------------------------------------------------------------
HPW = z3.Function("headpos_witness", z3.IntSort(), z3.BoolSort())      # trigger carrier (always true)


def add_mark_heads_by_rules(reg):
    from pyvc.core import named_result
    from pyvc.sym import VRec, VList, TDict, TTuple
    from pyvc import sym
    RULES_T = TDict(TList(TTuple(STR, STR)))
    hp = reg.get("trees.transformconst.get_headpos_by_rule")
    pl = reg.get("trees.trees.parse_label")
    NOPARAMS = VRec("params", {"has": {"gf_separator": z3.BoolVal(False)}, "val": {"gf_separator": VStr(z3.StringVal(""))}})

    def plabel(H, x):
        """trees.parse_label(x.data['label']).label"""
        return named_result(pl, [VStr(z3.Select(H.f["val_label"], x.t)), NOPARAMS]).fields["label"]

    def table(S, rules):
        """the rule table the run uses, as a symbolic dict"""
        if isinstance(rules, dict) and rules:
            return sym.dict_abstract(rules, RULES_T.vt)[0] if len(rules) > 4 else sym.dict_from_concrete(rules, RULES_T.vt)
        if isinstance(rules, sym.VDict):
            return rules
        return sym.VDict(STR, RULES_T.vt, lambda k_: VBool(z3.BoolVal(False)),
                         lambda k_: sym.fresh(RULES_T.vt, "empty_dict_val"))

    def table_id(rules):
        import hashlib
        if isinstance(rules, dict) and rules:
            return hashlib.sha1(repr(sorted(rules.items())).encode("utf-8")).hexdigest()[:8]
        return "empty"

    def allowed_pred(H, rules):
        """ALLOWED(p, hd): position hd is one get_headpos_by_rule's contract allows for (category of p, categories of
        its ordered children, this rule table) -- an uninterpreted predicate; its definition (allowed_def) is part of
        the precondition.  Keeping the large quantified clause behind a name keeps the invariants small."""
        args = H._shape_args() + [H.f["val_label"]]
        f = z3.Function("ALLOWED_" + table_id(rules), *([a.sort() for a in args] + [z3.IntSort(), z3.IntSort(),
                                                                                   z3.BoolSort()]))
        return lambda p, hd: f(*(args + [p, hd]))

    def allowed_formula(S, H, p, hd, rules):
        C = H.ochildren(p)
        labels = VList(C.n, get=lambda i: plabel(H, C.get(i)), et=STR)

        class S2(object):
            pass
        S2.H = H
        S2.parent_label, S2.children_label, S2.rules = plabel(H, p), labels, table(S, rules)
        return tobool(hp.ensures["the_only_listed_child_is_the_head"](S2, S2.parent_label, labels, S2.rules,
                                                                        VInt(z3.IntVal(0)), VInt(hd)))

    def allowed_def(S, H, rules):
        p, hd = z3.Int("ad_p"), z3.Int("ad_hd")
        A = allowed_pred(H, rules)
        return z3.ForAll([p, hd], A(p, hd) == allowed_formula(S, H, VRef(p), hd, rules), patterns=[A(p, hd)])

    def marked_rel(S, H, p, rules):
        """exactly one child of p is marked, every other child is marked as non-head, and the marked child is a
        position get_headpos_by_rule's contract allows for (category of p, categories of its children, rules)"""
        C = H.ochildren(p)
        hd, j = z3.Int("mr_hd"), z3.Int("mr_j")       # fixed names: two instances of this clause are the same term
        flags = qforall([j], z3.Implies(z3.And(0 <= j, j < C.n),
                                        z3.And(H.has(C.get(j), "head").t, H.data(C.get(j), "head").t == (j == hd))),
                        [C.get(j).t])
        return z3.Exists([hd], z3.And(HPW(hd), 0 <= hd, hd < C.n, allowed_pred(H, rules)(p.t, hd), flags),
                         patterns=[HPW(hd)])

    def rule_tables(S):
        repo = S._ex.repo
        return [repo.constant("transformconst", "HEAD_RULES_NEGRA"), repo.constant("transformconst", "HEAD_RULES_PTB"), []]

    def requires(S, tree, params):
        H = S.H
        x = z3.Int(fresh_name("rx"))
        lab_ok = lambda r: z3.And(z3.Select(H.f["has_label"], r), z3.Not(z3.Select(H.f["none_label"], r)))
        w = z3.Int(fresh_name("hw"))
        return conj(WF(H, tree), tree != None, wf_theory(H), VBool(H.parent_t(tree.t) == 0),
                    VBool(z3.ForAll([w], HPW(w), patterns=[HPW(w)])),        # definition: HPW is the constant true
                    # definition of ALLOWED for the three tables a run can use
                    VBool(z3.And(*[allowed_def(S, H, r_) for r_ in rule_tables(S)])),
                    VBool(qforall([x], z3.Implies(tobool(WF(H, VRef(x))), lab_ok(x)),
                                  [z3.Select(H.f["val_label"], x)])))

    def raises_value_error(S, tree, params):
        has, val = params.fields["has"], params.fields["val"]
        preset = tostr(val["mark_heads_preset"])
        return VBool(z3.Or(
            z3.And(has["mark_heads_preset"], has["mark_heads_rulefile"]),
            z3.And(has["mark_heads_preset"], preset != z3.StringVal("negra"), preset != z3.StringVal("ptb")),
            z3.And(z3.Not(has["mark_heads_preset"]), has["mark_heads_rulefile"],
                   z3.Length(tostr(val["mark_heads_rulefile"])) != 0),
            z3.And(z3.Not(has["mark_heads_preset"]), z3.Not(has["mark_heads_rulefile"]))))

    def untouched_outside(H1, H0, inside):
        x = z3.Int(fresh_name("ux"))
        return z3.ForAll([x], z3.Implies(z3.Not(inside(x)), z3.And(
            z3.Select(H1.f["has_head"], x) == z3.Select(H0.f["has_head"], x),
            z3.Select(H1.f["val_head"], x) == z3.Select(H0.f["val_head"], x))))

    def outer_inv(S):
        H, tree, it = S.H, S.tree, toint(S.it)
        P = H.pre(tree)
        k = z3.Int(fresh_name("ok"))
        rules = S.final("rules")
        return conj(
            VBool(z3.And(H.has(tree, "head").t, z3.Not(H.data(tree, "head").t))),
            VBool(qforall([k], z3.Implies(z3.And(0 <= k, k < it, H.nchild_t(P.get(k).t) > 0),
                                          marked_rel(S, H, P.get(k), rules)), [P.get(k).t])))

    def comp_inv(S):
        # the list comprehension over the children: nothing to maintain beyond what the executor tracks
        return VBool(z3.BoolVal(True))

    def inner_inv(S):
        H, sub, it, hd = S.H, S.subtree, toint(S.it), toint(S.headpos)
        C = H.ochildren(sub)
        j = z3.Int(fresh_name("ij"))
        Hh = S.pre.H
        return conj(
            VBool(HPW(hd)),
            VBool(qforall([j], z3.Implies(z3.And(0 <= j, j < it),
                                          z3.And(H.has(C.get(j), "head").t, H.data(C.get(j), "head").t == (j == hd))),
                          [C.get(j).t])),
            VBool(untouched_outside(H, Hh, lambda x: z3.And(H.parent_t(x) == sub.t, x != 0))))

    def after_marking(S):
        """ghost assertions after the marking loop: (1) this constituent is marked as the rules say, (2) the
        constituents visited earlier still are (their children are not children of this one)"""
        H, tree, sub = S.H, S.tree, S.subtree
        P = H.pre(tree)
        k = z3.Int(fresh_name("ak"))
        rules = S.final("rules")
        return VBool(z3.And(
            marked_rel(S, H, sub, rules),
            qforall([k], z3.Implies(z3.And(0 <= k, k < H.pre_idx(tree, sub).t, H.nchild_t(P.get(k).t) > 0),
                                    marked_rel(S, H, P.get(k), rules)), [P.get(k).t])))

    def post(S, tree, params, result):
        """stated over the preorder positions P(tree)[k]; by the (verified) contract of preorder these are exactly
        the nodes below tree"""
        H = S.H
        k = z3.Int(fresh_name("pk"))
        P = H.pre(tree)
        has, val = params.fields["has"], params.fields["val"]
        preset = tostr(val["mark_heads_preset"])
        negra, ptb, none = rule_tables(S)
        # which table the parameters select: preset 'negra' / 'ptb', or no rules at all for an empty rule file name
        chosen = [(z3.And(has["mark_heads_preset"], preset == z3.StringVal("negra")), negra),
                  (z3.And(has["mark_heads_preset"], preset == z3.StringVal("ptb")), ptb),
                  (z3.Not(has["mark_heads_preset"]), none)]
        return VBool(z3.And(
            result.t == tree.t,
            H.has(tree, "head").t, z3.Not(H.data(tree, "head").t),
            *[z3.Implies(cond, qforall([k], z3.Implies(z3.And(0 <= k, k < P.n, H.nchild_t(P.get(k).t) > 0),
                                                      marked_rel(S, H, P.get(k), tbl)), [P.get(k).t]))
              for cond, tbl in chosen]))

    reg.add(Contract(
        target="trees.transform.mark_heads_by_rules", prop="C15", args=dict(tree=REF),
        params=dict(mark_heads_preset=STR, mark_heads_rulefile=STR),
        requires=requires, modifies=HEAD, raises={"ValueError": raises_value_error},
        ensures={"one_head_per_constituent_where_the_rules_say": post},
        result_type=REF,
        solver_hints={"inv0.keep": {"cli_s": 60}, "post.": {"cli_s": 30}, "safe.": {"cli_s": 20},
                      "pre@": {"cli_s": 30}},
        loops={0: dict(inv=outer_inv),
               1: dict(inv=inner_inv,
                       # ghost assertion after the marking loop: this constituent is marked as the rules say
                       after=after_marking)},
    ))
