"""C15 -- negra_mark_heads under contract: every constituent gets exactly the head child the NeGra heuristic names."""
import z3
from pyvc.core import Contract
from pyvc.sym import (VInt, VBool, VStr, VRef, VOpt, INT, BOOL, STR, REF, TList, TOpt, conj, disj, neg, ite, implies,
                      length, tobool, toint, tostr, fresh_name, qforall)
from contracts.common import add_common, WF, wf_theory, desc, preorder_facts

VERIFY = ["trees.transform.negra_mark_heads"]
SHARDS = {"trees.transform.negra_mark_heads": 8}
TRUSTED = ["contracts of trees.preorder / trees.children used at call sites (both verified under C19); wf_theory"]
ASSUMPTIONS = ["every node carries an 'edge' entry (value may be None); Tree heap model of DESIGN 3.3"]

HEAD = ["has_head", "val_head"]


def edge_is(H, x, lab):
    e = H.data(x, "edge")
    return z3.And(z3.Not(e.isnone), e.val.t == z3.StringVal(lab))


def head_index(H, p):
    """index (in the ordered child list C(p)) of the child the NeGra heuristic selects: the leftmost child with
    edge HD, else the rightmost child with edge NK, else the leftmost child"""
    C = H.ochildren(p)
    args = H._shape_args() + [H.f["none_edge"], H.f["val_edge"]]
    f = z3.Function("negra_head_index", *([a.sort() for a in args] + [z3.IntSort(), z3.IntSort()]))
    return f(*(args + [p.t]))


def head_index_def(H, p):
    """defining property of head_index(p) (a definitional extension)"""
    C = H.ochildren(p)
    n = C.n
    h = head_index(H, p)
    j = z3.Int(fresh_name("hj"))
    is_hd = lambda q: edge_is(H, C.get(q), "HD")
    is_nk = lambda q: edge_is(H, C.get(q), "NK")
    some_hd = z3.Exists([j], z3.And(0 <= j, j < n, is_hd(j)))
    some_nk = z3.Exists([j], z3.And(0 <= j, j < n, is_nk(j)))
    return z3.And(0 <= h, h < n,
                  z3.Implies(some_hd, z3.And(is_hd(h), z3.ForAll([j], z3.Implies(z3.And(0 <= j, j < h), z3.Not(is_hd(j)))))),
                  z3.Implies(z3.And(z3.Not(some_hd), some_nk),
                             z3.And(is_nk(h), z3.ForAll([j], z3.Implies(z3.And(h < j, j < n), z3.Not(is_nk(j)))))),
                  z3.Implies(z3.And(z3.Not(some_hd), z3.Not(some_nk)), h == 0))


def marked(H, p):
    """exactly the selected child of p is marked as head, every other child as non-head"""
    C = H.ochildren(p)
    j = z3.Int(fresh_name("mj"))
    h = head_index(H, p)
    return qforall([j], z3.Implies(z3.And(0 <= j, j < C.n),
                                   z3.And(H.has(C.get(j), "head").t, H.data(C.get(j), "head").t == (j == h))),
                   [C.get(j).t])


def build(reg):
    add_common(reg)

    def requires(S, tree, params):
        H = S.H
        x = z3.Int(fresh_name("rx"))
        return conj(WF(H, tree), tree != None, wf_theory(H), VBool(H.parent_t(tree.t) == 0),
                    # every node has an edge entry, and head_index is what its definition says
                    VBool(z3.ForAll([x], z3.Implies(tobool(WF(H, VRef(x))), H.has(VRef(x), "edge").t))),
                    VBool(qforall([x], z3.Implies(z3.And(tobool(WF(H, VRef(x))), H.nchild_t(x) > 0),
                                                  head_index_def(H, VRef(x))), [head_index(H, VRef(x))])))

    def untouched_outside(H1, H0, inside):
        """the head flag of every node for which `inside` is false is as in H0"""
        x = z3.Int(fresh_name("ux"))
        return z3.ForAll([x], z3.Implies(z3.Not(inside(x)), z3.And(
            z3.Select(H1.f["has_head"], x) == z3.Select(H0.f["has_head"], x),
            z3.Select(H1.f["val_head"], x) == z3.Select(H0.f["val_head"], x))))

    def outer_inv(S):
        H, tree, it = S.H, S.tree, toint(S.it)
        P = H.pre(tree)
        k = z3.Int(fresh_name("ok"))
        return conj(
            VBool(z3.And(H.has(tree, "head").t, z3.Not(H.data(tree, "head").t))),
            VBool(qforall([k], z3.Implies(z3.And(0 <= k, k < it, H.nchild_t(P.get(k).t) > 0), marked(H, P.get(k))),
                          [P.get(k).t])))

    def inner_inv(S):
        H, sub, idx, it = S.H, S.subtree, toint(S.index), toint(S.it)
        C = H.ochildren(sub)
        j = z3.Int(fresh_name("ij"))
        Hh = S.pre.H          # heap at the inner loop head
        return conj(
            VBool(z3.And(H.has(C.get(idx), "head").t, H.data(C.get(idx), "head").t)),
            VBool(qforall([j], z3.Implies(z3.And(0 <= j, j < it, j != idx),
                                          z3.And(H.has(C.get(j), "head").t, z3.Not(H.data(C.get(j), "head").t))),
                          [C.get(j).t])),
            VBool(untouched_outside(H, Hh, lambda x: z3.And(H.parent_t(x) == sub.t, x != 0))))

    def post(S, tree, params, result):
        H = S.H
        p = z3.Int(fresh_name("pp"))
        return VBool(z3.And(
            result.t == tree.t,
            H.has(tree, "head").t, z3.Not(H.data(tree, "head").t),
            z3.ForAll([p], z3.Implies(z3.And(tobool(WF(H, VRef(p))), tobool(desc(H, tree, VRef(p))),
                                             H.nchild_t(p) > 0), marked(H, VRef(p))))))

    reg.add(Contract(
        target="trees.transform.negra_mark_heads", prop="C15", args=dict(tree=REF), params={},
        requires=requires, modifies=HEAD,
        ensures={"one_head_per_constituent_as_the_heuristic_says": post},
        result_type=REF,
        solver_hints={"inv0.keep": {"cli_s": 60}, "post.": {"cli_s": 30}, "safe.": {"cli_s": 20}},
        loops={0: dict(inv=outer_inv), 1: dict(inv=inner_inv)},
    ))
