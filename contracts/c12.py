"""C12 -- root_attach: the callee-level facts the code relies on, over the contracts of lca / the mover step.

 * lemma target_exists: for two distinct tokens of one tree, lca(a, b) is a node (never None), it dominates both
   and is a constituent (has children) -- so `target.children.append(child)` in root_attach is safe and the target
   spans both neighbours;
 * lemma target_not_below_child: that target is neither the moved child nor below it (the left neighbour lies outside
   the child's yield, by completeness and order of terminals), so re-attaching creates no cycle;
 * the mover step of root_attach as a block contract (shared with C04).
"""
import z3
from pyvc.heap import Heap
from pyvc.sym import VRef, VBool, VInt, tobool, fresh_name
from contracts.common import add_common, WF, wf_theory, desc
from contracts.mover import lemma_mover

VERIFY = []
TRUSTED = ["contract of trees.lca (proved under C19) and wf_theory (see C19)"]
ASSUMPTIONS = ["the two neighbours handed to lca are distinct tokens of the same well-formed tree",
               "target_not_below_child: tokens are numbered 1..n (well-formedness of reader output), so the token the code "
               "picks as left neighbour is the one numbered one less than the moved child's least token"]


def build(reg):
    add_common(reg)
    from contracts import c19
    c19.build(reg)


def lemma_target_exists(reg, repo):
    H = Heap.fresh("L")
    a, b, r = VRef(z3.Int("ta")), VRef(z3.Int("tb")), VRef(z3.Int("tr"))
    c = reg.get("trees.trees.lca")

    class S(object):
        pass
    S.H = H
    S.old = H
    an = lambda y, q: H.anc(y, VInt(q)).t
    da, db = H.depth(a).t, H.depth(b).t
    hyp = [tobool(c.requires(S, a, b)), tobool(c.ensures["lowest_common_dominator"](S, a, b, r)),
           a.t != b.t, H.nchild_t(a.t) == 0, H.nchild_t(b.t) == 0] + H.typing()
    # step 1: a token dominates only itself (a proper descendant hangs below one of its children)
    step1 = z3.And(z3.Not(tobool(desc(H, a, b))), z3.Not(tobool(desc(H, b, a))))
    # ground instances of wf_theory clause (5) at the depth just below a / b, to make step 1 first-order obvious
    inst = [z3.Implies(z3.And(da < db, an(b, da) == a.t), H.parent_t(an(b, da + 1)) == a.t),
            z3.Implies(z3.And(db < da, an(a, db) == b.t), H.parent_t(an(a, db + 1)) == b.t)]
    return [
        ("anc_step_a", hyp + [da < db, an(b, da) == a.t], H.parent_t(an(b, da + 1)) == a.t),
        ("anc_step_b", hyp + [db < da, an(a, db) == b.t], H.parent_t(an(a, db + 1)) == b.t),
        ("tokens_do_not_dominate_each_other", hyp + inst, step1),
        ("lca_is_a_node", hyp + [step1], r.t != 0),
        ("lca_dominates_both_and_is_a_constituent", hyp + [step1, r.t != 0],
         z3.And(tobool(desc(H, r, a)), tobool(desc(H, r, b)), r.t != a.t, r.t != b.t)),
    ]


def lemma_target_not_below_child(reg, repo):
    """no cycle: the target of a re-attachment (the lca of the token left of the moved child's leftmost token and a
    token right of its rightmost token) is not the moved child and does not lie below it.  Over the contracts of
    terminals (complete, ordered) and lca; the code picks the left neighbour as tree_terms[min(term_ind) - 2], i.e. (tokens
    being numbered 1..n) the token whose number is one less than the child's least token number."""
    from contracts.common import terms_facts, T_idx
    H = Heap.fresh("L")
    child, a, r = VRef(z3.Int("nc")), VRef(z3.Int("na")), VRef(z3.Int("nr"))
    an = lambda y, q: H.anc(y, VInt(q)).t
    dc, dr, da = H.depth(child).t, H.depth(r).t, H.depth(a).t
    T = H.terms(child)
    hyp = [tobool(wf_theory(H)), tobool(WF(H, child)), tobool(WF(H, a)), tobool(WF(H, r)), child.t != 0, a.t != 0,
           r.t != 0, H.nchild_t(a.t) == 0, tobool(terms_facts(H, child)),
           # a carries a smaller number than the leftmost token of child
           H.num(a).t < H.num(T.get(0)).t,
           # what lca guarantees about its result
           tobool(desc(H, r, a))] + H.typing()
    outside = z3.Not(tobool(desc(H, child, a)))
    # ground instance of the proved lemma anc_anc (C19) at (x := a, d := depth r, k := depth child)
    inst = z3.Implies(z3.And(0 <= dc, dc <= dr, dr <= da), an(VRef(an(a, dr)), dc) == an(a, dc))
    i = T_idx(H, child, a).t
    return [
        # if a were below child it would be one of child's tokens (completeness), hence not left of the leftmost one
        ("left_neighbour_is_outside_the_child", hyp + [z3.Int("n_ia") == i], outside),
        ("depths_nonneg", hyp, z3.And(dc >= 0, dr >= 0, da >= 0)),
        ("target_is_not_at_or_below_the_child", hyp + [outside, inst, dc >= 0, dr >= 0, da >= 0],
         z3.Not(tobool(desc(H, child, r)))),
        # the root keeps a child: the left neighbour hangs below another child of the root
        ("root_keeps_another_child", hyp + [outside, H.parent_t(child.t) != 0, H.depth(VRef(H.parent_t(child.t))).t == 0,
                                            an(a, 0) == H.parent_t(child.t), da >= 1],
         H.nchild_t(H.parent_t(child.t)) >= 2),
    ]


LEMMAS = {"target_exists": lemma_target_exists, "target_not_below_child": lemma_target_not_below_child,
          "mover.root_attach": lemma_mover("trees.transform.root_attach")}
