"""C12 -- root_attach: the callee-level facts the code relies on, over the contracts of lca / the mover step.

 * lemma target_exists: for two distinct tokens of one tree, lca(a, b) is a node (never None), it dominates both
   and is a constituent (has children) -- so `target.children.append(child)` in root_attach is safe and the target
   spans both neighbours;
 * the mover step of root_attach as a block contract (shared with C04).
"""
import z3
from pyvc.heap import Heap
from pyvc.sym import VRef, VBool, VInt, tobool, fresh_name
from contracts.common import add_common, WF, wf_theory, desc
from contracts.mover import lemma_mover

VERIFY = []
TRUSTED = ["contract of trees.lca (proved under C19) and wf_theory (see C19)"]
ASSUMPTIONS = ["the two neighbours handed to lca are distinct tokens of the same well-formed tree"]


def build(reg):
    add_common(reg)
    from contracts import c19
    c19.build(reg)


def lemma_target_exists(reg, repo):
    H = Heap.fresh("L")
    a, b, r = VRef(z3.Int("ta")), VRef(z3.Int("tb")), VRef(z3.Int("tr"))
    c = reg.get("trees.trees.lca")

    class S(object):
        pass
    S.H = H
    S.old = H
    an = lambda y, q: H.anc(y, VInt(q)).t
    da, db = H.depth(a).t, H.depth(b).t
    hyp = [tobool(c.requires(S, a, b)), tobool(c.ensures["lowest_common_dominator"](S, a, b, r)),
           a.t != b.t, H.nchild_t(a.t) == 0, H.nchild_t(b.t) == 0] + H.typing()
    # step 1: a token dominates only itself (a proper descendant hangs below one of its children)
    step1 = z3.And(z3.Not(tobool(desc(H, a, b))), z3.Not(tobool(desc(H, b, a))))
    # ground instances of wf_theory clause (5) at the depth just below a / b, to make step 1 first-order obvious
    inst = [z3.Implies(z3.And(da < db, an(b, da) == a.t), H.parent_t(an(b, da + 1)) == a.t),
            z3.Implies(z3.And(db < da, an(a, db) == b.t), H.parent_t(an(a, db + 1)) == b.t)]
    return [
        ("anc_step_a", hyp + [da < db, an(b, da) == a.t], H.parent_t(an(b, da + 1)) == a.t),
        ("anc_step_b", hyp + [db < da, an(a, db) == b.t], H.parent_t(an(a, db + 1)) == b.t),
        ("tokens_do_not_dominate_each_other", hyp + inst, step1),
        ("lca_is_a_node", hyp + [step1], r.t != 0),
        ("lca_dominates_both_and_is_a_constituent", hyp + [step1, r.t != 0],
         z3.And(tobool(desc(H, r, a)), tobool(desc(H, r, b)), r.t != a.t, r.t != b.t)),
    ]


LEMMAS = {"target_exists": lemma_target_exists, "mover.root_attach": lemma_mover("trees.transform.root_attach")}
