"""C12 -- root_attach: the callee-level facts the code relies on, over the contracts of lca / the mover step.

 * lemma target_exists: for two distinct tokens of one tree, lca(a, b) is a node (never None), it dominates both
   and is a constituent (has children) -- so `target.children.append(child)` in root_attach is safe and the target
   spans both neighbours;
 * lemma target_not_below_child: that target is neither the moved child nor below it (the left neighbour lies outside
   the child's yield, by completeness and order of terminals), so re-attaching creates no cycle;
 * the mover step of root_attach as a block contract (shared with C04).
"""
import z3
from pyvc.heap import Heap
from pyvc.sym import VRef, VBool, VInt, tobool, fresh_name
from contracts.common import add_common, WF, wf_theory, desc
from contracts.mover import lemma_mover

VERIFY = []
TRUSTED = ["contract of trees.lca (proved under C19) and wf_theory (see C19)"]
ASSUMPTIONS = ["the two neighbours handed to lca are distinct tokens of the same well-formed tree",
               "target_not_below_child: tokens are numbered 1..n (well-formedness of reader output), so the token the code "
               "picks as left neighbour is the one numbered one less than the moved child's least token"]


def build(reg):
    add_common(reg)
    from contracts import c19
    c19.build(reg)


def lemma_target_exists(reg, repo):
    H = Heap.fresh("L")
    a, b, r = VRef(z3.Int("ta")), VRef(z3.Int("tb")), VRef(z3.Int("tr"))
    c = reg.get("trees.trees.lca")

    class S(object):
        pass
    S.H = H
    S.old = H
    an = lambda y, q: H.anc(y, VInt(q)).t
    da, db = H.depth(a).t, H.depth(b).t
    hyp = [tobool(c.requires(S, a, b)), tobool(c.ensures["lowest_common_dominator"](S, a, b, r)),
           a.t != b.t, H.nchild_t(a.t) == 0, H.nchild_t(b.t) == 0] + H.typing()
    # step 1: a token dominates only itself (a proper descendant hangs below one of its children)
    step1 = z3.And(z3.Not(tobool(desc(H, a, b))), z3.Not(tobool(desc(H, b, a))))
    # ground instances of wf_theory clause (5) at the depth just below a / b, to make step 1 first-order obvious
    inst = [z3.Implies(z3.And(da < db, an(b, da) == a.t), H.parent_t(an(b, da + 1)) == a.t),
            z3.Implies(z3.And(db < da, an(a, db) == b.t), H.parent_t(an(a, db + 1)) == b.t)]
    return [
        ("anc_step_a", hyp + [da < db, an(b, da) == a.t], H.parent_t(an(b, da + 1)) == a.t),
        ("anc_step_b", hyp + [db < da, an(a, db) == b.t], H.parent_t(an(a, db + 1)) == b.t),
        ("tokens_do_not_dominate_each_other", hyp + inst, step1),
        ("lca_is_a_node", hyp + [step1], r.t != 0),
        ("lca_dominates_both_and_is_a_constituent", hyp + [step1, r.t != 0],
         z3.And(tobool(desc(H, r, a)), tobool(desc(H, r, b)), r.t != a.t, r.t != b.t)),
    ]


def lemma_target_not_below_child(reg, repo):
    """no cycle: the target of a re-attachment (the lca of the token left of the moved child's leftmost token and a
    token right of its rightmost token) is not the moved child and does not lie below it.  Over the contracts of
    terminals (complete, ordered) and lca; the code picks the left neighbour as tree_terms[min(term_ind) - 2], i.e. (tokens
    being numbered 1..n) the token whose number is one less than the child's least token number."""
    from contracts.common import terms_facts, T_idx
    H = Heap.fresh("L")
    child, a, r = VRef(z3.Int("nc")), VRef(z3.Int("na")), VRef(z3.Int("nr"))
    an = lambda y, q: H.anc(y, VInt(q)).t
    dc, dr, da = H.depth(child).t, H.depth(r).t, H.depth(a).t
    T = H.terms(child)
    hyp = [tobool(wf_theory(H)), tobool(WF(H, child)), tobool(WF(H, a)), tobool(WF(H, r)), child.t != 0, a.t != 0,
           r.t != 0, H.nchild_t(a.t) == 0, tobool(terms_facts(H, child)),
           # a carries a smaller number than the leftmost token of child
           H.num(a).t < H.num(T.get(0)).t,
           # what lca guarantees about its result
           tobool(desc(H, r, a))] + H.typing()
    outside = z3.Not(tobool(desc(H, child, a)))
    # ground instance of the proved lemma anc_anc (C19) at (x := a, d := depth r, k := depth child)
    inst = z3.Implies(z3.And(0 <= dc, dc <= dr, dr <= da), an(VRef(an(a, dr)), dc) == an(a, dc))
    i = T_idx(H, child, a).t
    return [
        # if a were below child it would be one of child's tokens (completeness), hence not left of the leftmost one
        ("left_neighbour_is_outside_the_child", hyp + [z3.Int("n_ia") == i], outside),
        ("depths_nonneg", hyp, z3.And(dc >= 0, dr >= 0, da >= 0)),
        ("target_is_not_at_or_below_the_child", hyp + [outside, inst, dc >= 0, dr >= 0, da >= 0],
         z3.Not(tobool(desc(H, child, r)))),
        # the root keeps a child: the left neighbour hangs below another child of the root
        ("root_keeps_another_child", hyp + [outside, H.parent_t(child.t) != 0, H.depth(VRef(H.parent_t(child.t))).t == 0,
                                            an(a, 0) == H.parent_t(child.t), da >= 1],
         H.nchild_t(H.parent_t(child.t)) >= 2),
    ]


LEMMAS = {"target_exists": lemma_target_exists, "target_not_below_child": lemma_target_not_below_child,
          "mover.root_attach": lemma_mover("trees.transform.root_attach")}


# ----------------------------------------------------------------------------------------------------------------------
# root_attach, the right-boundary loop (from `focus = child` to the end of `while sibling != None`): walking over the
# root's children right of `child` in order of their least token,
#     a sibling that starts left of the current right edge is skipped (interleaved with the focus),
#     a sibling that starts more than one token beyond the edge ends the walk,
#     otherwise the sibling is absorbed: the edge moves to its last token.
# Stated with the ghost sequences EDGE(k) / DONE(k) (state before looking at the k-th ordered child), defined by
# primitive recursion exactly as the rule above; the block proves t_r == EDGE(k) + 1 at every loop head and, with the
# lemma edge_frozen (once DONE, the edge no longer moves; induction), t_r == EDGE(n) + 1 at the exit.
# ----------------------------------------------------------------------------------------------------------------------
def _edge_theory(H, tree, c0):
    """(EDGE, DONE, definitional facts) for the walk that starts at the ordered child number c0"""
    from pyvc.sym import qforall
    C = H.ochildren(tree)
    EDGE = z3.Function("ra_edge", z3.IntSort(), z3.IntSort())
    DONE = z3.Function("ra_done", z3.IntSort(), z3.BoolSort())
    k = z3.Int(fresh_name("ek"))
    first = lambda q: H.num(H.terms(C.get(q)).get(0)).t
    last = lambda q: H.num(H.terms(C.get(q)).get(H.terms(C.get(q)).n - 1)).t
    step_e = lambda q: z3.If(z3.Or(DONE(q), first(q) < EDGE(q), first(q) > EDGE(q) + 1), EDGE(q), last(q))
    step_d = lambda q: z3.Or(DONE(q), z3.And(first(q) >= EDGE(q), first(q) > EDGE(q) + 1))
    # stated backwards (EDGE(k) from EDGE(k - 1)) so that the definition is found for any term EDGE(t) / DONE(t)
    facts = [EDGE(c0 + 1) == last(c0), z3.Not(DONE(c0 + 1)),
             qforall([k], z3.Implies(z3.And(c0 + 1 < k, k <= C.n), EDGE(k) == step_e(k - 1)), [EDGE(k)]),
             qforall([k], z3.Implies(z3.And(c0 + 1 < k, k <= C.n), DONE(k) == step_d(k - 1)), [DONE(k)])]
    return EDGE, DONE, facts, first, last


def walk_step(H, tree, c0, s, quantified=False):
    from pyvc.sym import qforall
    from contracts.common import C_idx
    from contracts.c19 import right_of
    C = H.ochildren(tree)
    EDGE, DONE, facts, first, last = _edge_theory(H, tree, c0)
    k = C_idx(H, VRef(s)).t
    R = right_of(H, VRef(s)).t
    step_e = z3.If(z3.Or(DONE(k), first(k) < EDGE(k), first(k) > EDGE(k) + 1), EDGE(k), last(k))
    step_d = z3.Or(DONE(k), z3.And(first(k) >= EDGE(k), first(k) > EDGE(k) + 1))
    kn = z3.If(R == 0, C.n, C_idx(H, VRef(R)).t)
    body = z3.Implies(z3.And(tobool(WF(H, VRef(s))), H.parent_t(s) == tree.t, c0 < k, k < C.n, C.get(k).t == s),
                      z3.And(kn == k + 1, EDGE(kn) == step_e, DONE(kn) == step_d,
                             z3.Implies(R != 0, z3.And(tobool(WF(H, VRef(R))), H.parent_t(R) == tree.t, C.get(kn).t == R))))
    if quantified:
        return qforall([s], body, [C_idx(H, VRef(s)).t])
    return body


def lemma_walk_step(reg, repo):
    from contracts.common import children_facts
    H = Heap.fresh("V")
    tree, s = VRef(z3.Int("v_tree")), z3.Int("v_s")
    c0 = z3.Int("v_c0")
    EDGE, DONE, facts, first, last = _edge_theory(H, tree, c0)
    hyp = facts + [tree.t != 0, tobool(WF(H, tree)), tobool(wf_theory(H)), tobool(children_facts(H, tree))] + H.typing()
    return [("recurrence_at_the_position_of_a_root_child", hyp, walk_step(H, tree, c0, s))]


def lemma_right_boundary(reg, repo):
    import ast
    from pyvc.core import Contract, Exec, State
    from pyvc.sym import Unsupported, qforall, toint, VNone
    from contracts.common import terms_facts, children_facts, C_idx
    from contracts import c19
    add_common(reg)
    c19.build(reg)
    qual = "trees.transform.root_attach"
    info = repo.fns.get(qual)
    if info is None:
        raise Unsupported("function %s no longer exists" % qual)
    block = None
    for node in ast.walk(info.node):
        body = getattr(node, "body", None)
        if not isinstance(body, list):
            continue
        srcs = [ast.unparse(s) for s in body]
        if "focus = child" in srcs:
            i0 = srcs.index("focus = child")
            wh = [j for j in range(i0, len(body)) if isinstance(body[j], ast.While)]
            if wh:
                block = body[i0:wh[0] + 1]
    if block is None:
        raise Unsupported("the right-boundary loop of root_attach was not found (the contract no longer binds)")
    loop = block[-1]
    c = Contract(target=qual, prop="C12", args={}, loops={})
    ex = Exec(repo, reg, info, c, prefix="C12.right_boundary")
    H = Heap.fresh("R")
    st = State(heap=H)
    for t in H.typing():
        st.assume(t)
    tree, child = VRef(z3.Int(fresh_name("r_tree"))), VRef(z3.Int(fresh_name("r_child")))
    C = H.ochildren(tree)
    c0 = C_idx(H, child).t
    EDGE, DONE, facts, first, last = _edge_theory(H, tree, c0)
    t_r0 = VInt(last(c0) + 1)
    st.env.update(dict(tree=tree, child=child, t_r=t_r0))
    ex.entry_heap = H.copy()
    x = z3.Int(fresh_name("rx"))
    st.assume(z3.And(tree.t != 0, child.t != 0, tobool(WF(H, tree)), tobool(WF(H, child)), H.parent_t(child.t) == tree.t))
    st.assume(tobool(wf_theory(H)))
    st.assume(tobool(children_facts(H, tree)))
    # the contract of trees.terminals for every well-formed node (verified under C19)
    st.assume(qforall([x], z3.Implies(tobool(WF(H, VRef(x))), tobool(terms_facts(H, VRef(x)))), [tobool(WF(H, VRef(x)))]))
    for f in facts:
        st.assume(f)
    # first / last token of a node carry its least / greatest number (lemma first_last_bounds, from the order clause)
    bi = z3.Int(fresh_name("bi"))
    Tx = H.terms(VRef(x))
    st.assume(qforall([x, bi], z3.Implies(z3.And(tobool(WF(H, VRef(x))), 0 <= bi, bi < Tx.n), z3.And(
        H.num(Tx.get(0)).t <= H.num(Tx.get(bi)).t, H.num(Tx.get(bi)).t <= H.num(Tx.get(Tx.n - 1)).t)),
        [[tobool(WF(H, VRef(x))), Tx.get(bi).t]]))

    # the recurrence, instantiated at the position of a root child s, together with where its right neighbour sits
    # (consequences of the definitions above and of the tree theory: lemma walk_step proves them for a generic s)
    sq = z3.Int(fresh_name("sq"))
    st.assume(walk_step(H, tree, c0, sq, quantified=True))

    def inv(S):
        focus, sib, t_r = S.focus, S.sibling, toint(S.t_r)
        sib_t = z3.IntVal(0) if (sib is VNone or sib is None) else sib.t
        kf = C_idx(H, focus).t
        ks = z3.If(sib_t == 0, C.n, C_idx(H, VRef(sib_t)).t)
        return VBool(z3.And(
            focus.t != 0, tobool(WF(H, focus)), H.parent_t(focus.t) == tree.t, c0 <= kf, kf < ks, ks <= C.n,
            z3.Implies(sib_t != 0, z3.And(tobool(WF(H, VRef(sib_t))), H.parent_t(sib_t) == tree.t, C.get(ks).t == sib_t)),
            z3.Not(DONE(ks)), t_r == EDGE(ks) + 1, last(kf) == EDGE(ks)))

    def variant(S):
        sib = S.sibling
        sib_t = z3.IntVal(0) if (sib is VNone or sib is None) else sib.t
        return VInt(z3.If(sib_t == 0, 0, C.n - C_idx(H, VRef(sib_t)).t))

    ex.c.loops = {ex.loop_ords[id(loop)]: dict(inv=inv, variant=variant)}
    ex.obligations = []
    outs = ex._with_raises(st, ex.exec_block(block, st))
    vcs = []
    kq = z3.Int(fresh_name("fk"))
    frozen = z3.ForAll([kq], z3.Implies(z3.And(c0 < kq, kq <= C.n, DONE(kq)), EDGE(C.n) == EDGE(kq)))
    for oi, o in enumerate(outs):
        if o.kind != "normal":
            raise Unsupported("the right-boundary loop leaves by %s" % o.kind)
        vcs.append(("path%d.right_boundary_is_the_edge_of_the_walk_plus_one" % oi, list(o.st.pc) + [frozen],
                    toint(o.st.env["t_r"]) == EDGE(C.n) + 1))
    for ob in ex.obligations:
        vcs.append(("loop.%s" % ob.name.split(".", 2)[-1], list(ob.pc), ob.goal))
    return vcs


lemma_right_boundary.target = "trees.transform.root_attach"
LEMMAS["right_boundary"] = lemma_right_boundary
LEMMAS["walk_step"] = lemma_walk_step


def lemma_edge_frozen(reg, repo):
    """once the walk is done the edge no longer moves: DONE(k) -> DONE(m) and EDGE(m) == EDGE(k) for k <= m <= n
    (induction on m: base and step)"""
    H = Heap.fresh("Z")
    tree = VRef(z3.Int("z_tree"))
    c0 = z3.Int("z_c0")
    EDGE, DONE, facts, first, last = _edge_theory(H, tree, c0)
    C = H.ochildren(tree)
    k, m = z3.Ints("z_k z_m")
    hyp = facts + [c0 < k, k <= m, m < C.n, DONE(k)]
    return [("base", facts + [c0 < k, DONE(k)], z3.And(DONE(k), EDGE(k) == EDGE(k))),
            ("step", hyp + [DONE(m), EDGE(m) == EDGE(k)], z3.And(DONE(m + 1), EDGE(m + 1) == EDGE(k)))]


LEMMAS["edge_frozen"] = lemma_edge_frozen


def lemma_first_last_bounds(reg, repo):
    """from the contract of terminals (numbers strictly increasing along T(x)): the first token carries the least and
    the last token the greatest number"""
    from contracts.common import terms_facts
    H = Heap.fresh("B")
    x, i = VRef(z3.Int("b_x")), z3.Int("b_i")
    T = H.terms(x)
    hyp = [tobool(terms_facts(H, x)), 0 <= i, i < T.n]
    nm = lambda q: H.num(T.get(q)).t
    return [("first_is_least", hyp, z3.Or(i == 0, nm(0) < nm(i))),
            ("last_is_greatest", hyp, z3.Or(i == T.n - 1, nm(i) < nm(T.n - 1)))]


LEMMAS["first_last_bounds"] = lemma_first_last_bounds


# ----------------------------------------------------------------------------------------------------------------------
# root_attach, choosing the target (`if t_l < tree_min or t_r > tree_max: continue` and the call of lca): with the tokens
# numbered 1..n, a boundary beyond the sentence is skipped, otherwise the two subscripts are in range and pick the tokens
# numbered t_l and t_r -- two distinct tokens of this tree, which is what the lemmas target_exists and
# target_not_below_child assume about the arguments of lca.
# ----------------------------------------------------------------------------------------------------------------------
def lemma_neighbours(reg, repo):
    import ast
    from pyvc.core import Contract, Exec, State
    from pyvc.sym import Unsupported, qforall, toint
    from contracts.common import terms_facts
    from contracts import c19
    add_common(reg)
    c19.build(reg)
    qual = "trees.transform.root_attach"
    info = repo.fns.get(qual)
    if info is None:
        raise Unsupported("function %s no longer exists" % qual)
    block = None
    for node in ast.walk(info.node):
        body = getattr(node, "body", None)
        if not isinstance(body, list):
            continue
        for i, s in enumerate(body):
            if isinstance(s, ast.Assign) and ast.unparse(s.targets[0]) == "target" and "trees.lca(" in ast.unparse(s.value) \
                    and i > 0 and isinstance(body[i - 1], ast.If) and "tree_min" in ast.unparse(body[i - 1].test):
                block = body[i - 1:i + 1]
    if block is None:
        raise Unsupported("the target selection of root_attach was not found (the contract no longer binds)")
    c = Contract(target=qual, prop="C12", args={}, loops={})
    ex = Exec(repo, reg, info, c, prefix="C12.neighbours")
    H = Heap.fresh("N")
    st = State(heap=H)
    for t in H.typing():
        st.assume(t)
    tree = VRef(z3.Int(fresh_name("n_tree")))
    T = H.terms(tree)
    t_l, t_r = VInt(z3.Int(fresh_name("n_t_l"))), VInt(z3.Int(fresh_name("n_t_r")))
    j = z3.Int(fresh_name("nj"))
    st.assume(z3.And(tree.t != 0, tobool(WF(H, tree)), H.parent_t(tree.t) == 0))
    st.assume(tobool(wf_theory(H)))
    st.assume(tobool(terms_facts(H, tree)))
    st.assume(qforall([j], z3.Implies(z3.And(0 <= j, j < T.n), H.num(T.get(j)).t == j + 1), [T.get(j).t]))   # 1..n
    # t_l is one less than the child's least number, t_r at least one more than its greatest
    st.assume(t_l.t + 2 <= t_r.t)
    st.env.update(dict(tree=tree, tree_terms=T, tree_min=VInt(H.num(T.get(0)).t), tree_max=VInt(H.num(T.get(T.n - 1)).t),
                       t_l=t_l, t_r=t_r))
    ex.entry_heap = H.copy()
    ex.obligations = []
    outs = ex._with_raises(st, ex.exec_block(block, st))
    vcs = []
    for oi, o in enumerate(outs):
        if o.kind == "continue":
            vcs.append(("path%d.skipped_exactly_when_a_neighbour_lies_beyond_the_sentence" % oi, list(o.st.pc),
                        z3.Or(t_l.t < 1, t_r.t > T.n)))
            continue
        if o.kind != "normal":
            raise Unsupported("the target selection leaves by %s" % o.kind)
        # the values of the two argument expressions of the call, as written in the code
        call = block[1].value
        a, b = ex.ev(call.args[0], o.st), ex.ev(call.args[1], o.st)
        vcs.append(("path%d.neighbours_are_the_tokens_numbered_t_l_and_t_r_two_distinct_tokens_of_this_tree" % oi,
                    list(o.st.pc), z3.And(
                        1 <= t_l.t, t_r.t <= T.n, H.num(a).t == t_l.t, H.num(b).t == t_r.t, a.t != b.t,
                        tobool(WF(H, a)), tobool(WF(H, b)), H.nchild_t(a.t) == 0, H.nchild_t(b.t) == 0,
                        tobool(desc(H, tree, a)), tobool(desc(H, tree, b)))))
    for ob in ex.obligations:
        vcs.append(("step.%s" % ob.name.split(".", 2)[-1], list(ob.pc), ob.goal))
    return vcs


lemma_neighbours.target = "trees.transform.root_attach"
LEMMAS["neighbours"] = lemma_neighbours
