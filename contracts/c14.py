"""C14 -- block contracts on the re-linking steps of unary-chain (un)collapsing and of tree binarization.

The three functions interleave recursion, allocation and re-linking, and the re-linked tree is handed to the next
recursive call; a whole-function contract would need the ghost theory of well-formed trees re-established on the
mutated heap, which pyvc does not reach.  What is verified instead is each *loop body* of the real source, as a block
contract on an arbitrary heap whose parent/child links are consistent (same style as the mover step, contracts/mover.py):

  uncollapse step  (body of `while tree.data['label'].find("+") > -1` in _uncollapse_unary_chains)
      a fresh node `unary` is inserted between `tree` and its former parent; label(unary) + "+" + label'(tree) ==
      label(tree), label(unary) has no '+'; every other field of `unary` is a copy of tree's; nothing else changes;
      links stay consistent; `top` is the first node inserted.

  collapse step    (body of `while len(trees.children(tree)) == 1` in _collapse_unary_chains)
      label'(tree) == label(tree) + "+" + label(only child); the child's children become tree's children in order,
      each pointing to tree; if the child is a token its num/word/lemma are pulled up; no other node changes.

  binarization step (body of `while len(remaining) > 2` in _binarize_tree)
      one fresh head-marked node labelled '@' (bare) or '@' + parent label without co-index, and the outermost
      remaining child on the side away from the head, are appended to `last_tree`; the direction turns right at the
      head child; the new node becomes `last_tree`; nothing else changes.

The composition over iterations and over the recursion is decided by the bounded stand-in (bounded/c14.py) only.
"""
import ast
import z3
from pyvc import core
from pyvc.core import Contract, Exec, State
from pyvc.heap import Heap, DATA_KEYS
from pyvc.sym import VRef, VBool, VInt, VStr, REF, tobool, fresh_name, qforall, Unsupported
from contracts.mover import links_consistent
from contracts.common import add_common

VERIFY = []
TRUSTED = ["the loop bodies are located by AST shape in the real source (the only `while` of each function)",
           "Tree.__init__ allocates a node that is not alive before, with no parent, no children and a deep copy of "
           "the data (its three assignments are re-checked in the source on every run)",
           "Tree.__eq__ is identity (ids are unique), so list.remove(tree) removes tree itself"]
ASSUMPTIONS = ["block precondition: parent/child links consistent, the heap is closed (parents and children of "
               "allocated nodes are allocated), `tree` is an allocated node that is not its own parent and has a "
               "string label; composition over iterations / recursion is not proved (bounded stand-in)"]


def build(reg):
    from contracts import c20
    c20.build(reg)                 # parse_label / format_label (proved under C20) are called by the binarization step
    add_common(reg)


def _only_while(info):
    ws = [n for n in ast.walk(info.node) if isinstance(n, ast.While)]
    if len(ws) != 1:
        raise Unsupported("expected exactly one while loop in %s, found %d (the contract no longer binds)"
                          % (info.qual, len(ws)))
    return ws[0]


def _closed(H, tag):
    n, k = z3.Int(fresh_name(tag + "n")), z3.Int(fresh_name(tag + "k"))
    alive = lambda r: z3.Select(H.f["alive"], r)
    return z3.And(
        z3.Not(alive(z3.IntVal(0))),
        qforall([n], z3.Implies(z3.And(alive(n), H.parent_t(n) != 0), alive(H.parent_t(n))), [H.parent_t(n)]),
        qforall([n, k], z3.Implies(z3.And(alive(n), 0 <= k, k < H.nchild_t(n)), alive(H.child_t(n, k))),
                [H.child_t(n, k)]))


def _data_unchanged(H0, H1, n, skip=()):
    """every modelled data field of node n is the same in both heaps (except the keys in `skip`)"""
    cs = []
    for name in H0.f:
        if name.startswith(("has_", "val_", "none_")) and name.split("_", 1)[1] not in skip:
            cs.append(z3.Select(H1.f[name], n) == z3.Select(H0.f[name], n))
    return z3.And(*cs)


def lemma_uncollapse_step(reg, repo):
    qual = "trees.transform._uncollapse_unary_chains"
    info = repo.fns.get(qual)
    if info is None:
        raise Unsupported("function %s no longer exists" % qual)
    loop = _only_while(info)
    c = Contract(target=qual, prop="C14", args={})
    ex = Exec(repo, reg, info, c, prefix="C14.uncollapse_step")
    H = Heap.fresh("U")
    st = State(heap=H)
    for t in H.typing():
        st.assume(t)
    tree, unary, top = (VRef(z3.Int(fresh_name("u_" + nm))) for nm in ("tree", "unary", "top"))
    st.env.update(dict(tree=tree, unary=unary, top=top))
    ex.entry_heap = H.copy()
    H0 = H.copy()
    alive0 = lambda r: z3.Select(H0.f["alive"], r)
    st.assume(tree.t != 0)
    st.assume(alive0(tree.t))
    st.assume(links_consistent(H0, "u"))
    st.assume(_closed(H0, "u"))
    st.assume(H0.parent_t(tree.t) != tree.t)
    st.assume(z3.Or(top.t == 0, alive0(top.t)))
    st.assume(z3.And(z3.Select(H0.f["has_label"], tree.t), z3.Not(z3.Select(H0.f["none_label"], tree.t))))
    ex.obligations = []
    cond = ex.ev(loop.test, st)
    st.assume(tobool(cond))                                    # the loop is entered
    outs = ex.exec_block(loop.body, st)
    outs = ex._with_raises(st, outs)
    vcs = []
    P = H0.parent_t(tree.t)
    lab0 = z3.Select(H0.f["val_label"], tree.t)
    plus = z3.StringVal("+")
    for oi, o in enumerate(outs):
        if o.kind != "normal":
            raise Unsupported("uncollapse step has an exceptional exit (%s)" % (o.exc,))
        H1 = o.st.heap
        u = o.st.env["unary"].t
        t1 = o.st.env["tree"].t
        top1 = o.st.env["top"].t
        par1, nch1, ch1 = H1.parent_t, H1.nchild_t, H1.child_t
        n, k = z3.Int(fresh_name("qn")), z3.Int(fresh_name("qk"))
        r0 = H0.pos(tree).t
        newpos = lambda r: z3.If(r == u, z3.If(P != 0, nch1(P) - 1, 0),
                                 z3.If(r == tree.t, 0,
                                       z3.If(z3.And(H0.parent_t(r) == P, H0.pos(VRef(r)).t > r0),
                                             H0.pos(VRef(r)).t - 1, H0.pos(VRef(r)).t)))
        labu = z3.Select(H1.f["val_label"], u)
        labt = z3.Select(H1.f["val_label"], tree.t)
        goals = {
            "same_tree_variable": t1 == tree.t,
            "unary_is_a_new_node": z3.And(u != 0, z3.Not(alive0(u)), z3.Select(H1.f["alive"], u)),
            "label_split_at_first_plus": z3.And(
                z3.Not(z3.Select(H1.f["none_label"], u)), z3.Not(z3.Select(H1.f["none_label"], tree.t)),
                z3.Select(H1.f["has_label"], u), z3.Select(H1.f["has_label"], tree.t),
                z3.Concat(labu, plus, labt) == lab0, z3.Not(z3.Contains(labu, plus))),
            "unary_sits_between_parent_and_tree": z3.And(par1(u) == P, par1(tree.t) == u, nch1(u) == 1,
                                                         ch1(u, 0) == tree.t),
            "parent_list_swaps_tree_for_unary": z3.Implies(P != 0, z3.And(
                nch1(P) == H0.nchild_t(P), ch1(P, nch1(P) - 1) == u,
                z3.ForAll([k], z3.Implies(z3.And(0 <= k, k < nch1(P) - 1),
                                          ch1(P, k) == z3.If(k < r0, H0.child_t(P, k), H0.child_t(P, k + 1)))))),
            "unary_copies_the_other_fields": _data_unchanged_between(H0, tree.t, H1, u, skip=("label",)),
            "tree_keeps_children_and_other_fields": z3.And(
                nch1(tree.t) == H0.nchild_t(tree.t),
                z3.Select(H1.f["child"], tree.t) == z3.Select(H0.f["child"], tree.t),
                _data_unchanged(H0, H1, tree.t, skip=("label",))),
            "other_nodes_untouched": z3.ForAll([n], z3.Implies(
                z3.And(alive0(n), n != tree.t),
                z3.And(par1(n) == H0.parent_t(n), _data_unchanged(H0, H1, n),
                       z3.Implies(n != P, z3.And(nch1(n) == H0.nchild_t(n),
                                                 z3.Select(H1.f["child"], n) == z3.Select(H0.f["child"], n)))))),
            "children_point_back": z3.ForAll([n, k], z3.Implies(
                z3.And(z3.Select(H1.f["alive"], n), 0 <= k, k < nch1(n)),
                z3.And(ch1(n, k) != 0, par1(ch1(n, k)) == n, newpos(ch1(n, k)) == k))),
            "parents_list_their_children": z3.ForAll([n], z3.Implies(
                z3.And(z3.Select(H1.f["alive"], n), par1(n) != 0),
                z3.And(0 <= newpos(n), newpos(n) < nch1(par1(n)), ch1(par1(n), newpos(n)) == n))),
            "top_is_the_first_node_inserted": top1 == z3.If(top.t == 0, u, top.t),
        }
        for gname, g in goals.items():
            vcs.append(("path%d.%s" % (oi, gname), list(o.st.pc), g))
    for ob in ex.obligations:
        vcs.append(("safe.%s" % ob.name.split(".", 2)[-1], list(ob.pc), ob.goal))
    if len(outs) < 2:
        raise Unsupported("expected the step to distinguish a parentless tree from one with a parent")
    return vcs


def _data_unchanged_between(H0, a, H1, b, skip=()):
    cs = []
    for name in H0.f:
        if name.startswith(("has_", "val_", "none_")) and name.split("_", 1)[1] not in skip:
            cs.append(z3.Select(H1.f[name], b) == z3.Select(H0.f[name], a))
    return z3.And(*cs)


lemma_uncollapse_step.target = "trees.transform._uncollapse_unary_chains"


# ------------------------------------------------------------------------------------------------------------------
# collapse step
# ------------------------------------------------------------------------------------------------------------------
def _num_frame(H0):
    """WF and the ordered child list C read `num` at childless nodes only (children() orders by
    terminals(x)[0].data['num'], terminals() reads num of childless nodes: the characterisations verified under
    C19): heaps that agree on the links and on num at every childless node have the same WF / C."""
    from contracts.common import WF
    par, nch, ch = H0.f["parent"], H0.f["nchild"], H0.f["child"]
    hn0, vn0 = H0.f["has_num"], H0.f["val_num"]
    hn, vn = z3.Const(fresh_name("fr_hn"), hn0.sort()), z3.Const(fresh_name("fr_vn"), vn0.sort())
    x, i, n = z3.Int(fresh_name("frx")), z3.Int(fresh_name("fri")), z3.Int(fresh_name("frn"))
    agree = z3.ForAll([n], z3.Implies(z3.Select(nch, n) == 0,
                                      z3.And(z3.Select(hn, n) == z3.Select(hn0, n),
                                             z3.Select(vn, n) == z3.Select(vn0, n))))
    Hx = Heap(dict(H0.f, has_num=hn, val_num=vn), "fr")
    wf1, wf0 = tobool(WF(Hx, VRef(x))), tobool(WF(H0, VRef(x)))
    C1, C0 = Hx.ochildren(VRef(x)), H0.ochildren(VRef(x))
    return z3.And(
        z3.ForAll([hn, vn, x], z3.Implies(agree, wf1 == wf0), patterns=[wf1]),
        z3.ForAll([hn, vn, x], z3.Implies(agree, C1.n == C0.n), patterns=[C1.n]),
        z3.ForAll([hn, vn, x, i], z3.Implies(agree, C1.get(i).t == C0.get(i).t), patterns=[C1.get(i).t]))


def lemma_collapse_step(reg, repo):
    from contracts.common import WF, wf_theory, C_idx
    qual = "trees.transform._collapse_unary_chains"
    info = repo.fns.get(qual)
    if info is None:
        raise Unsupported("function %s no longer exists" % qual)
    loop = _only_while(info)
    H = Heap.fresh("K")
    H0 = H.copy()
    tree = VRef(z3.Int(fresh_name("k_tree")))
    c0 = H0.child_t(tree.t, 0)                                  # the only child
    G = H0.ochildren(VRef(c0))                                  # its children in order
    wf0 = lambda r: tobool(WF(H0, VRef(r)))
    cidx0 = lambda r: C_idx(H0, VRef(r)).t
    state = {}

    def moved(r, upto):
        """r is one of the first `upto` grandchildren"""
        return z3.And(wf0(r), H0.parent_t(r) == c0, cidx0(r) < upto)

    def inv(S):
        Hc, it = S.H, z3.IntVal(0) + S.it.t
        HL = state["loop_entry"]
        n, k = z3.Int(fresh_name("vn")), z3.Int(fresh_name("vk"))
        return VBool(z3.And(
            Hc.nchild_t(tree.t) == it,
            qforall([k], z3.Implies(z3.And(0 <= k, k < it), Hc.child_t(tree.t, k) == G.get(k).t),
                    [Hc.child_t(tree.t, k)]),
            qforall([n], Hc.parent_t(n) == z3.If(moved(n, it), tree.t, H0.parent_t(n)), [Hc.parent_t(n)]),
            qforall([n], z3.Implies(n != tree.t, z3.And(
                Hc.nchild_t(n) == H0.nchild_t(n),
                z3.Select(Hc.f["child"], n) == z3.Select(H0.f["child"], n))), [Hc.nchild_t(n)]),
        ))

    class _Hook(dict):
        """loops[1]: remember the heap at the entry of the for loop"""
    loops = {1: dict(inv=inv, types={})}
    c = Contract(target=qual, prop="C14", args={}, loops=loops)
    ex = Exec(repo, reg, info, c, prefix="C14.collapse_step")
    st = State(heap=H)
    for t in H.typing():
        st.assume(t)
    st.env.update(dict(tree=tree))
    ex.entry_heap = H.copy()
    st.assume(tree.t != 0)
    st.assume(wf0(tree.t))
    st.assume(tobool(wf_theory(H0)))
    st.assume(_num_frame(H0))
    lab = lambda Hh, r: z3.Select(Hh.f["val_label"], r)
    is_str = lambda Hh, key, r: z3.And(z3.Select(Hh.f["has_" + key], r), z3.Not(z3.Select(Hh.f["none_" + key], r)))
    ex.obligations = []
    cond = ex.ev(loop.test, st)
    st.assume(tobool(cond))                                     # exactly one child
    st.assume(is_str(H0, "label", tree.t))
    st.assume(is_str(H0, "label", c0))
    # a token carries num, word and lemma entries (every reader initialises all fields)
    st.assume(z3.Implies(H0.nchild_t(c0) == 0, z3.And(
        z3.Select(H0.f["has_num"], c0), z3.Select(H0.f["has_word"], c0), z3.Select(H0.f["has_lemma"], c0))))
    state["loop_entry"] = None
    outs = ex.exec_block(loop.body, st)
    outs = ex._with_raises(st, outs)
    vcs = []
    plus = z3.StringVal("+")
    for oi, o in enumerate(outs):
        if o.kind != "normal":
            raise Unsupported("collapse step has an exceptional exit (%s)" % (o.exc,))
        H1 = o.st.heap
        par1, nch1, ch1 = H1.parent_t, H1.nchild_t, H1.child_t
        n, k = z3.Int(fresh_name("qn")), z3.Int(fresh_name("qk"))
        token = H0.nchild_t(c0) == 0

        def same(key, a_heap, a, b_heap, b):
            cs = []
            for pre in ("has_", "val_", "none_"):
                if pre + key in a_heap.f:
                    cs.append(z3.Select(a_heap.f[pre + key], a) == z3.Select(b_heap.f[pre + key], b))
            return z3.And(*cs)
        goals = {
            "only_child_is_first_stored_child": z3.And(H0.nchild_t(tree.t) == 1, c0 != 0, c0 != tree.t,
                                                       H0.parent_t(c0) == tree.t),
            "label_concatenated_top_down": z3.And(
                is_str(H1, "label", tree.t),
                lab(H1, tree.t) == z3.Concat(lab(H0, tree.t), plus, lab(H0, c0))),
            "grandchildren_become_children_in_order": z3.And(
                nch1(tree.t) == H0.nchild_t(c0), nch1(tree.t) == G.n,
                z3.ForAll([k], z3.Implies(z3.And(0 <= k, k < G.n),
                                          z3.And(ch1(tree.t, k) == G.get(k).t, par1(G.get(k).t) == tree.t,
                                                 G.get(k).t != 0)))),
            "token_data_pulled_up": z3.And(
                z3.Implies(token, z3.And(*[same(key, H1, tree.t, H0, c0) for key in ("num", "word", "lemma")])),
                z3.Implies(z3.Not(token), z3.And(*[same(key, H1, tree.t, H0, tree.t)
                                                   for key in ("num", "word", "lemma")]))),
            "other_fields_of_tree_unchanged": _data_unchanged(H0, H1, tree.t, skip=("label", "num", "word", "lemma")),
            "other_nodes_untouched": z3.ForAll([n], z3.Implies(n != tree.t, z3.And(
                _data_unchanged(H0, H1, n), nch1(n) == H0.nchild_t(n),
                z3.Select(H1.f["child"], n) == z3.Select(H0.f["child"], n)))),
            "only_grandchildren_change_parent": z3.ForAll([n], par1(n) == z3.If(
                z3.And(wf0(n), H0.parent_t(n) == c0), tree.t, H0.parent_t(n))),
        }
        for gname, g in goals.items():
            vcs.append(("path%d.%s" % (oi, gname), list(o.st.pc), g))
    for ob in ex.obligations:
        vcs.append(("safe.%s" % ob.name.split(".", 2)[-1], list(ob.pc), ob.goal))
    if len(outs) < 2:
        raise Unsupported("expected the step to distinguish a token child from a constituent child")
    return vcs


lemma_collapse_step.target = "trees.transform._collapse_unary_chains"

# ------------------------------------------------------------------------------------------------------------------
# binarization step
# ------------------------------------------------------------------------------------------------------------------
def _children_point_back(H, tag):
    n, k = z3.Int(fresh_name(tag + "n")), z3.Int(fresh_name(tag + "k"))
    return qforall([n, k], z3.Implies(z3.And(z3.Select(H.f["alive"], n), 0 <= k, k < H.nchild_t(n)),
                                      z3.And(H.child_t(n, k) != 0, H.parent_t(H.child_t(n, k)) == n)),
                   [H.child_t(n, k)])


def lemma_binarize_step(reg, repo):
    """body of `while len(remaining) > 2` in _binarize_tree: one fresh @-node (head-marked, labelled '@' or '@' + the
    parent label without its co-index) and the outermost remaining child on the side opposite to the head are
    appended to `last_tree`; the @-node becomes `last_tree`; `remaining` loses exactly that child."""
    import ast as _ast
    from pyvc.sym import fresh, TList, tostr
    from contracts.c20 import HM as _HM
    qual = "trees.transform._binarize_tree"
    info = repo.fns.get(qual)
    if info is None:
        raise Unsupported("function %s no longer exists" % qual)
    loop = _only_while(info)
    c = Contract(target=qual, prop="C14", args={})
    ex = Exec(repo, reg, info, c, prefix="C14.binarize_step")
    H = Heap.fresh("B")
    st = State(heap=H)
    for t in H.typing():
        st.assume(t)
    assume = []
    env = dict(tree=VRef(z3.Int(fresh_name("b_tree"))), last_tree=VRef(z3.Int(fresh_name("b_last"))),
               child=VRef(z3.Int(fresh_name("b_child"))), binarization_tree=VRef(z3.Int(fresh_name("b_bt"))),
               label=VStr(z3.String(fresh_name("b_label"))), direction=VStr(z3.String(fresh_name("b_dir"))),
               bare_bin_labels=VBool(z3.Bool(fresh_name("b_bare"))),
               remaining=fresh(TList(REF), "b_rem", assume=assume))
    for t in assume:
        st.assume(t)
    st.env.update(env)
    ex.entry_heap = H.copy()
    H0 = H.copy()
    alive0 = lambda r: z3.Select(H0.f["alive"], r)
    rem0, last0, dir0 = env["remaining"], env["last_tree"], env["direction"]
    i = z3.Int(fresh_name("bi"))
    st.assume(z3.And(last0.t != 0, alive0(last0.t)))
    st.assume(_closed(H0, "b"))
    st.assume(_children_point_back(H0, "b"))
    st.assume(qforall([i], z3.Implies(z3.And(0 <= i, i < rem0.n), z3.And(
        rem0.get(i).t != 0, alive0(rem0.get(i).t), z3.Select(H0.f["has_head"], rem0.get(i).t))), [rem0.get(i).t]))
    st.assume(z3.Or(dir0.t == z3.StringVal("left"), dir0.t == z3.StringVal("right")))
    # the remaining children were taken out of the child list of `tree` (tree.children = []): they are in no list
    nn_, kk_ = z3.Int(fresh_name("bn")), z3.Int(fresh_name("bk"))
    st.assume(qforall([nn_, kk_, i], z3.Implies(
        z3.And(alive0(nn_), 0 <= kk_, kk_ < H0.nchild_t(nn_), 0 <= i, i < rem0.n),
        H0.child_t(nn_, kk_) != rem0.get(i).t), [[H0.child_t(nn_, kk_), rem0.get(i).t]]))
    ex.obligations = []
    cond = ex.ev(loop.test, st)
    st.assume(tobool(cond))
    outs = ex.exec_block(loop.body, st)
    outs = ex._with_raises(st, outs)
    vcs = []
    S_ = z3.StringVal
    n_normal = 0
    for oi, o in enumerate(outs):
        if o.kind != "normal":
            # the only exceptional exits allowed are those of parse_label on a label it rejects
            continue
        n_normal += 1
        H1 = o.st.heap
        e1 = o.st.env
        b = e1["binarization_tree"].t
        par1, nch1, ch1 = H1.parent_t, H1.nchild_t, H1.child_t
        n, k = z3.Int(fresh_name("qn")), z3.Int(fresh_name("qk"))
        head_first = z3.Select(H0.f["val_head"], rem0.get(0).t)
        dir1 = z3.If(head_first, S_("right"), dir0.t)
        left = dir1 == S_("left")
        exp_child = z3.If(left, rem0.get(0).t, rem0.get(rem0.n - 1).t)
        rem1 = e1["remaining"]
        d1 = e1["direction"]
        d1t = d1.t if hasattr(d1, "t") else S_(d1)
        n0 = H0.nchild_t(last0.t)
        # the parent label without its co-index, rebuilt from the (named) result of parse_label
        rec = ex.ev(_ast.parse("trees.parse_label(label)", mode="eval").body, o.st.fork())
        f = rec.fields
        lab, gf, gap, sep = [tostr(f[x]) for x in ("label", "gf", "gapindex", "gf_separator")]
        hm = tostr(f["headmarker"])
        no_co = z3.Concat(z3.If(lab != S_("EMPTY"), lab, S_("")),
                          z3.If(z3.And(gf != S_("--"), z3.Length(gf) > 0), z3.Concat(sep, gf), S_("")),
                          z3.If(z3.Length(gap) > 0, z3.Concat(S_("="), gap), S_("")),
                          z3.If(z3.Length(hm) > 0, S_(_HM), S_("")))
        goals = {
            "new_node_is_fresh": z3.And(b != 0, z3.Not(alive0(b)), z3.Select(H1.f["alive"], b), nch1(b) == 0),
            "new_node_is_head_marked_at_node": z3.And(
                z3.Select(H1.f["has_head"], b), z3.Select(H1.f["val_head"], b),
                z3.Select(H1.f["has_label"], b), z3.Not(z3.Select(H1.f["none_label"], b)),
                z3.Select(H1.f["val_label"], b) == z3.If(tobool(env["bare_bin_labels"]), S_("@"),
                                                        z3.Concat(S_("@"), no_co))),
            "direction_turns_right_at_the_head": d1t == dir1,
            "outermost_child_opposite_the_head_is_taken": z3.And(
                e1["child"].t == exp_child, rem1.n == rem0.n - 1,
                z3.ForAll([k], z3.Implies(z3.And(0 <= k, k < rem1.n),
                                          rem1.get(k).t == z3.If(left, rem0.get(k + 1).t, rem0.get(k).t)))),
            "last_tree_gains_the_node_and_the_child": z3.And(
                nch1(last0.t) == n0 + 2, ch1(last0.t, n0) == b, ch1(last0.t, n0 + 1) == exp_child,
                par1(b) == last0.t, par1(exp_child) == last0.t,
                z3.ForAll([k], z3.Implies(z3.And(0 <= k, k < n0), ch1(last0.t, k) == H0.child_t(last0.t, k)))),
            "new_node_becomes_last_tree": e1["last_tree"].t == b,
            "nothing_else_changes": z3.ForAll([n], z3.Implies(alive0(n), z3.And(
                _data_unchanged(H0, H1, n),
                z3.Implies(n != exp_child, par1(n) == H0.parent_t(n)),
                z3.Implies(n != last0.t, z3.And(nch1(n) == H0.nchild_t(n),
                                                z3.Select(H1.f["child"], n) == z3.Select(H0.f["child"], n)))))),
            "children_point_back": z3.ForAll([n, k], z3.Implies(
                z3.And(z3.Select(H1.f["alive"], n), 0 <= k, k < nch1(n)),
                z3.And(ch1(n, k) != 0, par1(ch1(n, k)) == n))),
        }
        for gname, g in goals.items():
            vcs.append(("path%d.%s" % (oi, gname), list(o.st.pc), g))
    for o in outs:
        if o.kind == "raise":
            # an exceptional exit must come from parse_label (rejected label), not from the step itself
            vcs.append(("no_exception_from_the_step.L%s" % (o.val,), list(o.st.pc),
                        z3.BoolVal(str(o.exc) in ("ValueError",) and _line_calls(info, o.val, "parse_label"))))
    for ob in ex.obligations:
        vcs.append(("safe.%s" % ob.name.split(".", 2)[-1], list(ob.pc), ob.goal))
    if n_normal < 2:
        raise Unsupported("expected the step to distinguish the two directions")
    return vcs


def _line_calls(info, line, name):
    """does source line `line` (relative numbering of pyvc) of the function call `name`?"""
    try:
        src = info.src.splitlines()[int(line) - 1]
    except Exception:
        return False
    return name in src


lemma_binarize_step.target = "trees.transform._binarize_tree"

LEMMAS = {"uncollapse_step": lemma_uncollapse_step, "collapse_step": lemma_collapse_step,
          "binarize_step": lemma_binarize_step}
