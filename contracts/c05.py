"""C05 -- boyd_split / raising: their re-attachment steps as block contracts (shared with C04).
The transformations as a whole are outside the reach of pyvc (boyd_split consumes a lazy postorder generator while it
mutates the tree the generator walks; DESIGN 5 C05) and are decided by the bounded stand-in."""
from contracts.common import add_common
from contracts.mover import lemma_mover

VERIFY = []
TRUSTED = ["mover steps are located by AST pattern in the real source"]
ASSUMPTIONS = ["block preconditions as in C04"]


def build(reg):
    add_common(reg)


LEMMAS = {"mover.boyd_split": lemma_mover("trees.transform.boyd_split"),
          "mover.raising": lemma_mover("trees.transform.raising")}
