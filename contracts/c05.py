"""C05 -- boyd_split / raising: the grouping loop of boyd_split (which children form one continuous block) and their
re-attachment steps as block contracts (shared with C04).
The transformations as a whole are outside the reach of pyvc (boyd_split consumes a lazy postorder generator while it
mutates the tree the generator walks; DESIGN 5 C05) and are decided by the bounded stand-in."""
from contracts.common import add_common
from contracts.mover import lemma_mover

VERIFY = []
TRUSTED = ["mover steps and the grouping loop are located by AST pattern in the real source",
           "contracts of trees.children / trees.terminals used at the call sites (verified under C19); wf_theory"]
ASSUMPTIONS = ["block preconditions as in C04; grouping loop: the node is a node of a well-formed tree"]


def build(reg):
    add_common(reg)


LEMMAS = {"mover.boyd_split": lemma_mover("trees.transform.boyd_split"),
          "mover.raising": lemma_mover("trees.transform.raising")}


# ----------------------------------------------------------------------------------------------------------------------
# boyd_split, grouping loop: `blocks` partitions the ordered children of the node into the maximal runs whose token
# spans are adjacent (a new block starts exactly where the next child begins beyond last token + 1)
# ----------------------------------------------------------------------------------------------------------------------
def lemma_boyd_blocks(reg, repo):
    import ast
    import z3
    from pyvc.core import Contract, Exec, State
    from pyvc.heap import Heap
    from pyvc.sym import (VRef, VBool, VInt, VList, REF, TList, tobool, toint, fresh_name, qforall, conj, Unsupported)
    from contracts.common import WF, wf_theory, C_idx
    qual = "trees.transform.boyd_split"
    info = repo.fns.get(qual)
    if info is None:
        raise Unsupported("function %s no longer exists" % qual)
    # the loop `for child in trees.children(subtree)` that appends to blocks[-1], and the `blocks = []` before it
    loop, init, owner_body = None, None, None
    for node in ast.walk(info.node):
        body = getattr(node, "body", None)
        if not isinstance(body, list):
            continue
        for i, stmt in enumerate(body):
            if isinstance(stmt, ast.For) and "blocks[-1].append(child)" in ast.unparse(stmt) \
                    and "trees.children(subtree)" in ast.unparse(stmt.iter):
                prev = body[i - 1] if i > 0 else None
                if isinstance(prev, ast.Assign) and ast.unparse(prev) == "blocks = []":
                    loop, init = stmt, prev
    if loop is None:
        raise Unsupported("the grouping loop of boyd_split was not found (the contract no longer binds)")

    def first(H, c):
        return H.num(H.terms(c).get(0)).t

    def lastn(H, c):
        T = H.terms(c)
        return H.num(T.get(T.n - 1)).t

    def closed(H, sub, blocks, upto):
        C = H.ochildren(sub)
        b, j = z3.Int(fresh_name("b")), z3.Int(fresh_name("j"))
        blen = lambda q: blocks.get(q).n
        bel = lambda q, r: blocks.get(q).get(r)
        start = lambda q: C_idx(H, bel(q, 0)).t
        return z3.And(
            qforall([b], z3.Implies(z3.And(0 <= b, b < upto), z3.And(
                blen(b) >= 1, start(b) >= 0, start(b) + blen(b) < C.n,
                # a closed block is followed by a child that starts beyond its last token + 1
                first(H, C.get(start(b) + blen(b))) > lastn(H, C.get(start(b) + blen(b) - 1)) + 1)), [blen(b)]),
            qforall([b, j], z3.Implies(z3.And(0 <= b, b < upto, 0 <= j, j < blen(b)),
                                       bel(b, j).t == C.get(start(b) + j).t), [bel(b, j).t]),
            qforall([b, j], z3.Implies(z3.And(0 <= b, b < upto, 1 <= j, j < blen(b)),
                                       first(H, bel(b, j)) <= lastn(H, bel(b, j - 1)) + 1), [bel(b, j).t]),
            qforall([b], z3.Implies(z3.And(0 <= b, b + 1 < upto), start(b + 1) == start(b) + blen(b)), [blen(b)]),
            z3.Implies(upto >= 1, start(0) == 0))

    def inv(S):
        H, sub, blocks, it = S.H, S.subtree, S.blocks, toint(S.it)
        C = H.ochildren(sub)
        nb = blocks.n
        last = blocks.get(nb - 1)
        L = last.n
        j = z3.Int(fresh_name("j"))
        start_open = it - L
        closed_end = z3.If(nb >= 2, C_idx(H, blocks.get(nb - 2).get(0)).t + blocks.get(nb - 2).n, 0)
        return conj(
            VBool((it == 0) == (nb == 0)),
            VBool(z3.Implies(nb >= 1, z3.And(
                L >= 1, L <= it, start_open >= 0, closed_end == start_open,
                closed(H, sub, blocks, nb - 1),
                qforall([j], z3.Implies(z3.And(0 <= j, j < L), last.get(j).t == C.get(start_open + j).t),
                        [last.get(j).t]),
                qforall([j], z3.Implies(z3.And(1 <= j, j < L),
                                        first(H, last.get(j)) <= lastn(H, last.get(j - 1)) + 1), [last.get(j).t])))))

    c = Contract(target=qual, prop="C05", args={}, loops={1: dict(inv=inv, types={"blocks": TList(TList(REF))})})
    ex = Exec(repo, reg, info, c, prefix="C05.boyd_blocks")
    H = Heap.fresh("G")
    st = State(heap=H)
    for t in H.typing():
        st.assume(t)
    sub = VRef(z3.Int(fresh_name("g_subtree")))
    st.env.update(dict(subtree=sub))
    ex.entry_heap = H.copy()
    st.assume(sub.t != 0)
    st.assume(tobool(WF(H, sub)))
    st.assume(tobool(wf_theory(H)))
    ex.obligations = []
    outs = ex.exec_block([init, loop], st)
    outs = ex._with_raises(st, outs)
    vcs = []
    for oi, o in enumerate(outs):
        if o.kind != "normal":
            raise Unsupported("the grouping loop has an exceptional exit (%s)" % (o.exc,))
        blocks = o.st.env["blocks"]
        C = H.ochildren(sub)
        nb = blocks.n
        b, j = z3.Int(fresh_name("pb")), z3.Int(fresh_name("pj"))
        blen = lambda q: blocks.get(q).n
        bel = lambda q, r: blocks.get(q).get(r)
        start = lambda q: C_idx(H, bel(q, 0)).t
        goals = {
            "no_children_no_blocks": (C.n == 0) == (nb == 0),
            "blocks_are_consecutive_slices_of_the_ordered_children": z3.Implies(nb >= 1, z3.And(
                start(0) == 0, start(nb - 1) + blen(nb - 1) == C.n,
                z3.ForAll([b], z3.Implies(z3.And(0 <= b, b < nb), blen(b) >= 1)),
                z3.ForAll([b], z3.Implies(z3.And(0 <= b, b + 1 < nb), start(b + 1) == start(b) + blen(b))),
                z3.ForAll([b, j], z3.Implies(z3.And(0 <= b, b < nb, 0 <= j, j < blen(b)),
                                             bel(b, j).t == C.get(start(b) + j).t)))),
            "adjacent_spans_inside_a_block": z3.ForAll([b, j], z3.Implies(
                z3.And(0 <= b, b < nb, 1 <= j, j < blen(b)), first(H, bel(b, j)) <= lastn(H, bel(b, j - 1)) + 1)),
            "a_gap_between_blocks": z3.ForAll([b], z3.Implies(
                z3.And(0 <= b, b + 1 < nb), first(H, bel(b + 1, 0)) > lastn(H, bel(b, blen(b) - 1)) + 1)),
        }
        for gname, g in goals.items():
            vcs.append(("path%d.%s" % (oi, gname), list(o.st.pc), g))
    for ob in ex.obligations:
        vcs.append(("loop.%s" % ob.name.split(".", 2)[-1], list(ob.pc), ob.goal))
    return vcs


lemma_boyd_blocks.target = "trees.transform.boyd_split"
LEMMAS["boyd_blocks"] = lemma_boyd_blocks


# ----------------------------------------------------------------------------------------------------------------------
# raising, selection loop: `removal` lists exactly the split nodes below the root that are not head blocks, in preorder
# ----------------------------------------------------------------------------------------------------------------------
def lemma_raising_selection(reg, repo):
    import ast
    import z3
    from pyvc.core import Contract, Exec, State
    from pyvc.heap import Heap
    from pyvc.sym import (VRef, VBool, VInt, VList, REF, TList, tobool, toint, fresh_name, qforall, conj, Unsupported)
    from contracts.common import WF, wf_theory, preorder_facts
    qual = "trees.transform.raising"
    info = repo.fns.get(qual)
    if info is None:
        raise Unsupported("function %s no longer exists" % qual)
    body = info.node.body
    loop, init = None, None
    for i, stmt in enumerate(body):
        if isinstance(stmt, ast.For) and "removal.append(subtree)" in ast.unparse(stmt) \
                and "trees.preorder(tree)" in ast.unparse(stmt.iter):
            prev = body[i - 1] if i > 0 else None
            if isinstance(prev, ast.Assign) and ast.unparse(prev) == "removal = []":
                loop, init = stmt, prev
    if loop is None:
        raise Unsupported("the selection loop of raising was not found (the contract no longer binds)")

    def selected(H, tree, x):
        """a split node other than the root that is not a head block"""
        return z3.And(x != tree.t, z3.Select(H.f["val_split"], x), z3.Not(z3.Select(H.f["val_head_block"], x)))

    def listed(H, tree, removal, upto):
        P = H.pre(tree)
        a, b, k = z3.Int(fresh_name("ra")), z3.Int(fresh_name("rb")), z3.Int(fresh_name("rk"))
        idx = lambda r: H.pre_idx(tree, VRef(r)).t
        el = lambda q: removal.get(q).t
        return z3.And(
            # sound, in preorder, no node twice
            qforall([a], z3.Implies(z3.And(0 <= a, a < removal.n), z3.And(
                0 <= idx(el(a)), idx(el(a)) < upto, P.get(idx(el(a))).t == el(a), selected(H, tree, el(a)))), [el(a)]),
            qforall([a, b], z3.Implies(z3.And(0 <= a, a < b, b < removal.n), idx(el(a)) < idx(el(b))),
                    [[el(a), el(b)]]),
            # complete
            qforall([k], z3.Implies(z3.And(0 <= k, k < upto, selected(H, tree, P.get(k).t)),
                                    z3.Exists([a], z3.And(0 <= a, a < removal.n, el(a) == P.get(k).t))), [P.get(k).t]))

    def inv(S):
        return VBool(listed(S.H, S.tree, S.removal, toint(S.it)))

    c = Contract(target=qual, prop="C05", args={}, loops={0: dict(inv=inv, types={"removal": TList(REF)})})
    ex = Exec(repo, reg, info, c, prefix="C05.raising_selection")
    H = Heap.fresh("R")
    st = State(heap=H)
    for t in H.typing():
        st.assume(t)
    tree = VRef(z3.Int(fresh_name("r_tree")))
    st.env.update(dict(tree=tree))
    ex.entry_heap = H.copy()
    x = z3.Int(fresh_name("rx"))
    st.assume(tree.t != 0)
    st.assume(tobool(WF(H, tree)))
    st.assume(tobool(wf_theory(H)))
    # boyd_split ran before: every node carries the two flags
    st.assume(qforall([x], z3.Implies(tobool(WF(H, VRef(x))), z3.And(z3.Select(H.f["has_split"], x),
                                                                    z3.Select(H.f["has_head_block"], x))),
                      [z3.Select(H.f["has_split"], x)]))
    ex.obligations = []
    outs = ex.exec_block([init, loop], st)
    outs = ex._with_raises(st, outs)
    vcs = []
    for oi, o in enumerate(outs):
        if o.kind != "normal":
            raise Unsupported("the selection loop has an exceptional exit (%s)" % (o.exc,))
        vcs.append(("path%d.exactly_the_non_head_block_split_nodes_in_preorder" % oi, list(o.st.pc),
                    listed(H, tree, o.st.env["removal"], H.pre(tree).n)))
    for ob in ex.obligations:
        vcs.append(("loop.%s" % ob.name.split(".", 2)[-1], list(ob.pc), ob.goal))
    return vcs


lemma_raising_selection.target = "trees.transform.raising"
LEMMAS["raising_selection"] = lemma_raising_selection
