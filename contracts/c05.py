"""C05 -- boyd_split / raising: the grouping loop of boyd_split (which children form one continuous block) and their
re-attachment steps as block contracts (shared with C04).
The transformations as a whole are outside the reach of pyvc (boyd_split consumes a lazy postorder generator while it
mutates the tree the generator walks; DESIGN 5 C05) and are decided by the bounded stand-in."""
from contracts.common import add_common
from contracts.mover import lemma_mover

VERIFY = []
TRUSTED = ["mover steps and the grouping loop are located by AST pattern in the real source",
           "contracts of trees.children / trees.terminals used at the call sites (verified under C19); wf_theory"]
ASSUMPTIONS = ["block preconditions as in C04; grouping loop: the node is a node of a well-formed tree"]


def build(reg):
    add_common(reg)


LEMMAS = {"mover.boyd_split": lemma_mover("trees.transform.boyd_split"),
          "mover.raising": lemma_mover("trees.transform.raising")}


# ----------------------------------------------------------------------------------------------------------------------
# boyd_split, grouping loop: `blocks` partitions the ordered children of the node into the maximal runs whose token
# spans are adjacent (a new block starts exactly where the next child begins beyond last token + 1)
# ----------------------------------------------------------------------------------------------------------------------
def lemma_boyd_blocks(reg, repo):
    import ast
    import z3
    from pyvc.core import Contract, Exec, State
    from pyvc.heap import Heap
    from pyvc.sym import (VRef, VBool, VInt, VList, REF, TList, tobool, toint, fresh_name, qforall, conj, Unsupported)
    from contracts.common import WF, wf_theory, C_idx
    qual = "trees.transform.boyd_split"
    info = repo.fns.get(qual)
    if info is None:
        raise Unsupported("function %s no longer exists" % qual)
    # the loop `for child in trees.children(subtree)` that appends to blocks[-1], and the `blocks = []` before it
    loop, init, owner_body = None, None, None
    for node in ast.walk(info.node):
        body = getattr(node, "body", None)
        if not isinstance(body, list):
            continue
        for i, stmt in enumerate(body):
            if isinstance(stmt, ast.For) and "blocks[-1].append(child)" in ast.unparse(stmt) \
                    and "trees.children(subtree)" in ast.unparse(stmt.iter):
                prev = body[i - 1] if i > 0 else None
                if isinstance(prev, ast.Assign) and ast.unparse(prev) == "blocks = []":
                    loop, init = stmt, prev
    if loop is None:
        raise Unsupported("the grouping loop of boyd_split was not found (the contract no longer binds)")

    def first(H, c):
        return H.num(H.terms(c).get(0)).t

    def lastn(H, c):
        T = H.terms(c)
        return H.num(T.get(T.n - 1)).t

    def closed(H, sub, blocks, upto):
        C = H.ochildren(sub)
        b, j = z3.Int(fresh_name("b")), z3.Int(fresh_name("j"))
        blen = lambda q: blocks.get(q).n
        bel = lambda q, r: blocks.get(q).get(r)
        start = lambda q: C_idx(H, bel(q, 0)).t
        return z3.And(
            qforall([b], z3.Implies(z3.And(0 <= b, b < upto), z3.And(
                blen(b) >= 1, start(b) >= 0, start(b) + blen(b) < C.n,
                # a closed block is followed by a child that starts beyond its last token + 1
                first(H, C.get(start(b) + blen(b))) > lastn(H, C.get(start(b) + blen(b) - 1)) + 1)), [blen(b)]),
            qforall([b, j], z3.Implies(z3.And(0 <= b, b < upto, 0 <= j, j < blen(b)),
                                       bel(b, j).t == C.get(start(b) + j).t), [bel(b, j).t]),
            qforall([b, j], z3.Implies(z3.And(0 <= b, b < upto, 1 <= j, j < blen(b)),
                                       first(H, bel(b, j)) <= lastn(H, bel(b, j - 1)) + 1), [bel(b, j).t]),
            qforall([b], z3.Implies(z3.And(0 <= b, b + 1 < upto), start(b + 1) == start(b) + blen(b)), [blen(b)]),
            z3.Implies(upto >= 1, start(0) == 0))

    def inv(S):
        H, sub, blocks, it = S.H, S.subtree, S.blocks, toint(S.it)
        C = H.ochildren(sub)
        nb = blocks.n
        last = blocks.get(nb - 1)
        L = last.n
        j = z3.Int(fresh_name("j"))
        start_open = it - L
        closed_end = z3.If(nb >= 2, C_idx(H, blocks.get(nb - 2).get(0)).t + blocks.get(nb - 2).n, 0)
        return conj(
            VBool((it == 0) == (nb == 0)),
            VBool(z3.Implies(nb >= 1, z3.And(
                L >= 1, L <= it, start_open >= 0, closed_end == start_open,
                closed(H, sub, blocks, nb - 1),
                qforall([j], z3.Implies(z3.And(0 <= j, j < L), last.get(j).t == C.get(start_open + j).t),
                        [last.get(j).t]),
                qforall([j], z3.Implies(z3.And(1 <= j, j < L),
                                        first(H, last.get(j)) <= lastn(H, last.get(j - 1)) + 1), [last.get(j).t])))))

    c = Contract(target=qual, prop="C05", args={}, loops={1: dict(inv=inv, types={"blocks": TList(TList(REF))})})
    ex = Exec(repo, reg, info, c, prefix="C05.boyd_blocks")
    H = Heap.fresh("G")
    st = State(heap=H)
    for t in H.typing():
        st.assume(t)
    sub = VRef(z3.Int(fresh_name("g_subtree")))
    st.env.update(dict(subtree=sub))
    ex.entry_heap = H.copy()
    st.assume(sub.t != 0)
    st.assume(tobool(WF(H, sub)))
    st.assume(tobool(wf_theory(H)))
    ex.obligations = []
    outs = ex.exec_block([init, loop], st)
    outs = ex._with_raises(st, outs)
    vcs = []
    for oi, o in enumerate(outs):
        if o.kind != "normal":
            raise Unsupported("the grouping loop has an exceptional exit (%s)" % (o.exc,))
        blocks = o.st.env["blocks"]
        C = H.ochildren(sub)
        nb = blocks.n
        b, j = z3.Int(fresh_name("pb")), z3.Int(fresh_name("pj"))
        blen = lambda q: blocks.get(q).n
        bel = lambda q, r: blocks.get(q).get(r)
        start = lambda q: C_idx(H, bel(q, 0)).t
        goals = {
            "no_children_no_blocks": (C.n == 0) == (nb == 0),
            "blocks_are_consecutive_slices_of_the_ordered_children": z3.Implies(nb >= 1, z3.And(
                start(0) == 0, start(nb - 1) + blen(nb - 1) == C.n,
                z3.ForAll([b], z3.Implies(z3.And(0 <= b, b < nb), blen(b) >= 1)),
                z3.ForAll([b], z3.Implies(z3.And(0 <= b, b + 1 < nb), start(b + 1) == start(b) + blen(b))),
                z3.ForAll([b, j], z3.Implies(z3.And(0 <= b, b < nb, 0 <= j, j < blen(b)),
                                             bel(b, j).t == C.get(start(b) + j).t)))),
            "adjacent_spans_inside_a_block": z3.ForAll([b, j], z3.Implies(
                z3.And(0 <= b, b < nb, 1 <= j, j < blen(b)), first(H, bel(b, j)) <= lastn(H, bel(b, j - 1)) + 1)),
            "a_gap_between_blocks": z3.ForAll([b], z3.Implies(
                z3.And(0 <= b, b + 1 < nb), first(H, bel(b + 1, 0)) > lastn(H, bel(b, blen(b) - 1)) + 1)),
        }
        for gname, g in goals.items():
            vcs.append(("path%d.%s" % (oi, gname), list(o.st.pc), g))
    for ob in ex.obligations:
        vcs.append(("loop.%s" % ob.name.split(".", 2)[-1], list(ob.pc), ob.goal))
    return vcs


lemma_boyd_blocks.target = "trees.transform.boyd_split"
LEMMAS["boyd_blocks"] = lemma_boyd_blocks


# ----------------------------------------------------------------------------------------------------------------------
# raising, selection loop: `removal` lists exactly the split nodes below the root that are not head blocks, in preorder
# ----------------------------------------------------------------------------------------------------------------------
def lemma_raising_selection(reg, repo):
    import ast
    import z3
    from pyvc.core import Contract, Exec, State
    from pyvc.heap import Heap
    from pyvc.sym import (VRef, VBool, VInt, VList, REF, TList, tobool, toint, fresh_name, qforall, conj, Unsupported)
    from contracts.common import WF, wf_theory, preorder_facts
    qual = "trees.transform.raising"
    info = repo.fns.get(qual)
    if info is None:
        raise Unsupported("function %s no longer exists" % qual)
    body = info.node.body
    loop, init = None, None
    for i, stmt in enumerate(body):
        if isinstance(stmt, ast.For) and "removal.append(subtree)" in ast.unparse(stmt) \
                and "trees.preorder(tree)" in ast.unparse(stmt.iter):
            prev = body[i - 1] if i > 0 else None
            if isinstance(prev, ast.Assign) and ast.unparse(prev) == "removal = []":
                loop, init = stmt, prev
    if loop is None:
        raise Unsupported("the selection loop of raising was not found (the contract no longer binds)")

    def selected(H, tree, x):
        """a split node other than the root that is not a head block"""
        return z3.And(x != tree.t, z3.Select(H.f["val_split"], x), z3.Not(z3.Select(H.f["val_head_block"], x)))

    def listed(H, tree, removal, upto):
        P = H.pre(tree)
        a, b, k = z3.Int(fresh_name("ra")), z3.Int(fresh_name("rb")), z3.Int(fresh_name("rk"))
        idx = lambda r: H.pre_idx(tree, VRef(r)).t
        el = lambda q: removal.get(q).t
        return z3.And(
            # sound, in preorder, no node twice
            qforall([a], z3.Implies(z3.And(0 <= a, a < removal.n), z3.And(
                0 <= idx(el(a)), idx(el(a)) < upto, P.get(idx(el(a))).t == el(a), selected(H, tree, el(a)))), [el(a)]),
            qforall([a, b], z3.Implies(z3.And(0 <= a, a < b, b < removal.n), idx(el(a)) < idx(el(b))),
                    [[el(a), el(b)]]),
            # complete
            qforall([k], z3.Implies(z3.And(0 <= k, k < upto, selected(H, tree, P.get(k).t)),
                                    z3.Exists([a], z3.And(0 <= a, a < removal.n, el(a) == P.get(k).t))), [P.get(k).t]))

    def inv(S):
        return VBool(listed(S.H, S.tree, S.removal, toint(S.it)))

    c = Contract(target=qual, prop="C05", args={}, loops={0: dict(inv=inv, types={"removal": TList(REF)})})
    ex = Exec(repo, reg, info, c, prefix="C05.raising_selection")
    H = Heap.fresh("R")
    st = State(heap=H)
    for t in H.typing():
        st.assume(t)
    tree = VRef(z3.Int(fresh_name("r_tree")))
    st.env.update(dict(tree=tree))
    ex.entry_heap = H.copy()
    x = z3.Int(fresh_name("rx"))
    st.assume(tree.t != 0)
    st.assume(tobool(WF(H, tree)))
    st.assume(tobool(wf_theory(H)))
    # boyd_split ran before: every node carries the two flags
    st.assume(qforall([x], z3.Implies(tobool(WF(H, VRef(x))), z3.And(z3.Select(H.f["has_split"], x),
                                                                    z3.Select(H.f["has_head_block"], x))),
                      [z3.Select(H.f["has_split"], x)]))
    ex.obligations = []
    outs = ex.exec_block([init, loop], st)
    outs = ex._with_raises(st, outs)
    vcs = []
    for oi, o in enumerate(outs):
        if o.kind != "normal":
            raise Unsupported("the selection loop has an exceptional exit (%s)" % (o.exc,))
        vcs.append(("path%d.exactly_the_non_head_block_split_nodes_in_preorder" % oi, list(o.st.pc),
                    listed(H, tree, o.st.env["removal"], H.pre(tree).n)))
    for ob in ex.obligations:
        vcs.append(("loop.%s" % ob.name.split(".", 2)[-1], list(ob.pc), ob.goal))
    return vcs


lemma_raising_selection.target = "trees.transform.raising"
LEMMAS["raising_selection"] = lemma_raising_selection


# ----------------------------------------------------------------------------------------------------------------------
# boyd_split, one block node (the body of `for i, block in enumerate(blocks)`): the new node is a copy of the split
# constituent marked split, with the constituent's head flag and the block's number, appended to the old parent; it
# takes over exactly the children of the block, in order; and it is the *head block* exactly when the block holds the
# piece of the head child that carries the head: a child with `head` that is not itself a split node, or is the head
# block of its own split.  (Raw heap in the middle of the surgery: no well-formedness is assumed, only that the block's
# members are distinct children of the constituent.)
# ----------------------------------------------------------------------------------------------------------------------
def lemma_boyd_block_node(reg, repo):
    import ast
    import z3
    from pyvc.core import Contract, Exec, State
    from pyvc.heap import Heap
    from pyvc.sym import (VRef, VBool, VInt, VList, REF, TList, tobool, toint, fresh_name, qforall, fresh, Unsupported)
    add_common(reg)
    qual = "trees.transform.boyd_split"
    info = repo.fns.get(qual)
    if info is None:
        raise Unsupported("function %s no longer exists" % qual)
    loop = None
    for node in ast.walk(info.node):
        if isinstance(node, ast.For) and ast.unparse(node.target) == "(i, block)":
            loop = node
    if loop is None:
        raise Unsupported("the block loop of boyd_split was not found (the contract no longer binds)")
    orig_inner = [n for s in loop.body for n in ast.walk(s) if isinstance(n, ast.For)]
    if len(orig_inner) != 1:
        raise Unsupported("expected one loop over the block's children, found %d" % len(orig_inner))
    # Extraction: the statement `subtree.children.remove(child)` (exactly one) is dropped from the copy that is
    # executed here -- its effect on the child list of the old constituent is the subject of the mover-step block
    # contract at that site (lemma mover.boyd_split); everything else of the loop body is executed as it stands.
    import copy
    body = copy.deepcopy(loop.body)
    dropped = [0]

    class Drop(ast.NodeTransformer):
        def visit_Expr(self, n):
            if ast.unparse(n) == "subtree.children.remove(child)":
                dropped[0] += 1
                return ast.copy_location(ast.Pass(), n)
            return n
    body = [ast.fix_missing_locations(Drop().visit(s_)) for s_ in body]
    if dropped[0] != 1:
        raise Unsupported("expected exactly one `subtree.children.remove(child)` in the block loop, found %d" % dropped[0])
    inner = [n for s_ in body for n in ast.walk(s_) if isinstance(n, ast.For)]
    c = Contract(target=qual, prop="C05", args={}, loops={})
    ex = Exec(repo, reg, info, c, prefix="C05.boyd_block_node")
    ex.loop_ords[id(inner[0])] = ex.loop_ords[id(orig_inner[0])]
    E = Heap.fresh("Y")
    st = State(heap=E.copy())
    for t in E.typing():
        st.assume(t)
    assume = []
    subtree, parent = VRef(z3.Int(fresh_name("y_subtree"))), VRef(z3.Int(fresh_name("y_parent")))
    block = fresh(TList(REF), "y_block", assume=assume)
    split = fresh(TList(REF), "y_split", assume=assume)
    i = VInt(z3.Int(fresh_name("y_i")))
    for t in assume:
        st.assume(t)
    st.env.update(dict(subtree=subtree, parent=parent, block=block, split=split, i=i, h_block="head_block"))
    ex.entry_heap = E
    a, b, q = z3.Int(fresh_name("ya")), z3.Int(fresh_name("yb")), z3.Int(fresh_name("yq"))
    alive = lambda r: z3.Select(E.f["alive"], r)
    where = z3.Function(fresh_name("y_where"), z3.IntSort(), z3.IntSort())     # index of block[a] in subtree.children
    st.assume(z3.And(subtree.t != 0, parent.t != 0, subtree.t != parent.t, alive(subtree.t), alive(parent.t),
                     z3.Select(E.f["has_head"], subtree.t)))
    st.assume(qforall([a], z3.Implies(z3.And(0 <= a, a < block.n), z3.And(
        block.get(a).t != 0, alive(block.get(a).t), block.get(a).t != subtree.t, block.get(a).t != parent.t,
        z3.Select(E.f["has_head"], block.get(a).t), z3.Select(E.f["has_split"], block.get(a).t),
        z3.Select(E.f["has_head_block"], block.get(a).t),
        0 <= where(a), where(a) < E.nchild_t(subtree.t), E.child_t(subtree.t, where(a)) == block.get(a).t)),
        [block.get(a).t]))
    st.assume(qforall([a, b], z3.Implies(z3.And(0 <= a, a < b, b < block.n), block.get(a).t != block.get(b).t),
                      [[block.get(a).t, block.get(b).t]]))

    def carries_head(r):
        """a child with the head flag that is not a split node, or is the head block of its own split"""
        return z3.And(z3.Select(E.f["val_head"], r),
                      z3.Or(z3.Not(z3.Select(E.f["val_split"], r)), z3.Select(E.f["val_head_block"], r)))

    def taken(H, N, upto):
        j = z3.Int(fresh_name("tj"))
        return z3.And(
            H.nchild_t(N) == upto,
            qforall([j], z3.Implies(z3.And(0 <= j, j < upto), z3.And(H.child_t(N, j) == block.get(j).t,
                                                                    H.parent_t(block.get(j).t) == N)), [block.get(j).t]),
            z3.Select(H.f["val_head_block"], N) == z3.Exists([j], z3.And(0 <= j, j < upto, carries_head(block.get(j).t))))

    def flags_frame(H, N):
        m = z3.Int(fresh_name("fm"))
        return z3.And(*[qforall([m], z3.Implies(m != N, z3.Select(H.f[k], m) == z3.Select(E.f[k], m)),
                                [z3.Select(H.f[k], m)])
                        for k in ("val_head", "val_split", "val_head_block", "has_head", "has_split", "has_head_block")])

    def inner_inv(S):
        H = S.H
        sp = S.split
        N = sp.get(sp.n - 1).t
        it = toint(S.it)
        j = z3.Int(fresh_name("ij"))
        qq = z3.Int(fresh_name("iq"))
        return VBool(z3.And(
            sp.n >= 1, N != 0, z3.Not(alive(N)), taken(H, N, it), flags_frame(H, N),
            z3.Select(H.f["has_head_block"], N), z3.Select(H.f["has_head"], N), z3.Select(H.f["has_split"], N),
            # the new node stays where it was hooked in
            H.parent_t(N) == parent.t, H.nchild_t(parent.t) == E.nchild_t(parent.t) + 1,
            H.child_t(parent.t, E.nchild_t(parent.t)) == N))

    ex.c.loops = {ex.loop_ords[id(inner[0])]: dict(inv=inner_inv, types={"split": TList(REF)})}
    ex.obligations = []
    outs = ex._with_raises(st, ex.exec_block(body, st))
    vcs = []
    for oi, o in enumerate(outs):
        if o.kind == "raise":
            # 'heads not marked?' needs a node without the head flag: excluded by the precondition
            vcs.append(("path%d.L%s.no_exception_when_heads_are_marked" % (oi, o.val), list(o.st.pc), z3.BoolVal(False)))
            continue
        if o.kind != "normal":
            raise Unsupported("the block-node step leaves the loop body by %s" % o.kind)
        H = o.st.heap
        sp = ex.iter_list(o.st.env["split"], o.st, None)
        N = sp.get(sp.n - 1).t
        sel = lambda f, r: z3.Select(H.f[f], r)
        goals = {
            "new_node_is_a_marked_copy_appended_to_the_old_parent": z3.And(
                sp.n == split.n + 1, N != 0, z3.Not(alive(N)),
                sel("val_split", N), sel("val_head", N) == z3.Select(E.f["val_head"], subtree.t),
                sel("val_block_number", N) == i.t + 1,
                sel("val_label", N) == z3.Select(E.f["val_label"], subtree.t),
                H.parent_t(N) == parent.t, H.nchild_t(parent.t) == E.nchild_t(parent.t) + 1,
                H.child_t(parent.t, E.nchild_t(parent.t)) == N),
            "takes_over_exactly_the_block_in_order_and_is_head_block_iff_it_holds_the_head_carrying_piece":
                taken(H, N, block.n),
            "flags_of_all_other_nodes_unchanged": flags_frame(H, N),
        }
        for gname, g in goals.items():
            vcs.append(("path%d.%s" % (oi, gname), list(o.st.pc), g))
    for ob in ex.obligations:
        vcs.append(("step.%s" % ob.name.split(".", 2)[-1], list(ob.pc), ob.goal))
    return vcs


lemma_boyd_block_node.target = "trees.transform.boyd_split"
LEMMAS["boyd_block_node"] = lemma_boyd_block_node
