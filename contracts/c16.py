"""C16 -- gap-degree kernel under contract."""
import z3
from pyvc.core import Contract
from pyvc.sym import (VInt, VBool, VRef, VList, INT, BOOL, STR, REF, TList, TRec, forall, implies, conj, disj, neg,
                      ite, length, fresh_name, tobool, toint, qforall)
from contracts.common import add_common, WF, cbreaks, gapdeg, terms_facts, T_idx, cbreaks_mono, lemma_cbreaks_mono, cbreaks_break, lemma_cbreaks_break

LEMMAS = {"cbreaks_mono": lemma_cbreaks_mono, "cbreaks_break": lemma_cbreaks_break}

VERIFY = ["trees.treeanalysis.gap_degree_node", "trees.treeanalysis.has_gaps",
          "trees.treeanalysis.gap_type", "trees.trees.terminal_blocks", "trees.treeanalysis.gap_degree",
          "trees.treeanalysis.SentenceCount.run", "trees.treeanalysis.PosTags.run",
          "trees.treeanalysis.GapDegree.run", "trees.treeanalysis.disco_order"]
SHARDS = {"trees.trees.terminal_blocks": 8}

TRUSTED = ["definition: gap degree of a node := cbreaks(nums(T(node)), |T|-1), the number of i with "
           "num(T[i])+1 < num(T[i+1]); for a strictly increasing sequence this is the number of maximal "
           "contiguous runs minus one (background lemma, DESIGN 3.9)"]
ASSUMPTIONS = ["int = mathematical integer; list value semantics; Tree heap model of DESIGN 3.3"]


def build(reg):
    add_common(reg)
    add_disco_order(reg)
    wf = lambda S, node: WF(S.H, node) & (node != None)

    reg.add(Contract(
        target="trees.treeanalysis.gap_degree_node", prop="C16", args=dict(node=REF),
        requires=wf,
        returns=lambda S, node: gapdeg(S.H, node),
        ensures={"set_based": lambda S, node, result: result == gapdeg(S.H, node)},
        result_type=INT,
        loops={0: dict(inv=lambda S: S.node_gap_deg == cbreaks(S.H, S.node, S.it))},
    ))

    reg.add(Contract(
        target="trees.treeanalysis.has_gaps", prop="C16", args=dict(tree=REF),
        requires=lambda S, tree: WF(S.H, tree) & (tree != None),
        ensures={"iff_positive": lambda S, tree, result: result == (gapdeg(S.H, tree) > 0)},
        result_type=BOOL,
    ))

    def gap_type_post(S, tree, result):
        H = S.H
        C = H.ochildren(tree)
        leaf = H.is_leaf(tree)
        passing = gapdeg(H, tree) > 0
        j = z3.Int(fresh_name("gj"))
        src = VBool(z3.Exists([j], z3.And(0 <= j, j < C.n, H.nchild_t(C.get(j).t) > 0,
                                          tobool(gapdeg(H, C.get(j)) > 0))))
        return ite(leaf, result == "none",
                   ite(passing, result == "pass",
                       ite(src, result == "source", result == "none")))

    reg.add(Contract(
        target="trees.treeanalysis.gap_type", prop="C16", args=dict(tree=REF),
        requires=lambda S, tree: WF(S.H, tree) & (tree != None),
        uses=[lambda S, tree: cbreaks_mono(S.H, tree), lambda S, tree: cbreaks_break(S.H, tree)],
        ensures={"classification": gap_type_post},
        result_type=STR,
        loops={
            0: dict(inv=lambda S: conj(
                S.pos == S.H.num(S.H.terms(S.tree)[0]) + S.it,
                S.pos == S.H.num(S.H.terms(S.tree)[S.it]),
                cbreaks(S.H, S.tree, S.it) == 0)),
            1: dict(inv=lambda S: conj(
                cbreaks(S.H, S.tree, length(S.H.terms(S.tree)) - 1) == 0,
                forall(lambda j: neg(conj(S.H.nchild(S.H.ochildren(S.tree)[j]) > 0,
                                          gapdeg(S.H, S.H.ochildren(S.tree)[j]) > 0)), 0, S.it))),
        },
    ))


    # ---------------------------------------------------------------- terminal_blocks
    def tb_parts(S, blocks, upto_closed, tree, bound):
        """facts about the blocks b < upto_closed (all complete runs); they end at or before position `bound` of T"""
        H = S.H
        T = H.terms(tree)
        b, j = z3.Int(fresh_name("b")), z3.Int(fresh_name("j"))
        blen = lambda q: blocks.get(q).n
        bel = lambda q, r: blocks.get(q).get(r)
        start = lambda q: T_idx(H, tree, bel(q, 0)).t
        nm = lambda r: H.num(r).t
        uc = toint(upto_closed)
        return VBool(z3.And(
            qforall([b], z3.Implies(z3.And(0 <= b, b < uc), z3.And(
                blen(b) >= 1, start(b) >= 0, start(b) + blen(b) <= bound,
                # a closed block ends in a break
                nm(T.get(start(b) + blen(b) - 1)) + 1 < nm(T.get(start(b) + blen(b))))), [blen(b)]),
            qforall([b, j], z3.Implies(z3.And(0 <= b, b < uc, 0 <= j, j < blen(b)),
                                       z3.And(bel(b, j).t == T.get(start(b) + j).t,
                                              T_idx(H, tree, bel(b, j)).t == start(b) + j)), [bel(b, j).t]),
            qforall([b, j], z3.Implies(z3.And(0 <= b, b < uc, 1 <= j, j < blen(b)),
                                       nm(bel(b, j)) == nm(bel(b, j - 1)) + 1), [bel(b, j).t]),
            qforall([b], z3.Implies(z3.And(0 <= b, b + 1 < uc), start(b + 1) == start(b) + blen(b)), [blen(b)]),
            z3.Implies(uc >= 1, start(0) == 0),
        ))

    def tb_inv(S):
        H, tree, blocks, it = S.H, S.tree, S.blocks, S.it
        T = H.terms(tree)
        nb = blocks.n
        last = blocks.get(nb - 1)
        L = last.n
        j = z3.Int(fresh_name("j"))
        itt = toint(it)
        start_open = itt - L
        closed_end = z3.If(nb >= 2,
                           T_idx(H, tree, blocks.get(nb - 2).get(0)).t + blocks.get(nb - 2).n, 0)
        nm = lambda r: H.num(r).t
        return conj(
            VBool(nb >= 1), VBool(L >= 0), VBool(L <= itt),
            tb_parts(S, blocks, VInt(nb - 1), tree, start_open),
            VBool(closed_end == start_open),
            VBool(qforall([j], z3.Implies(z3.And(0 <= j, j < L),
                                          z3.And(last.get(j).t == T.get(start_open + j).t,
                                                 T_idx(H, tree, last.get(j)).t == start_open + j)),
                          [last.get(j).t])),
            VBool(start_open >= 0),
            VBool(qforall([j], z3.Implies(z3.And(1 <= j, j < L), nm(last.get(j)) == nm(last.get(j - 1)) + 1),
                          [last.get(j).t])),
            # the open block is consecutive up to the element about to be processed
            VBool(z3.Implies(L >= 1, nm(T.get(itt)) >= nm(T.get(itt - 1)) + 1)),
            VBool(z3.Implies(z3.And(L >= 1, itt < T.n),
                             z3.Or(itt >= T.n, nm(T.get(itt - 1)) + 1 == nm(T.get(itt))))),
            VInt(nb) == cbreaks(H, tree, it) + 1,
        )

    def tb_post_partition(S, tree, result):
        H = S.H
        T = H.terms(tree)
        nb = result.n
        return conj(VBool(nb >= 1), tb_parts_open(S, result, tree),
                    VBool(T_idx(H, tree, result.get(nb - 1).get(0)).t + result.get(nb - 1).n == T.n))

    def tb_parts_open(S, blocks, tree):
        """as tb_parts for all blocks, but the break condition only between blocks"""
        H = S.H
        T = H.terms(tree)
        b, j = z3.Int(fresh_name("b")), z3.Int(fresh_name("j"))
        nb = blocks.n
        blen = lambda q: blocks.get(q).n
        bel = lambda q, r: blocks.get(q).get(r)
        start = lambda q: T_idx(H, tree, bel(q, 0)).t
        nm = lambda r: H.num(r).t
        return VBool(z3.And(
            # every block is a non-empty slice of T(tree) (positions in range)
            qforall([b], z3.Implies(z3.And(0 <= b, b < nb), z3.And(blen(b) >= 1, start(b) >= 0,
                                                                   start(b) + blen(b) <= T.n)), [blen(b)]),
            qforall([b, j], z3.Implies(z3.And(0 <= b, b < nb, 0 <= j, j < blen(b)),
                                       bel(b, j).t == T.get(start(b) + j).t), [bel(b, j).t]),
            qforall([b, j], z3.Implies(z3.And(0 <= b, b < nb, 1 <= j, j < blen(b)),
                                       nm(bel(b, j)) == nm(bel(b, j - 1)) + 1), [bel(b, j).t]),
            qforall([b], z3.Implies(z3.And(0 <= b, b + 1 < nb),
                                    z3.And(start(b + 1) == start(b) + blen(b),
                                           nm(bel(b, blen(b) - 1)) + 1 < nm(bel(b + 1, 0)))), [blen(b)]),
            start(0) == 0,
        ))

    reg.add(Contract(
        target="trees.trees.terminal_blocks", prop="C16", args=dict(tree=REF),
        requires=lambda S, tree: WF(S.H, tree) & (tree != None),
        ensures={
            "partition_into_runs_in_order": tb_post_partition,
            "count": lambda S, tree, result:
                length(result) == cbreaks(S.H, tree, length(S.H.terms(tree)) - 1) + 1,
        },
        result_type=TList(TList(REF)),
        loops={0: dict(inv=tb_inv, types={"blocks": TList(TList(REF))})},
    ))


    # ---------------------------------------------------------------- gap_degree (tree level) and the tasks
    from contracts.common import wf_theory, desc, preorder_facts
    from pyvc.sym import TRec, VRec

    def gd_post(S, tree, result):
        """the tree's gap degree is the maximum over its nodes"""
        H = S.H
        y = z3.Int(fresh_name("gy"))
        P = H.pre(tree)
        k = z3.Int(fresh_name("gk"))
        return VBool(z3.And(
            z3.ForAll([y], z3.Implies(z3.And(tobool(WF(H, VRef(y))), tobool(desc(H, tree, VRef(y)))),
                                      gapdeg(H, VRef(y)).t <= result.t)),
            z3.Exists([k], z3.And(0 <= k, k < P.n, gapdeg(H, P.get(k)).t == result.t))))

    reg.add(Contract(
        target="trees.treeanalysis.gap_degree", prop="C16", args=dict(tree=REF),
        requires=lambda S, tree: conj(WF(S.H, tree), tree != None, wf_theory(S.H)),
        ensures={"maximum_over_nodes": gd_post}, result_type=INT))

    reg.add(Contract(
        target="trees.treeanalysis.SentenceCount.run", prop="C16", args=dict(self=TRec(cnt=INT), tree=REF),
        ensures={"counts_one_sentence": lambda S, self, tree, result:
                 VBool(toint(S.final("self").fields["cnt"]) == toint(self.fields["cnt"]) + 1)},
        result_type=INT))

    # ---- PosTags.run: one tag per token, in token order
    from pyvc.sym import TMap, VMap, TOpt, _sel, key_term, INT_KEY, KEY_INT, KeyS, qforall as _qf

    def sv(x):
        """string term of a list element that may be wrapped as 'possibly None'"""
        return x.val.t if hasattr(x, "isnone") else x.t

    def pt_inv(S):
        H, tree, it = S.H, S.tree, toint(S.it)
        tags, tags0 = S.final("self").fields["tags"], S.entry("self").fields["tags"]
        T = H.terms(tree)
        j = z3.Int(fresh_name("tj"))
        return conj(VBool(tags.n == tags0.n + it),
                    VBool(z3.ForAll([j], z3.Implies(z3.And(0 <= j, j < tags0.n), sv(tags.get(j)) == sv(tags0.get(j))))),
                    VBool(z3.ForAll([j], z3.Implies(z3.And(0 <= j, j < it),
                                                    sv(tags.get(tags0.n + j)) == H.label(T.get(j)).t))))

    def pt_post(S, self, tree, result):
        H = S.H
        tags, tags0 = S.final("self").fields["tags"], self.fields["tags"]
        T = H.terms(tree)
        j = z3.Int(fresh_name("tj"))
        return VBool(z3.And(tags.n == tags0.n + T.n,
                            z3.ForAll([j], z3.Implies(z3.And(0 <= j, j < tags0.n), sv(tags.get(j)) == sv(tags0.get(j)))),
                            z3.ForAll([j], z3.Implies(z3.And(0 <= j, j < T.n),
                                                      sv(tags.get(tags0.n + j)) == H.label(T.get(j)).t))))

    def pt_requires(S, self, tree):
        H = S.H
        T = H.terms(tree)
        j = z3.Int(fresh_name("tj"))
        return conj(WF(H, tree), tree != None,
                    VBool(z3.ForAll([j], z3.Implies(z3.And(0 <= j, j < T.n), z3.And(
                        H.has(T.get(j), "label").t, z3.Not(H.data(T.get(j), "label").isnone))))))

    reg.add(Contract(
        target="trees.treeanalysis.PosTags.run", prop="C16", args=dict(self=TRec(tags=TList(STR)), tree=REF),
        requires=pt_requires,
        ensures={"one_tag_per_token_in_order": pt_post}, result_type=INT,
        loops={0: dict(inv=pt_inv, types={"self": TRec(tags=TList(STR))})}))

    # ---- GapDegree.run: per-degree counters
    def cnt_fn(H):
        """cnt(tree, d, k) = number of constituents among the first k nodes of P(tree) whose gap degree is d;
        mx(tree, k) = the largest gap degree among them (0 if none)"""
        args = H._shape_args()
        sorts = [a.sort() for a in args]
        key = "cnt"
        if not hasattr(cnt_fn, "cache"):
            cnt_fn.cache = {}
        if key not in cnt_fn.cache:
            I = z3.IntSort()
            f = z3.RecFunction("gd_cnt", *(sorts + [I, I, I, I]))
            g = z3.RecFunction("gd_max", *(sorts + [I, I, I]))
            ps = [z3.Const("gc_p%d" % i, srt) for i, srt in enumerate(sorts)]
            x, d, k = z3.Ints("gc_x gc_d gc_k")
            from pyvc.heap import Heap
            Hs = Heap(dict(zip(["parent", "nchild", "child", "has_num", "val_num"], ps)))
            node = lambda q: Hs.pre(VRef(x)).get(q)
            isc = lambda q: Hs.nchild_t(node(q).t) > 0
            gdq = lambda q: gapdeg(Hs, node(q)).t
            z3.RecAddDefinition(f, ps + [x, d, k], z3.If(k <= 0, 0, f(*(ps + [x, d, k - 1])) +
                                                        z3.If(z3.And(isc(k - 1), gdq(k - 1) == d), 1, 0)))
            prev = g(*(ps + [x, k - 1]))
            cur = z3.If(isc(k - 1), gdq(k - 1), 0)
            z3.RecAddDefinition(g, ps + [x, k], z3.If(k <= 0, 0, z3.If(prev >= cur, prev, cur)))
            cnt_fn.cache[key] = (f, g)
        f, g = cnt_fn.cache[key]
        return (lambda tree, d, k: f(*(args + [tree.t, d, k]))), (lambda tree, k: g(*(args + [tree.t, k])))

    def mval(m, d):
        """value of a counter dict at integer key d (0 when absent)"""
        kt = INT_KEY(d)
        return z3.If(_sel(m.pres[0], [kt]), _sel(m.val, [kt]), 0)

    GD_SELF = TRec(gaps_per_node=TMap(1), gaps_per_tree=TMap(1))

    def gd_inv(S):
        H, tree, it = S.H, S.tree, toint(S.it)
        cnt, mx = cnt_fn(H)
        m, m0 = S.final("self").fields["gaps_per_node"], S.entry("self").fields["gaps_per_node"]
        t, t0 = S.final("self").fields["gaps_per_tree"], S.entry("self").fields["gaps_per_tree"]
        d = z3.Int(fresh_name("gd"))
        return conj(VBool(toint(S.tree_gap_deg) == mx(tree, it)), VBool(toint(S.tree_gap_deg) >= 0),
                    VBool(z3.ForAll([d], mval(m, d) == mval(m0, d) + cnt(tree, d, it))),
                    VBool(z3.ForAll([d], mval(t, d) == mval(t0, d))))

    def gd_run_post(S, self, tree, result):
        H = S.H
        cnt, mx = cnt_fn(H)
        P = H.pre(tree)
        m, m0 = S.final("self").fields["gaps_per_node"], self.fields["gaps_per_node"]
        t, t0 = S.final("self").fields["gaps_per_tree"], self.fields["gaps_per_tree"]
        d = z3.Int(fresh_name("gd"))
        return VBool(z3.And(
            z3.ForAll([d], mval(m, d) == mval(m0, d) + cnt(tree, d, P.n)),
            z3.ForAll([d], mval(t, d) == mval(t0, d) + z3.If(d == mx(tree, P.n), 1, 0))))

    reg.add(Contract(
        target="trees.treeanalysis.GapDegree.run", prop="C16", args=dict(self=GD_SELF, tree=REF),
        requires=lambda S, self, tree: conj(WF(S.H, tree), tree != None, wf_theory(S.H)),
        ensures={"per_degree_counters": gd_run_post}, result_type=INT,
        loops={0: dict(inv=gd_inv, types={"self": GD_SELF})}))


# ----------------------------------------------------------------------------------------------------------------------
# disco_order: the continuous reordering lists exactly the tokens below the node, each once
# ----------------------------------------------------------------------------------------------------------------------
def add_disco_order(reg):
    from pyvc.sym import qforall, TList, VRef, tostr, tobool, fresh_name
    from contracts.common import wf_theory, wf_theory_tokens, desc

    def tokens_once(H, tree, r):
        """r lists tokens below `tree`, no token twice, and as many as there are below tree (so: each exactly once)"""
        i, j = z3.Int(fresh_name("di")), z3.Int(fresh_name("dj"))
        el = lambda q: r.get(q).t
        return z3.And(
            r.n == H.nleaves(tree).t,
            qforall([i], z3.Implies(z3.And(0 <= i, i < r.n), z3.And(
                el(i) != 0, tobool(WF(H, VRef(el(i)))), H.nchild_t(el(i)) == 0,
                tobool(desc(H, tree, VRef(el(i)))))), [el(i)]),
            qforall([i, j], z3.Implies(z3.And(0 <= i, i < j, j < r.n), el(i) != el(j)), [[el(i), el(j)]]))

    def requires(S, tree, mode):
        H = S.H
        x = z3.Int(fresh_name("bx"))
        return conj(WF(H, tree), tree != None, wf_theory(H), wf_theory_tokens(H),
                    VBool(z3.Or(tostr(mode) == z3.StringVal("left"), tostr(mode) == z3.StringVal("rightd"))),
                    # binarized below the node
                    VBool(qforall([x], z3.Implies(z3.And(tobool(WF(H, VRef(x))), tobool(desc(H, tree, VRef(x)))),
                                                  H.nchild_t(x) <= 2), [H.nchild_t(x)])))

    reg.add(Contract(
        target="trees.treeanalysis.disco_order", prop="C16", args=dict(tree=REF, mode=STR),
        requires=requires,
        ensures={"every_token_below_exactly_once": lambda S, tree, mode, result: VBool(tokens_once(S.H, tree, result))},
        result_type=TList(REF),
        decreases=lambda S, tree, mode: S.H.hgt(tree),
        solver_hints={"post.": {"cli_s": 30}},
    ))


# ------------------------------------------------------------------------------------------------------------------
# the three places that depend on the gap degree agree (lemma over the contracts, no code of its own):
#   treeanalysis.gap_degree(tree) > 0
#     <=>  treeoutput.brackets refuses the tree            (condition of its raises clause, contracts/c02.py)
#     <=>  grammar.extract builds, for some constituent below the tree, a linearization with more than one argument
#          (block contract C06.lemma.extract.lin_blocks: #arguments == set-based gap degree + 1)
# ------------------------------------------------------------------------------------------------------------------
def lemma_three_way(reg, repo):
    from pyvc.heap import Heap
    from contracts.common import preorder_facts, wf_theory
    H = Heap.fresh("W")
    tree = VRef(z3.Int("w_tree"))
    G = VInt(z3.Int("w_gap_degree"))

    class _S(object):
        pass
    S = _S()
    S.H = S.old = H
    gd = reg.get("trees.treeanalysis.gap_degree").ensures["maximum_over_nodes"](S, tree, G)
    P = H.pre(tree)
    linlen = z3.Function("w_lin_arguments", z3.IntSort(), z3.IntSort())
    y, k = z3.Int("w_y"), z3.Int("w_k")
    lin_contract = z3.ForAll([y], z3.Implies(z3.And(tobool(WF(H, VRef(y))), H.nchild_t(y) > 0),
                                             linlen(y) == gapdeg(H, VRef(y)).t + 1))
    base = [tree.t != 0, tobool(WF(H, tree)), tobool(wf_theory(H)), tobool(preorder_facts(H, tree)), tobool(gd),
            lin_contract] + H.typing()
    writer_refuses = z3.Exists([k], z3.And(0 <= k, k < P.n, gapdeg(H, P.get(k)).t > 0))
    some_lin_discontinuous = z3.Exists([k], z3.And(0 <= k, k < P.n, H.nchild_t(P.get(k).t) > 0,
                                                   linlen(P.get(k).t) > 1))
    return [("gap_degree_positive_implies_writer_refuses", base + [G.t > 0], writer_refuses),
            ("writer_refuses_implies_gap_degree_positive", base + [writer_refuses], G.t > 0),
            ("gap_degree_positive_implies_some_linearization_has_several_arguments", base + [G.t > 0],
             some_lin_discontinuous),
            ("some_linearization_has_several_arguments_implies_gap_degree_positive", base + [some_lin_discontinuous],
             G.t > 0)]


LEMMAS["three_way"] = lemma_three_way
