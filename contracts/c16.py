"""C16 -- gap-degree kernel under contract."""
import z3
from pyvc.core import Contract
from pyvc.sym import (VInt, VBool, VRef, VList, INT, BOOL, STR, REF, TList, forall, implies, conj, disj, neg,
                      ite, length, fresh_name, tobool, toint)
from contracts.common import add_common, WF, cbreaks, gapdeg, terms_facts, T_idx, cbreaks_mono, lemma_cbreaks_mono, cbreaks_break, lemma_cbreaks_break

LEMMAS = {"cbreaks_mono": lemma_cbreaks_mono, "cbreaks_break": lemma_cbreaks_break}

VERIFY = ["trees.treeanalysis.gap_degree_node", "trees.treeanalysis.has_gaps",
          "trees.treeanalysis.gap_type"]

TRUSTED = ["definition: gap degree of a node := cbreaks(nums(T(node)), |T|-1), the number of i with "
           "num(T[i])+1 < num(T[i+1]); for a strictly increasing sequence this is the number of maximal "
           "contiguous runs minus one (background lemma, DESIGN 3.9)"]
ASSUMPTIONS = ["int = mathematical integer; list value semantics; Tree heap model of DESIGN 3.3"]


def build(reg):
    add_common(reg)
    wf = lambda S, node: WF(S.H, node) & (node != None)

    reg.add(Contract(
        target="trees.treeanalysis.gap_degree_node", prop="C16", args=dict(node=REF),
        requires=wf,
        ensures={"set_based": lambda S, node, result: result == gapdeg(S.H, node)},
        result_type=INT,
        loops={0: dict(inv=lambda S: S.node_gap_deg == cbreaks(S.H, S.node, S.it))},
    ))

    reg.add(Contract(
        target="trees.treeanalysis.has_gaps", prop="C16", args=dict(tree=REF),
        requires=lambda S, tree: WF(S.H, tree) & (tree != None),
        ensures={"iff_positive": lambda S, tree, result: result == (gapdeg(S.H, tree) > 0)},
        result_type=BOOL,
    ))

    def gap_type_post(S, tree, result):
        H = S.H
        C = H.ochildren(tree)
        leaf = H.is_leaf(tree)
        passing = gapdeg(H, tree) > 0
        j = z3.Int(fresh_name("gj"))
        src = VBool(z3.Exists([j], z3.And(0 <= j, j < C.n, H.nchild_t(C.get(j).t) > 0,
                                          tobool(gapdeg(H, C.get(j)) > 0))))
        return ite(leaf, result == "none",
                   ite(passing, result == "pass",
                       ite(src, result == "source", result == "none")))

    reg.add(Contract(
        target="trees.treeanalysis.gap_type", prop="C16", args=dict(tree=REF),
        requires=lambda S, tree: WF(S.H, tree) & (tree != None),
        uses=[lambda S, tree: cbreaks_mono(S.H, tree), lambda S, tree: cbreaks_break(S.H, tree)],
        ensures={"classification": gap_type_post},
        result_type=STR,
        loops={
            0: dict(inv=lambda S: conj(
                S.pos == S.H.num(S.H.terms(S.tree)[0]) + S.it,
                S.pos == S.H.num(S.H.terms(S.tree)[S.it]),
                cbreaks(S.H, S.tree, S.it) == 0)),
            1: dict(inv=lambda S: conj(
                cbreaks(S.H, S.tree, length(S.H.terms(S.tree)) - 1) == 0,
                forall(lambda j: neg(conj(S.H.nchild(S.H.ochildren(S.tree)[j]) > 0,
                                          gapdeg(S.H, S.H.ochildren(S.tree)[j]) > 0)), 0, S.it))),
        },
    ))
