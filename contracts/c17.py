"""C17 -- parse_split_specification: complete functional contract (clauses taken from the property text)."""
import z3
from pyvc.core import Contract, spec_split, IS_DIGIT, IS_INT_LIT, STR_TO_INT, ssum_fn, list_array, str_slice
from pyvc.sym import (VInt, VBool, VStr, VList, VOpt, VNone, INT, BOOL, STR, TList, TOpt, conj, disj, neg, ite,
                      implies, length, fresh_name, tobool, toint, qforall, as_opt, IntS, IntArr, StrS)

VERIFY = ["trees.treeoutput.parse_split_specification"]
SHARDS = {"trees.treeoutput.parse_split_specification": 8}

TRUSTED = ["str.split('_') abstracted to the uninterpreted list py_split(s,'_') (>= 1 piece, no piece contains '_')",
           "str.isdigit / int(str): uninterpreted; isdigit(s) and int(s) succeeding imply int(s) >= 0",
           "ssum background lemmas (update inside / above the summed prefix) are used as quantified facts; they are "
           "proved by explicit induction on the prefix length (LEMMAS ssum_update_above / ssum_update_inside)"]
ASSUMPTIONS = ["int = mathematical integer; // by the constant 100 is floor division"]

BASE = z3.Function("spec_base", StrS, IntS, IntArr)      # array of the sizes the specification asks for


def P(spec):
    return spec_split(spec, "_")


def pre(s):
    """s[:-1] (the very term the executor builds for that slice)"""
    return str_slice(s, None, -1)


def isP(s):
    return z3.And(z3.SuffixOf(z3.StringVal("%"), s), IS_DIGIT(pre(s)))


def isA(s):
    return z3.And(z3.Not(isP(s)), z3.SuffixOf(z3.StringVal("#"), s), IS_DIGIT(pre(s)))


def isRest0(s):
    return z3.And(z3.Not(isP(s)), z3.Not(isA(s)), s == z3.StringVal("rest"))


def base_val(s, size):
    n = STR_TO_INT(pre(s))
    return z3.If(isP(s), (n * size) / 100, z3.If(isA(s), n, 0))


def bad(spec, i):
    """part i makes the specification malformed"""
    Pl = P(spec)
    s = Pl.get(i).t
    j = z3.Int(fresh_name("bj"))
    earlier_rest = z3.Exists([j], z3.And(0 <= j, j < i, isRest0(Pl.get(j).t)))
    return z3.Or(z3.And(z3.Or(isP(s), isA(s)), z3.Not(IS_INT_LIT(pre(s)))),
                 z3.And(z3.Not(isP(s)), z3.Not(isA(s)), z3.Not(isRest0(s))),
                 z3.And(isRest0(s), earlier_rest))


def base_def(spec, size):
    """definition of the array BASE(spec, size) (a conservative definitional extension)"""
    Pl = P(spec)
    B = BASE(spec.t, size.t)
    i = z3.Int(fresh_name("di"))
    return z3.ForAll([i], z3.Implies(z3.And(0 <= i, i < Pl.n), z3.Select(B, i) == base_val(Pl.get(i).t, size.t)),
                     patterns=[z3.Select(B, i)])


def malformed(spec):
    Pl = P(spec)
    i = z3.Int(fresh_name("mi"))
    return z3.Exists([i], z3.And(0 <= i, i < Pl.n, bad(spec, i)))


def total(spec, size):
    return ssum_fn()(BASE(spec.t, size.t), P(spec).n)


def build(reg):
    def requires(S, split_spec, size):
        return conj(VBool(size.t >= 0), VBool(base_def(split_spec, size)))

    def raises_value_error(S, split_spec, size):
        # rejected exactly when malformed or demanding more trees than exist
        return VBool(z3.Or(malformed(split_spec), total(split_spec, size) > size.t))

    def inv(S):
        spec, size, parts, it = S.split_spec, S.size, S.parts, S.it
        ri = as_opt(S.rest_index)
        Pl = P(spec)
        B = BASE(spec.t, size.t)
        itt = toint(it)
        j = z3.Int(fresh_name("ij"))
        rv = toint(ri.val) if ri.val is not None else z3.IntVal(0)
        return conj(
            VBool(parts.n == itt),
            VBool(qforall([j], z3.Implies(z3.And(0 <= j, j < itt),
                                          z3.And(z3.Not(bad(spec, j)), toint(parts.get(j)) == z3.Select(B, j),
                                                 z3.Select(B, j) >= 0)),
                          [toint(parts.get(j)), Pl.get(j).t, z3.Select(B, j)])),
            VBool(ssum_fn()(list_array(parts), itt) == ssum_fn()(B, itt)),
            VBool(ri.isnone == z3.ForAll([j], z3.Implies(z3.And(0 <= j, j < itt), z3.Not(isRest0(Pl.get(j).t))))),
            VBool(z3.Implies(z3.Not(ri.isnone), z3.And(0 <= rv, rv < itt, isRest0(Pl.get(rv).t)))),
        )

    def post_len(S, split_spec, size, result):
        return VBool(result.n == P(split_spec).n)

    def post_sum(S, split_spec, size, result):
        return VBool(ssum_fn()(list_array(result), result.n) == size.t)

    def post_nonneg(S, split_spec, size, result):
        j = z3.Int(fresh_name("nj"))
        return VBool(z3.ForAll([j], z3.Implies(z3.And(0 <= j, j < result.n), toint(result.get(j)) >= 0)))

    def post_follows_spec(S, split_spec, size, result):
        """absolute sizes exact, percentages rounded down, the remainder to `rest`, else to the first largest part"""
        Pl = P(split_spec)
        B = BASE(split_spec.t, size.t)
        n = Pl.n
        j, k, t = z3.Int(fresh_name("fj")), z3.Int(fresh_name("fk")), z3.Int(fresh_name("ft"))
        r = lambda q: toint(result.get(q))
        b = lambda q: z3.Select(B, q)
        has_rest = z3.Exists([k], z3.And(0 <= k, k < n, isRest0(Pl.get(k).t)))
        exact = z3.ForAll([j], z3.Implies(z3.And(0 <= j, j < n), r(j) == b(j)))
        # t: the part that receives the remainder
        target_ok = z3.Exists([t], z3.And(
            0 <= t, t < n, r(t) >= b(t),
            z3.ForAll([j], z3.Implies(z3.And(0 <= j, j < n, j != t), r(j) == b(j))),
            z3.If(has_rest, isRest0(Pl.get(t).t),
                  z3.ForAll([j], z3.Implies(z3.And(0 <= j, j < n),
                                            z3.And(b(j) <= b(t), z3.Implies(j < t, b(j) < b(t))))))))
        return VBool(z3.Or(exact, target_ok))

    reg.add(Contract(
        target="trees.treeoutput.parse_split_specification", prop="C17",
        args=dict(split_spec=STR, size=INT), requires=requires,
        raises={"ValueError": raises_value_error},
        ensures={"one_size_per_part": post_len, "sizes_sum_to_size": post_sum, "non_negative": post_nonneg,
                 "follows_specification": post_follows_spec},
        result_type=TList(INT),
        loops={0: dict(inv=inv, types={"parts": TList(INT), "rest_index": TOpt(INT)})},
    ))


def lemma_ssum_above(reg, repo):
    """i >= k  ->  ssum(a[i := v], k) == ssum(a, k)      (induction on k)"""
    f = ssum_fn()
    a = z3.Const("sa", IntArr)
    i, v, k = z3.Ints("si sv sk")
    A = z3.Store(a, i, v)
    return [("base", [k <= 0], f(A, k) == f(a, k)),
            ("step", [k > 0, i >= k, f(A, k - 1) == f(a, k - 1)], f(A, k) == f(a, k))]


def lemma_ssum_inside(reg, repo):
    """0 <= i < k  ->  ssum(a[i := v], k) == ssum(a, k) - a[i] + v      (induction on k from i + 1, over the lemma
    above at k = i)"""
    f = ssum_fn()
    a = z3.Const("sa", IntArr)
    i, v, k = z3.Ints("si sv sk")
    A = z3.Store(a, i, v)
    return [("base", [0 <= i, k == i + 1, f(A, i) == f(a, i)], f(A, k) == f(a, k) - z3.Select(a, i) + v),
            ("step", [0 <= i, k > i + 1, f(A, k - 1) == f(a, k - 1) - z3.Select(a, i) + v],
             f(A, k) == f(a, k) - z3.Select(a, i) + v)]


LEMMAS = {"ssum_update_above": lemma_ssum_above, "ssum_update_inside": lemma_ssum_inside}
# the two lemmas are proved from the recursive definition of ssum alone (not from themselves)
LEMMA_HINTS = {"ssum_update_above": {"no_background": True}, "ssum_update_inside": {"no_background": True}}
