"""C03 -- the one clause of the property that is a statement about a single function: "trees from a format without
lemma, morphology or edge information can still be written in the formats that have those fields".  For the export
format (v3 and v4) this is the contract of treeoutput.export_format (shared with C02): for a node whose edge, morph
and lemma entries are None the line is produced with '--' in their place, no exception is possible, and nothing but
those three defaults is stored.  Totality and losslessness of whole conversions through the command line (argparse,
files, codecs, gzip, directory mode, every format pair) are not statements about functions pyvc can reach; they are
decided by the bounded stand-in only (bounded/c03.py)."""
from contracts import c02

VERIFY = ["trees.treeoutput.export_format"]
TRUSTED = list(c02.TRUSTED) + ["contract of trees.get_label (proved under C20) used at the call site"]
ASSUMPTIONS = list(c02.ASSUMPTIONS) + ["the node has word / morph / lemma / edge entries (values may be None, as every reader "
                                     "initialises them) and a numbered parent"]


def build(reg):
    c02.build(reg)
