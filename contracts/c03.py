"""C03 -- the one clause of the property that is a statement about a single function: "trees from a format without
lemma, morphology or edge information can still be written in the formats that have those fields".  For the export
format (v3 and v4) this is the contract of treeoutput.export_format (shared with C02): for a node whose edge, morph
and lemma entries are None the line is produced with '--' in their place, no exception is possible, and nothing but
those three defaults is stored.  Totality and losslessness of whole conversions through the command line (argparse,
files, codecs, gzip, directory mode, every format pair) are not statements about functions pyvc can reach; they are
decided by the bounded stand-in only (bounded/c03.py)."""
from contracts import c02

VERIFY = ["trees.treeoutput.export_format"]
TRUSTED = list(c02.TRUSTED) + ["contract of trees.get_label (proved under C20) used at the call site"]
ASSUMPTIONS = list(c02.ASSUMPTIONS) + [
    "options_dict step: the value part of an option is ASCII, so that str.isdigit implies int() accepts it (isdigit is "
    "also true of superscript digits, on which int() raises ValueError)","the node has word / morph / lemma / edge entries (values may be None, as every reader "
                                     "initialises them) and a numbered parent"]


def build(reg):
    c02.build(reg)


# ----------------------------------------------------------------------------------------------------------------------
# misc.options_dict, loop body: one option string -> exactly one store into the result dict
# ----------------------------------------------------------------------------------------------------------------------
def lemma_options_dict_step(reg, repo):
    """for an option without ':' the key is the option itself and the value True; otherwise (parts = the stripped option
    split at ':') the key is parts[0] and the value is int(parts[1]) when parts[1] is all digits, else the string
    parts[1]; nothing else is stored and no exception is possible"""
    import ast
    import z3
    from pyvc.core import Contract, Exec, State, spec_split, IS_DIGIT, STR_TO_INT, STR_STRIP
    from pyvc.heap import Heap
    from pyvc.sym import VStr, VInt, VRec, tobool, tostr, toint, Unsupported
    qual = "trees.misc.options_dict"
    info = repo.fns.get(qual)
    if info is None:
        raise Unsupported("function %s no longer exists" % qual)
    loops = [n for n in ast.walk(info.node) if isinstance(n, ast.For)]
    if len(loops) != 1:
        raise Unsupported("expected exactly one loop in options_dict (the contract no longer binds)")
    c = Contract(target=qual, prop="C03", args={})
    ex = Exec(repo, reg, info, c, prefix="C03.options_dict_step")
    H = Heap.fresh("O")
    st = State(heap=H)
    opt = VStr(z3.String("o_option"))
    st.env.update(dict(option=opt, result=VRec("storelog", {"log": []})))
    ex.entry_heap = H.copy()
    colon = z3.Contains(opt.t, z3.StringVal(":"))
    parts = spec_split(VStr(STR_STRIP(opt.t)), ":")
    p0, p1 = tostr(parts.get(0)), tostr(parts.get(1))
    # block precondition: the value part is ASCII, where str.isdigit implies that int() accepts the string
    # (str.isdigit is also true of e.g. superscript digits, which int() rejects)
    from pyvc.core import IS_INT_LIT
    st.assume(z3.Implies(IS_DIGIT(p1), IS_INT_LIT(p1)))
    ex.obligations = []
    outs = ex.exec_block(loops[0].body, st)
    outs = ex._with_raises(st, outs)
    vcs = []
    for oi, o in enumerate(outs):
        if o.kind != "normal":
            raise Unsupported("the loop body of options_dict has an exceptional exit (%s)" % (o.exc,))
        log = o.st.env["result"].fields["log"]
        if len(log) != 1:
            raise Unsupported("expected exactly one store into the result per option, found %d" % len(log))
        key, val = log[0]
        keyt = tostr(key) if not isinstance(key, str) else z3.StringVal(key)
        goals = {"key": keyt == z3.If(colon, p0, opt.t)}
        if val is True:
            goals["value_true_iff_no_colon"] = z3.Not(colon)
        elif isinstance(val, VInt):
            goals["value_int_of_digits"] = z3.And(colon, IS_DIGIT(p1), toint(val) == STR_TO_INT(p1))
        elif isinstance(val, VStr):
            goals["value_string_when_not_digits"] = z3.And(colon, z3.Not(IS_DIGIT(p1)), tostr(val) == p1)
        else:
            raise Unsupported("unexpected value %r stored by options_dict" % (val,))
        for gname, g in goals.items():
            vcs.append(("path%d.%s" % (oi, gname), list(o.st.pc), g))
    if len(outs) != 3:
        raise Unsupported("expected three cases (no colon / digits / other) in the loop body of options_dict")
    for ob in ex.obligations:
        vcs.append(("safe.%s" % ob.name.split(".", 2)[-1], list(ob.pc), ob.goal))
    return vcs


lemma_options_dict_step.target = "trees.misc.options_dict"
LEMMAS = {"options_dict_step": lemma_options_dict_step}
TRUSTED = TRUSTED + ["str.strip / str.split(':') / str.isdigit / int(): uninterpreted with the axioms listed by the engine"]
