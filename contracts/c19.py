"""C19 -- navigation API under contract (siblings, dominance, lca)."""
import z3
from pyvc.core import Contract
from pyvc.heap import Heap
from pyvc.sym import (VInt, VBool, VRef, VList, VNone, INT, BOOL, STR, REF, TList, TTuple, forall, implies, conj,
                      disj, neg, ite, length, fresh_name, tobool, toint, qforall)
from contracts.common import add_common, WF, wf_theory, C_idx, desc

VERIFY = ["trees.trees.right_sibling", "trees.trees.left_sibling", "trees.trees.dominance", "trees.trees.lca"]

TRUSTED = ["wf_theory / wf_theory_tokens: a well-formed tree admits ghost functions depth/anc/pos/C_idx/rank/NL/SNL with "
           "the axioms of contracts/common.py (validated on enumerated trees by bounded/c19.py clause ghost_axioms)",
           "pre_def: the spec lists P / Q (preorder / postorder) are *defined* by recursion over the ordered child "
           "lists through the node counts NN / SNNC (conservative definition; its clauses, incl. monotone prefix sums, "
           "are validated by ghost_axioms)",
           "terminals / children are verified against characterisations (only tokens below, strictly increasing, every "
           "token below occurs, as many as NL / a permutation of the stored list in strict order of least token); that "
           "such a list is unique - so it is the list T / C callers reason about - is the lemma sorted_enumeration_unique, "
           "proved in lean/Background.lean and checked by Lean on every run; applying it (members := tokens below x, "
           "key := num) is the remaining paper step",
           "sorted(list, key=f) is modelled as: a permutation of its argument whose keys are non-decreasing"]
ASSUMPTIONS = ["Tree.__eq__/__ne__ is identity on references (from Tree.id, unique per instance)",
               "int = mathematical integer; list value semantics; Tree heap model of DESIGN 3.3"]


def right_of(H, t):
    p = H.parent(t)
    C = H.ochildren(p)
    i = C_idx(H, t).t
    return VRef(z3.If(p.t == 0, 0, z3.If(i + 1 < C.n, C.get(i + 1).t, 0)))


def left_of(H, t):
    p = H.parent(t)
    C = H.ochildren(p)
    i = C_idx(H, t).t
    return VRef(z3.If(p.t == 0, 0, z3.If(i >= 1, C.get(i - 1).t, 0)))


def as_ref(v):
    """None -> ref 0"""
    if v is VNone or v is None:
        return VRef(0)
    return v


def build(reg):
    add_common(reg)
    build_levels(reg)
    wfreq = lambda S, tree: WF(S.H, tree) & (tree != None) & wf_theory(S.H)

    reg.add(Contract(
        target="trees.trees.right_sibling", prop="C19", args=dict(tree=REF), requires=wfreq,
        ensures={"neighbour_in_ordered_children": lambda S, tree, result: as_ref(result) == right_of(S.H, tree)},
        result_type=REF,
        loops={0: dict(inv=lambda S: forall(lambda j: S.H.ochildren(S.H.parent(S.tree))[j] != S.tree, 0, S.it))},
    ))
    reg.add(Contract(
        target="trees.trees.left_sibling", prop="C19", args=dict(tree=REF), requires=wfreq,
        ensures={"neighbour_in_ordered_children": lambda S, tree, result: as_ref(result) == left_of(S.H, tree)},
        result_type=REF,
        loops={0: dict(inv=lambda S: forall(lambda j: S.H.ochildren(S.H.parent(S.tree))[j + 1] != S.tree, 0, S.it))},
    ))

    # ---- dominance: the parent chain from the node to the root
    def dom_post(S, tree, result):
        H = S.H
        n = result.n
        j = z3.Int(fresh_name("dj"))
        return conj(
            VBool(n == H.depth(tree).t + 1),
            VBool(result.get(0).t == tree.t),
            VBool(qforall([j], z3.Implies(z3.And(0 <= j, j < n),
                                          result.get(j).t == H.anc(tree, VInt(H.depth(tree).t - j)).t), [])),
            VBool(H.parent_t(result.get(n - 1).t) == 0))

    def dom_inv(S):
        H, tree, y, parent = S.H, S.tree, S.yielded, S.parent
        n = y.n
        j = z3.Int(fresh_name("dj"))
        return conj(
            VBool(n >= 1), VBool(n <= H.depth(tree).t + 1),
            VBool(parent.t == H.anc(tree, VInt(H.depth(tree).t - (n - 1))).t),
            VBool(y.get(0).t == tree.t),
            VBool(qforall([j], z3.Implies(z3.And(0 <= j, j < n),
                                          y.get(j).t == H.anc(tree, VInt(H.depth(tree).t - j)).t), [])))

    reg.add(Contract(
        target="trees.trees.dominance", prop="C19", args=dict(tree=REF), requires=wfreq,
        ensures={"path_to_root": dom_post}, result_type=TList(REF),
        loops={0: dict(inv=dom_inv, yield_type=REF,
                       variant=lambda S: S.H.depth(S.parent))},
    ))

    # ---- lca
    def chain_inv(name):
        def inv(S):
            H = S.H
            start = getattr(S, "tree_a" if name == "dom_a" else "tree_b")
            dom, parent = getattr(S, name), S.parent
            n = dom.n
            j = z3.Int(fresh_name("cj"))
            return conj(
                VBool(n >= 1), VBool(n <= H.depth(start).t + 1),
                VBool(parent.t == H.anc(start, VInt(H.depth(start).t - (n - 1))).t),
                VBool(qforall([j], z3.Implies(z3.And(0 <= j, j < n),
                                              dom.get(j).t == H.anc(start, VInt(H.depth(start).t - j)).t), [])),
                # the first chain is complete while the second is built
                (lambda: VBool(z3.BoolVal(True)))() if name == "dom_a" else chain_done(S, S.dom_a, S.tree_a))
        return inv

    def chain_done(S, dom, start):
        H = S.H
        j = z3.Int(fresh_name("cj"))
        return conj(VBool(dom.n == H.depth(start).t + 1),
                    VBool(qforall([j], z3.Implies(z3.And(0 <= j, j < dom.n),
                                                  dom.get(j).t == H.anc(start, VInt(H.depth(start).t - j)).t), [])))

    def lca_post(S, tree_a, tree_b, result):
        H = S.H
        r = as_ref(result)
        a_dom_b = desc(H, tree_a, tree_b)
        b_dom_a = desc(H, tree_b, tree_a)
        d = z3.Int(fresh_name("ld"))
        return conj(
            # none is reported exactly when one dominates the other
            (r == VRef(0)) == disj(a_dom_b, b_dom_a),
            implies(r != VRef(0), conj(
                WF(H, r), desc(H, r, tree_a), desc(H, r, tree_b),
                # lowest: at the next depth the two ancestor chains differ
                VBool(H.anc(tree_a, VInt(H.depth(r).t + 1)).t != H.anc(tree_b, VInt(H.depth(r).t + 1)).t),
                VBool(H.depth(r).t + 1 <= H.depth(tree_a).t), VBool(H.depth(r).t + 1 <= H.depth(tree_b).t))))

    reg.add(Contract(
        target="trees.trees.lca", prop="C19", args=dict(tree_a=REF, tree_b=REF),
        requires=lambda S, tree_a, tree_b: conj(WF(S.H, tree_a), WF(S.H, tree_b), tree_a != None, tree_b != None,
                                                wf_theory(S.H),
                                                # same tree: common root
                                                S.H.anc(tree_a, 0) == S.H.anc(tree_b, 0)),
        uses=[lambda S, tree_a, tree_b: anc_eq_down(S.H, tree_a, tree_b)],
        ensures={"lowest_common_dominator": lca_post}, result_type=REF,
        loops={
            0: dict(inv=chain_inv("dom_a"), variant=lambda S: S.H.depth(S.parent)),
            1: dict(inv=chain_inv("dom_b"), variant=lambda S: S.H.depth(S.parent)),
            2: dict(inv=lambda S: conj(
                chain_done(S, S.dom_a, S.tree_a), chain_done(S, S.dom_b, S.tree_b),
                forall(lambda j: S.H.anc(S.tree_a, j) == S.H.anc(S.tree_b, j), 0, S.it))),
        },
    ))


def anc_eq_down(H, a, b):
    """background lemma (LEMMAS['anc_eq_down'], induction on k - j): ancestor chains that meet at depth k
    coincide at every depth j <= k"""
    k, j = z3.Int(fresh_name("ak")), z3.Int(fresh_name("aj"))
    an = lambda x, d: H.anc(x, VInt(d)).t
    return VBool(z3.ForAll([k, j], z3.Implies(
        z3.And(0 <= j, j <= k, k <= H.depth(a).t, k <= H.depth(b).t, an(a, k) == an(b, k)),
        an(a, j) == an(b, j)), patterns=[z3.MultiPattern(an(a, k), an(b, j))]))


def lemma_anc_eq_down(reg, repo):
    H = Heap.fresh("L")
    a, b = VRef(z3.Int("la")), VRef(z3.Int("lb"))
    k, j = z3.Ints("lk lj")
    an = lambda x, d: H.anc(x, VInt(d)).t
    pc = [tobool(WF(H, a)), tobool(WF(H, b)), tobool(wf_theory(H)),
          0 <= j, j <= k, k <= H.depth(a).t, k <= H.depth(b).t]
    return [
        ("base", pc + [j == k, an(a, k) == an(b, k)], an(a, j) == an(b, j)),
        # induction step, downwards: equal at j (> 0) -> equal at j - 1
        ("step", pc + [j > 0, an(a, j) == an(b, j)], an(a, j - 1) == an(b, j - 1)),
    ]


def lemma_anc_anc(reg, repo):
    """anc(anc(x, d), k) == anc(x, k) for k <= d <= depth x  (induction downwards on k)"""
    H = Heap.fresh("L")
    x = VRef(z3.Int("lx"))
    d, k = z3.Ints("ld lk")
    an = lambda y, q: H.anc(y, VInt(q)).t
    y = VRef(an(x, d))
    pc = [tobool(WF(H, x)), tobool(wf_theory(H)), 0 <= k, k <= d, d <= H.depth(x).t]
    return [
        ("base", pc + [k == d], an(y, k) == an(x, k)),
        ("step", pc + [k > 0, an(y, k) == an(x, k)], an(y, k - 1) == an(x, k - 1)),
    ]


def anc_anc(H, x):
    d, k = z3.Int(fresh_name("cd")), z3.Int(fresh_name("ck"))
    an = lambda y, q: H.anc(y, VInt(q)).t
    return z3.ForAll([d, k], z3.Implies(z3.And(0 <= k, k <= d, d <= H.depth(x).t),
                                        an(VRef(an(x, d)), k) == an(x, k)),
                     patterns=[z3.MultiPattern(an(x, d), an(x, k))])


def lemma_lca_lowest(reg, repo):
    """over the contract of lca: every node dominating both arguments dominates the reported node"""
    H = Heap.fresh("L")
    a, b, r, dd = VRef(z3.Int("la")), VRef(z3.Int("lb")), VRef(z3.Int("lr")), VRef(z3.Int("ldn"))
    c = reg.get("trees.trees.lca")

    class S(object):
        pass
    S.H = H
    S.old = H
    an = lambda y, q: H.anc(y, VInt(q)).t
    k, dr = H.depth(dd).t, H.depth(r).t
    # ground instances of the two proved lemmas (anc_eq_down at (k, dr+1), anc_anc at (dr, k))
    inst1 = z3.Implies(z3.And(0 <= dr + 1, dr + 1 <= k, k <= H.depth(a).t, k <= H.depth(b).t, an(a, k) == an(b, k)),
                       an(a, dr + 1) == an(b, dr + 1))
    inst2 = z3.Implies(z3.And(0 <= k, k <= dr, dr <= H.depth(a).t), an(VRef(an(a, dr)), k) == an(a, k))
    post = tobool(c.ensures["lowest_common_dominator"](S, a, b, r))
    hyp = [post, r.t != 0, tobool(desc(H, dd, a)), tobool(desc(H, dd, b))]
    # step 1 (with the wf theory): depths are non-negative; step 2 (ground reasoning from the two lemma instances)
    return [("depths_nonneg", [tobool(c.requires(S, a, b)), tobool(WF(H, dd))] + hyp + H.typing(),
             z3.And(k >= 0, dr >= 0)),
            ("every_common_dominator_dominates_result", hyp + [inst1, inst2, k >= 0, dr >= 0],
             tobool(desc(H, dd, r)))]


def lemma_inverse(reg, repo):
    """left and right sibling are mutually inverse neighbours (over the two contracts)"""
    H = Heap.fresh("L")
    x = VRef(z3.Int("lx"))
    pc = [tobool(WF(H, x)), x.t != 0, tobool(wf_theory(H))] + H.typing()
    l, r = left_of(H, x), right_of(H, x)
    return [
        ("right_of_left", pc + [l.t != 0], right_of(H, l).t == x.t),
        ("left_of_right", pc + [r.t != 0], left_of(H, r).t == x.t),
    ]


LEMMAS = {"siblings_inverse": lemma_inverse, "anc_eq_down": lemma_anc_eq_down, "anc_anc": lemma_anc_anc,
          "lca_lowest": lemma_lca_lowest}


# ------------------------------------------------------------------------------------------------------------------
# trees.terminals verified against its characterisation F (callers use "result == T(tree)" with terms_facts; T(tree)
# is *defined* as the list characterised by F, which is unique -- the bridging fact is the sorted-list lemma of DESIGN 3.9)
# ------------------------------------------------------------------------------------------------------------------
from contracts.common import wf_theory_tokens
from pyvc.core import named_result


def all_tokens_in(H, tree, r, upto=None):
    """completeness: every token below `tree` (below one of its first `upto` stored children, if given) occurs in r"""
    y, i = z3.Int(fresh_name("cy")), z3.Int(fresh_name("ci"))
    dt = H.depth(tree).t
    cond = z3.And(tobool(WF(H, VRef(y))), H.nchild_t(y) == 0, tobool(desc(H, tree, VRef(y))))
    if upto is not None:
        cy = H.anc(VRef(y), VInt(dt + 1))
        cond = z3.And(cond, y != tree.t, H.pos(cy).t < upto)
    # (the trigger carrier TOK marks "y is being looked for"; it is the constant true)
    return qforall([y], z3.Implies(cond, z3.Exists([i], z3.And(0 <= i, i < r.n, r.get(i).t == y))),
                   [tobool(WF(H, VRef(y)))])


def F_terminals(H, tree, r):
    """r lists the tokens under `tree`: only tokens under tree, strictly increasing in num (globally), exactly
    as many as there are, and every token below tree occurs"""
    i, j = z3.Int(fresh_name("fi")), z3.Int(fresh_name("fj"))
    n = r.n
    el = lambda q: r.get(q).t
    return z3.And(
        all_tokens_in(H, tree, r),
        n >= 1, n == H.nleaves(tree).t,
        qforall([i], z3.Implies(z3.And(0 <= i, i < n), z3.And(
            el(i) != 0, tobool(WF(H, VRef(el(i)))), H.nchild_t(el(i)) == 0,
            z3.Select(H.f["has_num"], el(i)), tobool(desc(H, tree, VRef(el(i)))))), [el(i)]),
        qforall([i, j], z3.Implies(z3.And(0 <= i, i < j, j < n), H.num(VRef(el(i))).t < H.num(VRef(el(j))).t),
                [[el(i), el(j)]]),
    )


def terminals_verified_contract(reg):
    def requires(S, tree):
        return conj(WF(S.H, tree), tree != None, wf_theory(S.H), wf_theory_tokens(S.H))

    def inv(S):
        H, tree, result, it = S.H, S.tree, S.result, toint(S.it)
        c = reg.get("trees.trees.terminals")
        a, k = z3.Int(fresh_name("ia")), z3.Int(fresh_name("ik"))
        dt = H.depth(tree).t
        own = lambda q: H.pos(H.anc(result.get(q), VInt(dt + 1))).t          # stored position of the child it hangs below
        off = lambda q: H.snl(tree, q).t
        TT = lambda q: named_result(c, [VRef(H.child_t(tree.t, q))], H)       # the recursive result for child q
        return conj(
            VBool(result.n == off(it)),
            # what the recursive calls returned for the children processed so far
            VBool(qforall([k], z3.Implies(z3.And(0 <= k, k < it), F_terminals(H, VRef(H.child_t(tree.t, k)), TT(k))),
                          [H.child_t(tree.t, k)])),
            # every token below one of the children processed so far has been collected
            VBool(all_tokens_in(H, tree, result, upto=it)),
            # every element so far: which child it hangs below, and where it sits in that child's list
            VBool(qforall([a], z3.Implies(z3.And(0 <= a, a < result.n), z3.And(
                0 <= own(a), own(a) < it,
                H.parent_t(H.anc(result.get(a), VInt(dt + 1)).t) == tree.t,
                off(own(a)) <= a, a < off(own(a) + 1),
                result.get(a).t == TT(own(a)).get(a - off(own(a))).t)), [result.get(a).t])),
        )

    def no_duplicates(S):
        """ghost assertion after the loop: no node was collected twice"""
        H, tree, result = S.H, S.tree, S.result
        a, b = z3.Int(fresh_name("na")), z3.Int(fresh_name("nb"))
        el = lambda q: result.get(q).t
        return VBool(z3.And(
            qforall([a, b], z3.Implies(z3.And(0 <= a, a < b, b < result.n), el(a) != el(b)), [[el(a), el(b)]]),
            # ... and every collected node is a token below `tree`
            qforall([a], z3.Implies(z3.And(0 <= a, a < result.n), z3.And(
                el(a) != 0, tobool(WF(H, VRef(el(a)))), H.nchild_t(el(a)) == 0,
                tobool(desc(H, tree, VRef(el(a)))))), [el(a)])))

    def post(S, tree, result):
        return VBool(F_terminals(S.H, tree, result))

    return Contract(
        target="trees.trees.terminals", prop="C19", args=dict(tree=REF),
        requires=requires, ensures={"tokens_under_tree_in_order_and_all_of_them": post},
        result_type=TList(REF), result_name="py_terminals", heap_named=True,
        decreases=lambda S, tree: S.H.hgt(tree),
        loops={0: dict(inv=inv, types={"result": TList(REF)}, after=no_duplicates)},
        solver_hints={"inv0.keep": {"cli_s": 30}, "post.": {"cli_s": 30}, "inv0.after": {"cli_s": 30}},
    )


VERIFY_AS = {"trees.trees.terminals": terminals_verified_contract}
VERIFY.append("trees.trees.terminals")


# ------------------------------------------------------------------------------------------------------------------
# trees.children verified against its characterisation: a permutation of the stored child list, globally strictly
# ordered by the number of the least token (callers use "result == C(tree)" with children_facts; C(tree) is that
# unique list)
# ------------------------------------------------------------------------------------------------------------------
def lm(H, x):
    """number of the least token under x"""
    return H.num(H.terms(x).get(0)).t


def children_verified_contract(reg):
    def requires(S, tree):
        return conj(WF(S.H, tree), tree != None, wf_theory(S.H), wf_theory_tokens(S.H))

    def post(S, tree, result):
        H = S.H
        n = result.n
        i, j = z3.Int(fresh_name("ci")), z3.Int(fresh_name("cj"))
        el = lambda q: result.get(q).t
        return VBool(z3.And(
            n == H.nchild_t(tree.t),
            # every element is a stored child, at a stored position (pos), and different indices hold different children
            qforall([i], z3.Implies(z3.And(0 <= i, i < n), z3.And(
                el(i) != 0, H.parent_t(el(i)) == tree.t, tobool(WF(H, VRef(el(i)))),
                0 <= H.pos(VRef(el(i))).t, H.pos(VRef(el(i))).t < n,
                H.child_t(tree.t, H.pos(VRef(el(i))).t) == el(i))), [el(i)]),
            qforall([i, j], z3.Implies(z3.And(0 <= i, i < j, j < n),
                                       z3.And(el(i) != el(j), lm(H, VRef(el(i))) < lm(H, VRef(el(j))))),
                    [[el(i), el(j)]]),
        ))

    return Contract(
        target="trees.trees.children", prop="C19", args=dict(tree=REF),
        requires=requires, ensures={"stored_children_permuted_into_strict_order_of_least_token": post},
        result_type=TList(REF),
        solver_hints={"post.": {"cli_s": 30}},
    )


VERIFY_AS["trees.trees.children"] = children_verified_contract
VERIFY.append("trees.trees.children")


# ------------------------------------------------------------------------------------------------------------------
# trees.preorder verified against the recursive definition of the spec list P (contracts.common.pre_def) together
# with the facts callers use (preorder_facts): every node below the argument exactly once, the argument first
# ------------------------------------------------------------------------------------------------------------------
from contracts.common import pre_def, preorder_facts


def traversal_verified_contract(reg, post=False):
    off = 0 if post else 1
    L = (lambda H, t: H.post(t)) if post else (lambda H, t: H.pre(t))
    IDX = (lambda H, t, y: H.post_idx(t, y)) if post else (lambda H, t, y: H.pre_idx(t, y))

    def requires(S, tree):
        return conj(WF(S.H, tree), tree != None, wf_theory(S.H), wf_theory_tokens(S.H), pre_def(S.H, post))

    def elem_facts(H, tree, Y, lo, hi, shift=0):
        """the yielded nodes lo..hi-1 are P(tree)[lo+shift:hi+shift], well-formed nodes below tree, at their index"""
        from pyvc import sym as _sym
        a = z3.Int(fresh_name("ea"))
        P = L(H, tree)
        Y = _sym.coerce(Y, TList(REF))            # (the empty list of a generator that has not yielded yet)
        e = lambda q: P.get(q + shift)
        return qforall([a], z3.Implies(z3.And(lo <= a, a < hi), z3.And(
            Y.get(a).t == e(a).t, e(a).t != 0, tobool(WF(H, e(a))), tobool(desc(H, tree, e(a))),
            IDX(H, tree, e(a)).t == a + shift)), [Y.get(a).t])

    def order_facts(H, x):
        """ancestors before (postorder: after) their descendants"""
        y, z = z3.Int(fresh_name("oy")), z3.Int(fresh_name("oz"))
        iy, iz = IDX(H, x, VRef(y)).t, IDX(H, x, VRef(z)).t
        return qforall([y, z], z3.Implies(
            z3.And(tobool(WF(H, VRef(y))), tobool(WF(H, VRef(z))), tobool(desc(H, x, VRef(y))),
                   tobool(desc(H, VRef(y), VRef(z))), y != z),
            (iy > iz) if post else (iy < iz)), [[iy, iz]])

    def all_anc_anc(H):
        """lemma anc_anc (LEMMAS, proved by explicit induction) for every well-formed node"""
        x, d, k = z3.Int(fresh_name("ax")), z3.Int(fresh_name("ad")), z3.Int(fresh_name("ak"))
        an = lambda r, q: H.anc(VRef(r), VInt(q)).t
        return VBool(qforall([x, d, k], z3.Implies(
            z3.And(tobool(WF(H, VRef(x))), 0 <= k, k <= d, d <= H.depth(VRef(x)).t),
            an(an(x, d), k) == an(x, k)), [[an(x, d), an(x, k)]]))

    def outer_inv(S):
        H, tree, Y, it = S.H, S.tree, S.yielded, toint(S.it)
        k = z3.Int(fresh_name("ok"))
        C = H.ochildren(tree)
        return conj(
            VBool(Y.n == off + H.snnc(tree, it).t),
            VBool(elem_facts(H, tree, Y, 0, Y.n)),
            # what the recursive calls established for the children visited so far
            VBool(qforall([k], z3.Implies(z3.And(0 <= k, k < it),
                                          z3.And(tobool(preorder_facts(H, C.get(k), post)), order_facts(H, C.get(k)))),
                          [C.get(k).t])),
        )

    def inner_inv(S):
        H, tree, Y, it, child = S.H, S.tree, S.yielded, toint(S.it), S.child
        k = C_idx(H, child).t
        return conj(
            VBool(Y.n == off + H.snnc(tree, k).t + it),
            VBool(elem_facts(H, tree, Y, 0, Y.n)),
        )

    def below(S):
        """ghost assertion after the loops: a node strictly below `tree` hangs below exactly one ordered child"""
        H, tree = S.H, S.tree
        y = z3.Int(fresh_name("by"))
        d1 = H.depth(tree).t + 1
        cy = H.anc(VRef(y), VInt(d1))
        return VBool(qforall([y], z3.Implies(
            z3.And(tobool(WF(H, VRef(y))), tobool(desc(H, tree, VRef(y))), y != tree.t),
            z3.And(tobool(WF(H, cy)), H.parent_t(cy.t) == tree.t, tobool(desc(H, cy, VRef(y))),
                   0 <= C_idx(H, cy).t, C_idx(H, cy).t < H.nchild_t(tree.t),
                   H.ochildren(tree).get(C_idx(H, cy).t).t == cy.t,
                   IDX(H, tree, VRef(y)).t == off + H.snnc(tree, C_idx(H, cy).t).t + IDX(H, cy, VRef(y)).t)),
            [IDX(H, tree, VRef(y)).t]))

    name = "postorder" if post else "preorder"
    return Contract(
        target="trees.trees." + name, prop="C19", args=dict(tree=REF),
        requires=requires, returns=lambda S, tree: L(S.H, tree),
        ensures={"every_node_below_once_argument_%s" % ("last" if post else "first"):
                 lambda S, tree, result: preorder_facts(S.H, tree, post),
                 "ancestors_%s_descendants" % ("after" if post else "before"):
                 lambda S, tree, result: VBool(order_facts(S.H, tree))},
        uses=[lambda S, tree: all_anc_anc(S.H)],
        result_type=TList(REF),
        decreases=lambda S, tree: S.H.hgt(tree),
        loops={0: dict(inv=outer_inv, yield_type=REF, after=below), 1: dict(inv=inner_inv, yield_type=REF)},
        solver_hints={"inv0.keep": {"cli_s": 30}, "post.": {"cli_s": 30}, "inv0.after": {"cli_s": 30},
                      "inv1.keep": {"cli_s": 30}},
    )


def preorder_verified_contract(reg):
    return traversal_verified_contract(reg, post=False)


def postorder_verified_contract(reg):
    return traversal_verified_contract(reg, post=True)


VERIFY_AS["trees.trees.preorder"] = preorder_verified_contract
VERIFY.append("trees.trees.preorder")
VERIFY_AS["trees.trees.postorder"] = postorder_verified_contract
VERIFY.append("trees.trees.postorder")


# ------------------------------------------------------------------------------------------------------------------
# trees.levels: reverse_levels[x] is the longest downward path from x to a token, for exactly the constituents below
# the argument; levels[h] lists exactly the constituents of height h
# ------------------------------------------------------------------------------------------------------------------
def mh_def(H):
    """definition of MH(x) = max over the tokens t below x of depth(t) - depth(x), with a witness index into T(x)
    (validated on enumerated trees by bounded/c19.py, ghost_axioms)"""
    x, i = z3.Int(fresh_name("hx")), z3.Int(fresh_name("hi"))
    wf = lambda r: tobool(WF(H, VRef(r)))
    T = lambda r: H.terms(VRef(r))
    dep = lambda r: H.depth(VRef(r)).t
    mh = lambda r: H.mh(VRef(r)).t
    w = lambda r: H.mh_witness(VRef(r)).t
    return VBool(z3.And(
        qforall([x], z3.Implies(wf(x), z3.And(0 <= w(x), w(x) < T(x).n, mh(x) == dep(T(x).get(w(x)).t) - dep(x))),
                [mh(x)]),
        qforall([x, i], z3.Implies(z3.And(wf(x), 0 <= i, i < T(x).n), dep(T(x).get(i).t) - dep(x) <= mh(x)),
                [[wf(x), T(x).get(i).t]])))


def levels_contract(reg):
    from pyvc import sym as _sym
    LEV, REV = _sym.TSMap(TList(REF)), _sym.TSMap(INT)
    TYPES = {"levels": LEV, "reverse_levels": REV}

    def requires(S, tree):
        return conj(WF(S.H, tree), tree != None, wf_theory(S.H), mh_def(S.H))

    def cons_below(H, tree, x):
        return z3.And(tobool(WF(H, VRef(x))), tobool(desc(H, tree, VRef(x))), H.nchild_t(x) > 0)

    def maps_ok(H, tree, lev, rev, upto):
        """the two dicts describe exactly the constituents among the first `upto` nodes of the preorder"""
        P = H.pre(tree)
        k, x, l, j, j2 = (z3.Int(fresh_name(c)) for c in ("mk", "mx", "ml", "mj", "mq"))
        idx = lambda r: H.pre_idx(tree, VRef(r)).t
        mh = lambda r: H.mh(VRef(r)).t
        seen = lambda r: z3.And(0 <= idx(r), idx(r) < upto, P.get(idx(r)).t == r, H.nchild_t(r) > 0)
        row = lambda q: lev.get(q)
        return z3.And(
            qforall([k], z3.Implies(z3.And(0 <= k, k < upto, H.nchild_t(P.get(k).t) > 0), z3.And(
                tobool(rev.has(P.get(k).t)), rev.get(P.get(k).t).t == mh(P.get(k).t),
                tobool(lev.has(mh(P.get(k).t))),
                z3.Exists([j], z3.And(0 <= j, j < row(mh(P.get(k).t)).n, row(mh(P.get(k).t)).get(j).t == P.get(k).t)))),
                [P.get(k).t]),
            qforall([x], z3.Implies(tobool(rev.has(x)), seen(x)), [tobool(rev.has(x))]),
            qforall([l, j2], z3.Implies(z3.And(tobool(lev.has(l)), 0 <= j2, j2 < row(l).n),
                                        z3.And(seen(row(l).get(j2).t), mh(row(l).get(j2).t) == l)),
                    [row(l).get(j2).t]),
            qforall([l], row(l).n >= 0, [row(l).n]))

    def outer_inv(S):
        return VBool(maps_ok(S.H, S.tree, S.levels, S.reverse_levels, toint(S.it)))

    def middle_inv(S):
        H, sub, level, it = S.H, S.subtree, toint(S.level), toint(S.it)
        T = H.terms(sub)
        i = z3.Int(fresh_name("li"))
        diff = lambda q: H.depth(T.get(q)).t - H.depth(sub).t
        return conj(VBool(level >= 0),
                    VBool(qforall([i], z3.Implies(z3.And(0 <= i, i < it), diff(i) <= level), [T.get(i).t])),
                    VBool(z3.Or(level == 0, z3.Exists([i], z3.And(0 <= i, i < it, level == diff(i))))))

    def inner_inv(S):
        H, sub, t, pe, pl = S.H, S.subtree, S.terminal, S.path_element, toint(S.path_length)
        return conj(pe != None, WF(H, pe), VBool(pl >= 0),
                    VBool(pe.t == H.anc(t, VInt(H.depth(t).t - pl)).t),
                    VBool(H.depth(t).t - pl >= H.depth(sub).t))

    def post(S, tree, result):
        H = S.H
        lev, rev = result.items
        x, l, j, j2 = (z3.Int(fresh_name(c)) for c in ("px", "pl", "pj", "pq"))
        mh = lambda r: H.mh(VRef(r)).t
        row = lambda q: lev.get(q)
        return VBool(z3.And(
            # every constituent below the argument has its height recorded, and is listed under that height
            qforall([x], z3.Implies(cons_below(H, tree, x), z3.And(
                tobool(rev.has(x)), rev.get(x).t == mh(x), tobool(lev.has(mh(x))),
                z3.Exists([j], z3.And(0 <= j, j < row(mh(x)).n, row(mh(x)).get(j).t == x)))),
                [tobool(rev.has(x))]),
            # and nothing else is recorded
            qforall([x], z3.Implies(tobool(rev.has(x)), cons_below(H, tree, x)), [tobool(rev.has(x))]),
            qforall([l, j2], z3.Implies(z3.And(tobool(lev.has(l)), 0 <= j2, j2 < row(l).n),
                                        z3.And(cons_below(H, tree, row(l).get(j2).t), mh(row(l).get(j2).t) == l)),
                    [row(l).get(j2).t])))

    return Contract(
        target="trees.trees.levels", prop="C19", args=dict(tree=REF),
        requires=requires,
        ensures={"height_of_exactly_the_constituents_below": post},
        result_type=TTuple(LEV, REV),
        loops={0: dict(inv=outer_inv, types=TYPES),
               1: dict(inv=middle_inv, types=TYPES),
               2: dict(inv=inner_inv, types=TYPES, variant=lambda S: S.H.depth(S.path_element) - S.H.depth(S.subtree))},
        solver_hints={"inv0.keep": {"cli_s": 60}, "post.": {"cli_s": 30}},
    )


def build_levels(reg):
    reg.add(levels_contract(reg))


VERIFY.append("trees.trees.levels")


# ------------------------------------------------------------------------------------------------------------------
# background list lemmas checked by Lean (lean/Background.lean): the step from the verified characterisations of
# terminals / children to "the result is the list T(x) / C(x)"
# ------------------------------------------------------------------------------------------------------------------
def lemma_lean_background(reg, repo):
    import os
    import shutil
    import subprocess
    import time
    import re
    here = os.path.dirname(os.path.dirname(os.path.abspath(__file__)))
    path = os.path.join(here, "lean", "Background.lean")
    names = re.findall(r"^theorem\s+(\w+)", open(path, encoding="utf-8").read(), re.M)
    text = open(path, encoding="utf-8").read()
    banned = [w for w in ("sorry", "axiom ", "admit", "native_decide") if w in text.split("-/", 1)[-1]]
    t0 = time.time()
    if shutil.which("lean") is None or banned:
        return {n: ("unknown", "lean not available" if not banned else "file uses %s" % banned, 0.0) for n in names}
    env = dict(os.environ)
    try:
        p = subprocess.run(["lean", path], capture_output=True, text=True, timeout=900, env=env)
        ok = p.returncode == 0 and "error" not in (p.stdout + p.stderr)
        detail = "lean4+mathlib" if ok else "lean rejected: " + (p.stdout + p.stderr)[:200]
    except subprocess.TimeoutExpired:
        ok, detail = False, "lean timed out"
    dt = time.time() - t0
    return {n: (("unsat" if ok else "unknown"), detail, dt / max(1, len(names))) for n in names}


lemma_lean_background.external = True
LEMMAS["lean_background"] = lemma_lean_background
