"""run the deductive part of one property"""
import importlib
import multiprocessing
import os
import sys
import time
import traceback
import z3

from . import core, solve
from .sym import Unsupported

HERE = os.path.dirname(os.path.dirname(os.path.abspath(__file__)))


def load(prop):
    if HERE not in sys.path:
        sys.path.insert(0, HERE)
    mod = importlib.import_module("contracts." + prop.lower())
    reg = core.Registry()
    mod.build(reg)
    return mod, reg


def _gen(prop, target, repo_path):
    """symbolically execute one target; returns (exec, obligations) or raises Unsupported"""
    mod, reg = load(prop)
    repo = core.Repo(repo_path)
    alt = getattr(mod, "VERIFY_AS", {}).get(target)
    if alt is not None:
        # the function is verified against this contract (also used for its recursive calls); what callers assume
        # (reg entry) is derived from it by the module's bridging lemma
        reg.add(alt(reg))
    c = reg.get(target)
    if c is None:
        raise RuntimeError("no contract for %s" % target)
    info = repo.fns.get(target)
    if info is None:
        raise Unsupported("function %s no longer exists in the repository" % target)
    ex = core.Exec(repo, reg, info, c, prefix="%s.%s" % (prop, info.qual))
    obs = ex.run()
    missing = set(c.loops) - ex.covered_loops
    return ex, obs, info


def _work(task):
    prop, target, shard, nshards, repo_path, tier = task
    out = {"target": target, "shard": shard, "results": [], "error": None, "unsupported": None,
           "trusted": [], "n_total": 0, "info": None, "pre_sat": None, "exits_reachable": None}
    try:
        try:
            ex, obs, info = _gen(prop, target, repo_path)
        except Unsupported as u:
            out["unsupported"] = str(u)
            return out
        except (AttributeError, TypeError, KeyError, IndexError, z3.Z3Exception) as e:
            # the contract no longer fits the code's shape (e.g. a local has another type now):
            # a binding failure is undecided, never a violation
            out["unsupported"] = "contract does not bind to the current code: %s: %s @ %s" % (
                type(e).__name__, e, traceback.format_exc().strip().splitlines()[-3].strip()[:160])
            return out
        out["info"] = {"file": info.file, "function": target, "source_sha256": info.sha,
                       "loops": ex.nloops}
        out["n_total"] = len(obs)
        out["trusted"] = sorted(ex.trusted)
        if shard == 0:
            out["pre_sat"] = solve.is_sat(ex.pre_pc)
        not_proved = set()
        for k, ob in enumerate(obs):
            if k % nshards != shard:
                continue
            if ob.name in not_proved:
                # one undischarged path decides the obligation; the remaining paths would only cost time
                continue
            hints = None
            for pat, h in (getattr(ex.c, "solver_hints", None) or {}).items():
                if pat in ob.name:
                    hints = h
            local = None
            if ob.info.get("local_from") is not None:
                # Hoare-style attempt first: precondition + what was assumed/derived since the loop head
                local = list(ex.pre_pc) + list(ob.pc[ob.info["local_from"]:])
            r = solve.check_vc(ob.pc, ob.goal, tier, hints=hints, local=local)
            rec = {"name": ob.name, "kind": ob.kind, "status": r["status"], "backend": r.get("backend"),
                   "time": round(r.get("time", 0.0), 3), "info": ob.info, "k": k}
            if r["status"] == "sat":
                m = r.get("model")
                rec["model_text"] = (str(m)[:6000] if m is not None else r.get("model_text", ""))
                rec["goal_text"] = str(ob.goal)[:1500]
                if m is not None:
                    try:
                        rec["input"] = concretise(ex, m)
                    except Exception:
                        rec["input"] = None
                elif r.get("model_text"):
                    rec["input"] = concretise_text(ex, r["model_text"])
            out["results"].append(rec)
            if r["status"] != "unsat":
                not_proved.add(ob.name)
    except Exception:
        out["error"] = traceback.format_exc()
    return out


def concretise(ex, model):
    """Python values of the function's arguments in a counter-model (ints, strings, bools)"""
    from .sym import VInt, VStr, VBool, VRef
    vals = {}
    for n, v in ex.entry_args.items():
        if isinstance(v, VInt):
            x = model.eval(v.t, model_completion=True)
            vals[n] = x.as_long() if z3.is_int_value(x) else str(x)
        elif isinstance(v, VStr):
            x = model.eval(v.t, model_completion=True)
            vals[n] = x.as_string() if z3.is_string_value(x) else str(x)
        elif isinstance(v, VBool):
            vals[n] = z3.is_true(model.eval(v.t, model_completion=True))
        elif isinstance(v, VRef):
            vals[n] = {"ref": str(model.eval(v.t, model_completion=True))}
        else:
            vals[n] = {"unrendered": type(v).__name__}
    return vals


def concretise_text(ex, text):
    """argument values from the (get-model) output of a CLI solver (ints, strings, bools)"""
    import re
    from .sym import VInt, VStr, VBool
    vals = {}
    for n, v in ex.entry_args.items():
        if not isinstance(v, (VInt, VStr, VBool)):
            continue
        name = re.escape(str(v.t))
        m = re.search(r"\(define-fun \|?%s\|? \(\) \w+\s+(\"(?:[^\"]|\"\")*\"|\(- \d+\)|-?\d+|true|false)\)" % name, text)
        if not m:
            continue
        tok = m.group(1)
        if tok.startswith('"'):
            sv = tok[1:-1].replace('""', '"')
            sv = re.sub(r"\\u\{([0-9a-fA-F]+)\}", lambda q: chr(int(q.group(1), 16)), sv)
            vals[n] = sv
        elif tok in ("true", "false"):
            vals[n] = tok == "true"
        elif tok.startswith("(-"):
            vals[n] = -int(tok[2:-1].strip())
        else:
            vals[n] = int(tok)
    return vals or None


def run_property(prop, repo="/repo", tier="quick", jobs=16):
    t0 = time.time()
    mod, reg = load(prop)
    targets = list(mod.VERIFY)
    nsh = getattr(mod, "SHARDS", {})
    tasks = []
    for t in targets:
        k = nsh.get(t, 2)
        for s in range(k):
            tasks.append((prop, t, s, k, repo, tier))
    lemma_names = sorted(getattr(mod, "LEMMAS", {}))
    for ln in lemma_names:
        tasks.append((prop, "lemma:" + ln, 0, 1, repo, tier))
    ctx = multiprocessing.get_context("fork")
    if tasks:
        with ctx.Pool(min(jobs, max(1, len(tasks)))) as pool:
            outs = pool.map(_dispatch, tasks, chunksize=1)
    else:
        outs = []
    by_name = {}
    functions, errors, trusted = [], [], set()
    static_recs = []
    if hasattr(mod, "STATIC"):
        try:
            srepo = core.Repo(repo)
            for rec in mod.STATIC(srepo):
                static_recs.append(rec)
        except Exception:
            errors.append("static analysis crashed: " + traceback.format_exc())
    guards = {"functions_with_zero_obligations": [], "unsatisfiable_preconditions": [], "unsupported": {}}
    seen_fn = set()
    per_target_total = {}
    for o in outs:
        if o["error"]:
            errors.append("pyvc crashed on %s: %s" % (o["target"], o["error"]))
            continue
        if o["unsupported"]:
            guards["unsupported"][o["target"]] = o["unsupported"]
            by_name.setdefault("%s.%s.<outside-subset>" % (prop, o["target"].split(".", 2)[-1]), []).append(
                {"status": "unknown", "backend": None, "time": 0.0, "kind": "subset",
                 "info": {"reason": o["unsupported"]}})
            continue
        if o["info"] and o["target"] not in seen_fn:
            seen_fn.add(o["target"])
            functions.append(o["info"])
        per_target_total[o["target"]] = o["n_total"]
        trusted.update(o["trusted"])
        if o["pre_sat"] == "unsat":
            guards["unsatisfiable_preconditions"].append(o["target"])
        for r in o["results"]:
            by_name.setdefault(r["name"], []).append(r)
    for t, n in per_target_total.items():
        if n == 0:
            guards["functions_with_zero_obligations"].append(t)
    obligations = []
    for name in sorted(by_name):
        rs = by_name[name]
        sts = [r["status"] for r in rs]
        if "sat" in sts:
            status = "failed"
            r0 = [r for r in rs if r["status"] == "sat"][0]
        elif all(s == "unsat" for s in sts):
            status = "discharged"
            r0 = max(rs, key=lambda r: r["time"])
        else:
            status = "undecided"
            r0 = [r for r in rs if r["status"] != "unsat"][0]
        rec = {"name": name, "status": status, "paths": len(rs), "backend": r0.get("backend"),
               "time": round(sum(r["time"] for r in rs), 3), "kind": r0.get("kind"),
               "function": name.split(".")[1] if "." in name else name}
        if status == "failed":
            rec.update({"model_text": r0.get("model_text", ""), "goal_text": r0.get("goal_text", ""),
                        "input": r0.get("input"), "input_origin": "model" if r0.get("input") else "none"})
        if status == "undecided":
            rec["reason"] = (r0.get("info") or {}).get("reason") or r0.get("reason")
        obligations.append(rec)
    seen_static = set()
    for rec in static_recs:
        obligations.append({"name": rec["name"], "status": "discharged" if rec["ok"] else "failed", "paths": 1,
                            "backend": "static-frame-analysis", "time": 0.0, "kind": "frame",
                            "function": rec["function"], "model_text": rec["detail"], "goal_text": "frame holds",
                            "input": None, "input_origin": "none"})
        if rec["function"] not in seen_static and rec.get("sha"):
            seen_static.add(rec["function"])
            functions.append({"file": rec["file"], "function": rec["function"], "source_sha256": rec["sha"], "loops": 0})
    # replay counter-models on the real code where the contracts module knows how
    if hasattr(mod, "replay_model"):
        for rec in obligations:
            if rec["status"] == "failed" and rec.get("input"):
                try:
                    rp = mod.replay_model(rec, repo)
                    if rp:
                        rec.update(rp)
                except Exception:
                    rec["replay_error"] = traceback.format_exc()[-800:]
    if guards["functions_with_zero_obligations"]:
        errors.append("vacuity guard: no obligations generated for %s" % guards["functions_with_zero_obligations"])
    if guards["unsatisfiable_preconditions"]:
        errors.append("vacuity guard: contradictory precondition for %s" % guards["unsatisfiable_preconditions"])
    return {"obligations": obligations, "functions": functions, "errors": errors,
            "trusted_base": sorted(trusted | set(getattr(mod, "TRUSTED", []))),
            "assumptions": list(getattr(mod, "ASSUMPTIONS", [])),
            "guards": guards, "z3_version": z3.get_version_string(), "wall_s": round(time.time() - t0, 2)}


def _dispatch(task):
    if task[1].startswith("lemma:"):
        return _work_lemma(task)
    return _work(task)


def _work_lemma(task):
    prop, target, shard, nshards, repo_path, tier = task
    name = target[len("lemma:"):]
    out = {"target": target, "shard": 0, "results": [], "error": None, "unsupported": None,
           "trusted": [], "n_total": 0, "info": None, "pre_sat": None}
    try:
        mod, reg = load(prop)
        repo = core.Repo(repo_path)
        tgt = getattr(mod.LEMMAS[name], "target", None)
        if tgt and tgt in repo.fns:
            fi = repo.fns[tgt]
            out["info"] = {"file": fi.file, "function": tgt, "source_sha256": fi.sha, "loops": 0,
                           "kind": "block contract (statements located by pattern in this function)"}
        if getattr(mod.LEMMAS[name], "external", False):
            # a lemma checked by another tool (Lean): {sub-name: (status, back end, seconds)}
            res = mod.LEMMAS[name](reg, repo)
            out["n_total"] = len(res)
            for k, (sub, (status, backend, secs)) in enumerate(sorted(res.items())):
                out["results"].append({"name": "%s.lemma.%s.%s" % (prop, name, sub), "kind": "lemma", "status": status,
                                       "backend": backend, "time": round(secs, 3), "info": {}, "k": k})
            return out
        try:
            vcs = mod.LEMMAS[name](reg, repo)
        except Unsupported as u:
            out["unsupported"] = str(u)
            return out
        out["n_total"] = len(vcs)
        hints = (getattr(mod, "LEMMA_HINTS", None) or {}).get(name)
        checked = set()
        open_goals = set()
        vacuous = set()
        for k, (sub, pc, goal) in enumerate(vcs):
            key = tuple(t.get_id() for t in pc)
            if pc and key not in checked and len(checked) < 6 and (checked.add(key) or True) \
                    and solve.is_sat(pc, 700) == "unsat":
                vacuous.add(key)
            if key in vacuous:
                # contradictory hypotheses prove anything: such an obligation is not counted as discharged
                out["results"].append({"name": "%s.lemma.%s%s" % (prop, name, ("." + sub) if sub else ""),
                                       "kind": "lemma", "status": "unknown", "time": 0.0, "info": {}, "k": k,
                                       "backend": "vacuity guard: the hypotheses of this obligation are contradictory"})
                continue
            gkey = sub.split(".", 1)[1] if sub.startswith("path") and "." in sub else None
            if gkey is not None and gkey in open_goals:
                # the same goal is already open on an earlier path of this block: do not spend the budget again
                r = {"status": "unknown", "backend": "skipped (open on an earlier path)", "time": 0.0}
            else:
                r = solve.check_vc(pc, goal, tier, hints=hints)
                if r["status"] != "unsat" and gkey is not None:
                    open_goals.add(gkey)
            if r["status"] == "sat" and "(proof-internal)" in sub:
                # an auxiliary invariant of the proof (it speaks about incidental encodings, e.g. the numbers of the
                # automaton's states): refuting it refutes the proof, not the property -> undecided, never a violation
                r = dict(r, status="unknown", backend="%s refuted a proof-internal invariant" % r.get("backend"))
            rec = {"name": "%s.lemma.%s%s" % (prop, name, ("." + sub) if sub else ""), "kind": "lemma",
                   "status": r["status"], "backend": r.get("backend"), "time": round(r.get("time", 0.0), 3),
                   "info": {}, "k": k}
            if r["status"] == "sat":
                rec["model_text"] = (str(r.get("model")) if r.get("model") is not None else r.get("model_text") or "")[:4000]
                rec["goal_text"] = str(goal)[:1500]
            out["results"].append(rec)
    except Exception:
        out["error"] = traceback.format_exc()
    return out


def replay_obligation(prop, obligation, repo="/repo", model_input=None):
    res = run_property(prop, repo=repo, tier="quick", jobs=8)
    for o in res["obligations"]:
        if o["name"] == obligation:
            return {"status": o["status"], "backend": o.get("backend"), "input": o.get("input"),
                    "observed": o.get("observed")}
    return {"status": "missing"}
