"""Frame obligations (C18): which module-level / class-level / function-attribute
state does each function of the package read or write?

A purely syntactic, conservative analysis of the real AST (decided without a
solver).  For every function f of trees/*.py:

  writes(f)  : assignments / deletions / in-place mutations whose target is
               rooted in a non-local name (a module-level binding, a function
               object, a class, an imported module), and names declared `global`;
  state(f)   : loads of module-level *mutable* bindings that some function of
               the package writes, of attributes of function objects
               (f.fn, f.terminals), hasattr/getattr/setattr on such objects,
               of Tree.newid, of `.id` of a tree, and calls of builtin id()/hash().

Obligation `frame.<module>.<function>`: writes(f) U state(f) is a subset of the
set the sidecar allows for f (contracts/c18.py).  Everything not listed must
be empty, so a function that acquires a cache, a counter or any other memory
of earlier calls fails its frame obligation.
"""
import ast

MUTATORS = {"append", "extend", "insert", "remove", "pop", "clear", "update", "setdefault", "add", "discard",
            "sort", "reverse", "popitem", "appendleft", "subtract"}


def _is_const_expr(e):
    if isinstance(e, ast.Constant):
        return True
    if isinstance(e, ast.Tuple):
        return all(_is_const_expr(x) for x in e.elts)
    if isinstance(e, ast.UnaryOp):
        return _is_const_expr(e.operand)
    if isinstance(e, ast.BinOp):
        return _is_const_expr(e.left) and _is_const_expr(e.right)
    if isinstance(e, ast.JoinedStr):
        return True
    return False


class ModuleInfo(object):
    def __init__(self, name, tree):
        self.name = name
        self.consts, self.mutables, self.funcs, self.classes, self.imports = set(), set(), set(), set(), set()
        for node in tree.body:
            if isinstance(node, ast.FunctionDef):
                self.funcs.add(node.name)
            elif isinstance(node, ast.ClassDef):
                self.classes.add(node.name)
            elif isinstance(node, (ast.Import, ast.ImportFrom)):
                for a in node.names:
                    self.imports.add((a.asname or a.name).split(".")[0])
            elif isinstance(node, (ast.Assign, ast.AnnAssign, ast.AugAssign)):
                tgts = node.targets if isinstance(node, ast.Assign) else [node.target]
                val = node.value
                for t in tgts:
                    for n in ast.walk(t):
                        if isinstance(n, ast.Name):
                            if val is not None and _is_const_expr(val) and n.id not in self.mutables:
                                self.consts.add(n.id)
                            else:
                                self.consts.discard(n.id)
                                self.mutables.add(n.id)

    def globals(self):
        return self.consts | self.mutables | self.funcs | self.classes | self.imports


def _locals_of(fn):
    names = set(a.arg for a in fn.args.args + fn.args.kwonlyargs)
    if fn.args.vararg:
        names.add(fn.args.vararg.arg)
    if fn.args.kwarg:
        names.add(fn.args.kwarg.arg)
    declared_global = set()
    for n in ast.walk(fn):
        if isinstance(n, ast.Global):
            declared_global.update(n.names)
        if isinstance(n, ast.Nonlocal):
            declared_global.update(n.names)
    for n in ast.walk(fn):
        if isinstance(n, ast.Name) and isinstance(n.ctx, (ast.Store, ast.Del)) and n.id not in declared_global:
            names.add(n.id)
        elif isinstance(n, (ast.FunctionDef, ast.Lambda)) and n is not fn:
            if isinstance(n, ast.FunctionDef):
                names.add(n.name)
            for a in n.args.args:
                names.add(a.arg)
        elif isinstance(n, ast.ExceptHandler) and n.name:
            names.add(n.name)
        elif isinstance(n, ast.comprehension):
            for m in ast.walk(n.target):
                if isinstance(m, ast.Name):
                    names.add(m.id)
        elif isinstance(n, (ast.Import, ast.ImportFrom)):
            for a in n.names:
                names.add((a.asname or a.name).split(".")[0])
    return names, declared_global


def _root(e):
    """(root Name id, dotted path) of an attribute/subscript chain"""
    path = []
    while isinstance(e, (ast.Attribute, ast.Subscript, ast.Call)):
        if isinstance(e, ast.Attribute):
            path.append(e.attr)
            e = e.value
        elif isinstance(e, ast.Subscript):
            path.append("[]")
            e = e.value
        else:
            return None, None
    if isinstance(e, ast.Name):
        return e.id, ".".join([e.id] + list(reversed(path)))
    return None, None


def analyse_function(fn, minfo, all_written_globals, all_funcs_by_module):
    """returns (writes, state_reads) as sets of 'what @ L<line>' strings keyed by a stable name"""
    local, declared_global = _locals_of(fn)
    writes, reads = {}, {}

    def note(d, key, node):
        d.setdefault(key, []).append(getattr(node, "lineno", 0) - fn.lineno)

    for n in ast.walk(fn):
        # --- writes
        tgts = []
        if isinstance(n, ast.Assign):
            tgts = n.targets
        elif isinstance(n, (ast.AugAssign, ast.AnnAssign)):
            tgts = [n.target]
        elif isinstance(n, ast.Delete):
            tgts = n.targets
        for t in tgts:
            for sub in (t.elts if isinstance(t, (ast.Tuple, ast.List)) else [t]):
                if isinstance(sub, ast.Name):
                    if sub.id in declared_global:
                        note(writes, sub.id, n)
                elif isinstance(sub, (ast.Attribute, ast.Subscript)):
                    root, path = _root(sub)
                    if root is not None and root not in local:
                        note(writes, path, n)
        if isinstance(n, ast.Call) and isinstance(n.func, ast.Attribute) and n.func.attr in MUTATORS:
            root, path = _root(n.func.value)
            if root is not None and root not in local and root not in ("self",):
                note(writes, path + "." + n.func.attr + "()", n)
        if isinstance(n, ast.Call) and isinstance(n.func, ast.Name) and n.func.id in ("setattr", "delattr") and n.args:
            root, path = _root(n.args[0])
            if root is not None and root not in local:
                note(writes, "%s(%s)" % (n.func.id, path), n)
        # --- reads of state
        if isinstance(n, ast.Name) and isinstance(n.ctx, ast.Load) and n.id not in local:
            if n.id in all_written_globals.get(minfo.name, set()) or n.id in declared_global:
                note(reads, n.id, n)
        if isinstance(n, ast.Attribute) and isinstance(n.ctx, ast.Load):
            root, path = _root(n)
            if root is not None and root not in local:
                # attribute of a function object of this module (f.fn) or of a class (Tree.newid)
                if root in minfo.funcs or (root in minfo.classes and not _is_method_ref(n)):
                    note(reads, path, n)
                elif root in minfo.imports and path.count(".") >= 2:
                    # module.function.attr / module.Class.attr
                    parts = path.split(".")
                    if parts[1] in all_funcs_by_module.get(parts[0], set()):
                        note(reads, path, n)
                    if (parts[0], parts[1]) in all_written_globals.get("*attr", set()):
                        note(reads, path, n)
                elif root in minfo.imports and path.count(".") == 1:
                    mod, name = path.split(".")
                    if name in all_written_globals.get(mod, set()):
                        note(reads, path, n)
            if n.attr == "id":
                note(reads, "<tree>.id", n)
        if isinstance(n, ast.Call) and isinstance(n.func, ast.Name) and n.func.id in ("hasattr", "getattr") and n.args:
            root, path = _root(n.args[0])
            if root is not None and root not in local and (root in minfo.funcs or root in minfo.classes):
                note(reads, "%s(%s)" % (n.func.id, path), n)
        if isinstance(n, ast.Call) and isinstance(n.func, ast.Name) and n.func.id in ("id", "hash") and \
                n.func.id not in local:
            note(reads, "builtin %s()" % n.func.id, n)
    # decorators (functools.lru_cache & co. keep state across calls) and mutable default arguments
    for d in fn.decorator_list:
        name = ast.unparse(d)
        if name not in ("staticmethod", "classmethod", "property"):
            note(reads, "decorator @%s" % name.split("(")[0], d)
    for d in list(fn.args.defaults) + [x for x in fn.args.kw_defaults if x is not None]:
        if not _is_const_expr(d):
            note(reads, "mutable default argument", d)
    return writes, reads


def _is_method_ref(attr_node):
    return False


def analyse_repo(repo):
    """repo: pyvc.core.Repo.  returns {qualified function: (writes, reads)}"""
    minfos = {m: ModuleInfo(m, t) for m, t in repo.modules.items()}
    funcs_by_module = {m: set(i.funcs) for m, i in minfos.items()}
    # pass 1: which module-level names does any function write?
    written = {}
    for q, info in repo.fns.items():
        mi = minfos[info.module]
        w, _ = analyse_function(info.node, mi, {}, funcs_by_module)
        for key in w:
            root = key.split(".")[0].split("[")[0].split("(")[0]
            if root in mi.mutables or root in mi.consts:
                written.setdefault(info.module, set()).add(root)
            elif root in mi.imports:
                parts = key.replace("()", "").split(".")
                if len(parts) >= 2:
                    written.setdefault(parts[0], set()).add(parts[1])
            if key in w and root in _declared_globals(info.node):
                written.setdefault(info.module, set()).add(root)
    res = {}
    for q, info in repo.fns.items():
        mi = minfos[info.module]
        res[q] = analyse_function(info.node, mi, written, funcs_by_module)
    return res, minfos


def _declared_globals(fn):
    out = set()
    for n in ast.walk(fn):
        if isinstance(n, ast.Global):
            out.update(n.names)
    return out
