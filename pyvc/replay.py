"""replay of solver counter-models against the real code (under /venv/bin/python)"""
import json
import os
import subprocess
import tempfile

VENV_PY = "/venv/bin/python"

_SNIPPET = r'''
import json, sys, importlib, warnings
warnings.filterwarnings("ignore")
sys.dont_write_bytecode = True
repo, mod, fn, args, kwargs = json.loads(sys.argv[1])
sys.path.insert(0, repo)
m = importlib.import_module("trees." + mod)
f = m
for part in fn.split("."):
    f = getattr(f, part)
import io, contextlib
buf = io.StringIO()
try:
    with contextlib.redirect_stdout(buf), contextlib.redirect_stderr(buf):
        r = f(*args, **kwargs)
    print(json.dumps({"result": r}, default=repr))
except Exception as e:
    print(json.dumps({"raises": type(e).__name__, "message": str(e)}))
'''


def call_real(repo, module, fn, args, kwargs=None):
    """call trees.<module>.<fn>(*args, **kwargs) of `repo`; returns {'result':..} or {'raises':..}"""
    payload = json.dumps([os.path.abspath(repo), module, fn, list(args), kwargs or {}])
    p = subprocess.run([VENV_PY, "-c", _SNIPPET, payload], capture_output=True, text=True, timeout=60,
                       env=dict(os.environ, PYTHONDONTWRITEBYTECODE="1"))
    if p.returncode != 0:
        return {"error": p.stderr[-500:]}
    try:
        return json.loads(p.stdout.strip().splitlines()[-1])
    except Exception:
        return {"error": p.stdout[-300:]}
