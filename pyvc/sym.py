"""Symbolic values of pyvc and the small specification language of the sidecar
contracts.

Values: Python constants (int, bool, str, None, tuple/list of values) are kept
as they are; everything else is one of the V* classes below wrapping z3 terms.
Contracts are ordinary Python functions over these values; the operators of
the V classes build z3 terms, so one contract text can be evaluated
symbolically (pyvc) and -- for the helper functions of `spec` that dispatch
on the kind of their arguments -- concretely as well.
"""
import itertools
import z3

_counter = itertools.count()


_STABLE_PREFIX = [None]


def fresh_name(base):
    if _STABLE_PREFIX[0] is not None and base.startswith(_STABLE_PREFIX[0]):
        return base                  # values looked up in a symbolic dict are functions of the key: same names each time
    return "%s!%d" % (base, next(_counter))


IntS = z3.IntSort()
BoolS = z3.BoolSort()
StrS = z3.StringSort()
IntArr = z3.ArraySort(IntS, IntS)


class Unsupported(Exception):
    """construct outside the verified subset -> the function is undecided"""


# ----------------------------------------------------------------------------
# types (for fresh/havoc'ed values)
# ----------------------------------------------------------------------------

class T(object):
    pass


class TInt(T):
    def __repr__(self):
        return "int"


class TBool(T):
    def __repr__(self):
        return "bool"


class TStr(T):
    def __repr__(self):
        return "str"


class TRef(T):
    def __repr__(self):
        return "ref"


class TNone(T):
    def __repr__(self):
        return "None"


class TList(T):
    def __init__(self, elem):
        self.elem = elem

    def __repr__(self):
        return "list[%r]" % (self.elem,)


class TTuple(T):
    def __init__(self, *items):
        self.items = items

    def __repr__(self):
        return "tuple%r" % (self.items,)


class TDict(T):
    """read-only dict with string keys and values of type vt (symbolic content)"""
    def __init__(self, vt):
        self.vt = vt

    def __repr__(self):
        return "dict[str, %r]" % (self.vt,)


class TSMap(T):
    """mutable dict with int or node keys and values of type vt (int, or list of nodes / ints)"""
    def __init__(self, vt):
        self.vt = vt

    def __repr__(self):
        return "smap[%r]" % (self.vt,)


class TOpt(T):
    def __init__(self, inner):
        self.inner = inner

    def __repr__(self):
        return "opt[%r]" % (self.inner,)


class TRec(T):
    def __init__(self, _cls="rec", **fields):
        self.cls = _cls
        self.fields = fields


INT, BOOL, STR, REF = TInt(), TBool(), TStr(), TRef()


# ----------------------------------------------------------------------------
# values
# ----------------------------------------------------------------------------

class V(object):
    pass


def is_sym(x):
    return isinstance(x, V)


class VInt(V):
    def __init__(self, t):
        self.t = t if z3.is_expr(t) else z3.IntVal(t)

    def _o(self, o):
        o = lift(o)
        if not isinstance(o, VInt):
            raise Unsupported("int op with %r" % (o,))
        return o.t

    def __add__(self, o): return VInt(self.t + self._o(o))
    def __radd__(self, o): return VInt(self._o(o) + self.t)
    def __sub__(self, o): return VInt(self.t - self._o(o))
    def __rsub__(self, o): return VInt(self._o(o) - self.t)
    def __mul__(self, o): return VInt(self.t * self._o(o))
    def __rmul__(self, o): return VInt(self._o(o) * self.t)
    def __neg__(self): return VInt(-self.t)
    def __lt__(self, o): return VBool(self.t < self._o(o))
    def __le__(self, o): return VBool(self.t <= self._o(o))
    def __gt__(self, o): return VBool(self.t > self._o(o))
    def __ge__(self, o): return VBool(self.t >= self._o(o))
    def __eq__(self, o): return veq(self, o)
    def __ne__(self, o): return vnot(veq(self, o))
    __hash__ = None

    def __repr__(self):
        return "VInt(%s)" % self.t


class VBool(V):
    def __init__(self, t):
        self.t = t if z3.is_expr(t) else z3.BoolVal(bool(t))

    def __and__(self, o): return VBool(z3.And(self.t, tobool(o)))
    def __rand__(self, o): return VBool(z3.And(tobool(o), self.t))
    def __or__(self, o): return VBool(z3.Or(self.t, tobool(o)))
    def __ror__(self, o): return VBool(z3.Or(tobool(o), self.t))
    def __invert__(self): return VBool(z3.Not(self.t))
    def __eq__(self, o): return VBool(self.t == tobool(o))
    def __ne__(self, o): return VBool(self.t != tobool(o))
    __hash__ = None

    def __bool__(self):
        raise Unsupported("symbolic bool used as a Python bool (use &, |, ~, implies, ite)")

    def __repr__(self):
        return "VBool(%s)" % self.t


class VStr(V):
    def __init__(self, t):
        self.t = t if z3.is_expr(t) else z3.StringVal(t)

    def __add__(self, o): return VStr(z3.Concat(self.t, tostr(o)))
    def __radd__(self, o): return VStr(z3.Concat(tostr(o), self.t))
    def __eq__(self, o): return veq(self, o)
    def __ne__(self, o): return vnot(veq(self, o))
    __hash__ = None

    def __repr__(self):
        return "VStr(%s)" % self.t


class VRef(V):
    """a Tree reference; 0 is None"""
    def __init__(self, t):
        self.t = t if z3.is_expr(t) else z3.IntVal(t)

    def __eq__(self, o): return veq(self, o)
    def __ne__(self, o): return vnot(veq(self, o))
    __hash__ = None

    def __repr__(self):
        return "VRef(%s)" % self.t


class VNoneT(V):
    def __repr__(self):
        return "VNone"


VNone = VNoneT()


class VBottomT(V):
    """element of an empty list: never observable (every access is out of range);
    ite absorbs it, everything else rejects it"""
    def __repr__(self):
        return "VBottom"


VBottom = VBottomT()


class VOpt(V):
    """a value that may be None"""
    def __init__(self, isnone, val):
        self.isnone = isnone      # z3 Bool
        self.val = val            # V (meaningful when not isnone)

    def __repr__(self):
        return "VOpt(%s, %r)" % (self.isnone, self.val)


class VTuple(V):
    def __init__(self, items):
        self.items = list(items)

    def __repr__(self):
        return "VTuple(%r)" % (self.items,)


class VRec(V):
    """a record (object with attributes), e.g. trees.Label"""
    def __init__(self, cls, fields=None):
        self.cls = cls
        self.fields = dict(fields or {})

    def __getattr__(self, k):
        f = self.__dict__.get("fields", {})
        if k in f:
            return f[k]
        raise AttributeError(k)

    def __repr__(self):
        return "VRec(%s, %r)" % (self.cls, self.fields)


class VList(V):
    """list / tuple with value semantics: length term + element access.
    Either array-backed (arr: z3 Array Int->sort, wrap: term->V) or a closure
    (get: z3 Int term -> value)."""
    def __init__(self, n, get=None, arr=None, wrap=None, et=None, conc=None):
        self.n = n if z3.is_expr(n) else z3.IntVal(n)
        self._get = get
        self.arr = arr
        self.wrap = wrap
        self.et = et
        self.conc = conc          # python list of values when the list is fully concrete-shaped

    def get(self, i):
        i = i.t if isinstance(i, VInt) else (z3.IntVal(i) if isinstance(i, int) else i)
        if self.conc is not None and z3.is_int_value(z3.simplify(i)):
            k = z3.simplify(i).as_long()
            if 0 <= k < len(self.conc):
                return self.conc[k]
        if self.arr is not None:
            return self.wrap(z3.Select(self.arr, i))
        return self._get(i)

    def __getitem__(self, i):
        return self.get(i)

    def __repr__(self):
        return "VList(n=%s)" % self.n

    @staticmethod
    def from_py(items):
        items = list(items)
        n = len(items)

        def get(i, items=items):
            if not items:
                return VBottom
            res = items[-1]
            for k in range(len(items) - 2, -1, -1):
                res = vite(VBool(i == k), items[k], res)
            return res
        return VList(z3.IntVal(n), get=get, conc=items)


class VDict(V):
    """finite map with symbolic content: has(key term)->Bool, val(key term)->V; keys of one sort"""
    def __init__(self, kt, vt, has, val):
        self.kt, self.vt, self.has, self.val = kt, vt, has, val


KeyS = z3.DeclareSort("Key")
STR_KEY = z3.Function("key_of_str", StrS, KeyS)


class VKey(V):
    """an opaque hashable value used as a dict key (tuples of labels, linearizations, ...)"""
    def __init__(self, t):
        self.t = t

    def __repr__(self):
        return "VKey(%s)" % self.t


INT_KEY = z3.Function("key_of_int", IntS, KeyS)
KEY_INT = z3.Function("int_of_key", KeyS, IntS)


def int_key_axiom():
    """distinct integers are distinct dict keys"""
    a = z3.Int("ika")
    return z3.ForAll([a], KEY_INT(INT_KEY(a)) == a, patterns=[INT_KEY(a)])


class TMap(T):
    """nested dict of the given depth with integer leaves"""
    def __init__(self, depth):
        self.depth = depth

    def __repr__(self):
        return "map%d" % self.depth


def key_term(k):
    if isinstance(k, VKey):
        return k.t
    if isinstance(k, VInt):
        return INT_KEY(k.t)
    if isinstance(k, int) and not isinstance(k, bool):
        return INT_KEY(z3.IntVal(k))
    if isinstance(k, str):
        return STR_KEY(z3.StringVal(k))
    if isinstance(k, VStr):
        return STR_KEY(k.t)
    if isinstance(k, VOpt) and isinstance(k.val, VStr):
        # a string or None as a key (None is a key of its own; nothing is assumed about how the keys relate)
        return z3.If(k.isnone, z3.Const("key_of_None", KeyS), STR_KEY(k.val.t))
    raise Unsupported("dict key %r" % (k,))


def _nested_sort(depth, leaf):
    srt = leaf
    for _ in range(depth):
        srt = z3.ArraySort(KeyS, srt)
    return srt


def _sel(arr, keys):
    for k in keys:
        arr = z3.Select(arr, k)
    return arr


def _upd(arr, keys, v):
    if not keys:
        return v
    return z3.Store(arr, keys[0], _upd(z3.Select(arr, keys[0]), keys[1:], v))


class VMap(V):
    """nested dict of fixed depth D with opaque keys and integer leaves (e.g. grammar[func][lin][vert] -> count):
    pres[l] : Key^(l+1) -> Bool (is the key path present at level l), val : Key^D -> Int; a view has a prefix"""
    def __init__(self, depth, pres, val, prefix=()):
        self.depth, self.pres, self.val, self.prefix = depth, list(pres), val, tuple(prefix)

    @staticmethod
    def fresh(depth, name):
        pres = [z3.Const(fresh_name("%s_pres%d" % (name, l)), _nested_sort(l + 1, BoolS)) for l in range(depth)]
        val = z3.Const(fresh_name(name + "_val"), _nested_sort(depth, IntS))
        return VMap(depth, pres, val)

    def level(self):
        return len(self.prefix)

    def has(self, k):
        return VBool(_sel(self.pres[self.level()], list(self.prefix) + [key_term(k)]))

    def path_present(self):
        """all prefixes of this view are present"""
        conds = [_sel(self.pres[l], list(self.prefix[:l + 1])) for l in range(len(self.prefix))]
        return z3.And(*conds) if conds else z3.BoolVal(True)

    def get(self, k):
        keys = list(self.prefix) + [key_term(k)]
        if len(keys) == self.depth:
            return VInt(_sel(self.val, keys))
        return VMap(self.depth, self.pres, self.val, keys)

    def get_default(self, k, default):
        keys = list(self.prefix) + [key_term(k)]
        if len(keys) != self.depth:
            raise Unsupported(".get on an inner level of a nested dict")
        return VInt(z3.If(_sel(self.pres[self.depth - 1], keys), _sel(self.val, keys), toint(default)))

    def store(self, k, v):
        """self[k] = v ; returns the updated view (same prefix)"""
        keys = list(self.prefix) + [key_term(k)]
        l = len(keys) - 1
        pres = list(self.pres)
        val = self.val
        if isinstance(v, VMap):
            if [x.get_id() for x in v.prefix] == [x.get_id() for x in keys]:
                return VMap(self.depth, v.pres, v.val, self.prefix)       # a view written back into its own slot
            raise Unsupported("storing a foreign nested dict")
        if isinstance(v, VRec) and v.cls == "dict" and not v.fields:
            if len(keys) == self.depth:
                raise Unsupported("{} stored at leaf level")
            pres[l] = _upd(pres[l], keys, z3.BoolVal(True))
            # every deeper entry below this key path disappears
            empty = z3.K(KeyS, z3.BoolVal(False))
            pres[l + 1] = _upd(pres[l + 1], keys, empty)
            return VMap(self.depth, pres, val, self.prefix)
        if len(keys) == self.depth:
            pres[l] = _upd(pres[l], keys, z3.BoolVal(True))
            val = _upd(val, keys, toint(v))
            return VMap(self.depth, pres, val, self.prefix)
        raise Unsupported("store of %r into a nested dict" % (v,))

    def root(self):
        return VMap(self.depth, self.pres, self.val, ())


class VFun(V):
    """callable known to the executor (python function over values)"""
    def __init__(self, fn, name="<fn>"):
        self.fn = fn
        self.name = name

    def __call__(self, *a, **k):
        return self.fn(*a, **k)


# ----------------------------------------------------------------------------
# lifting and generic operations
# ----------------------------------------------------------------------------

def lift(x):
    if isinstance(x, V):
        return x
    if isinstance(x, bool):
        return VBool(z3.BoolVal(x))
    if isinstance(x, int):
        return VInt(z3.IntVal(x))
    if isinstance(x, str):
        return VStr(z3.StringVal(x))
    if x is None:
        return VNone
    if isinstance(x, (list, tuple)):
        return VList.from_py([y for y in x])
    raise Unsupported("cannot lift %r" % (x,))


def tobool(x):
    if isinstance(x, VBool):
        return x.t
    if isinstance(x, bool):
        return z3.BoolVal(x)
    raise Unsupported("expected a bool, got %r" % (x,))


def toint(x):
    if isinstance(x, VInt):
        return x.t
    if isinstance(x, bool):
        return z3.IntVal(1 if x else 0)
    if isinstance(x, int):
        return z3.IntVal(x)
    raise Unsupported("expected an int, got %r" % (x,))


def tostr(x):
    if isinstance(x, VStr):
        return x.t
    if isinstance(x, str):
        return z3.StringVal(x)
    raise Unsupported("expected a str, got %r" % (x,))


def vnot(b):
    if isinstance(b, bool):
        return not b
    return VBool(z3.Not(tobool(b)))


def vand(*bs):
    if all(isinstance(b, bool) for b in bs):
        return all(bs)
    return VBool(z3.And(*[tobool(b) for b in bs]))


def vor(*bs):
    if all(isinstance(b, bool) for b in bs):
        return any(bs)
    return VBool(z3.Or(*[tobool(b) for b in bs]))


def veq(a, b):
    """Python == on values (identity on refs, structural elsewhere)"""
    if not is_sym(a) and not is_sym(b):
        return a == b
    a, b = lift(a), lift(b)
    if isinstance(a, VOpt) or isinstance(b, VOpt):
        if isinstance(a, VOpt) and isinstance(b, VOpt):
            return VBool(z3.Or(z3.And(a.isnone, b.isnone),
                               z3.And(z3.Not(a.isnone), z3.Not(b.isnone), tobool(veq(a.val, b.val)))))
        o, x = (a, b) if isinstance(a, VOpt) else (b, a)
        if x is VNone:
            return VBool(o.isnone)
        return VBool(z3.And(z3.Not(o.isnone), tobool(veq(o.val, x))))
    if a is VNone or b is VNone:
        x = b if a is VNone else a
        if x is VNone:
            return True
        if isinstance(x, VRef):
            return VBool(x.t == 0)
        return False
    if isinstance(a, VInt) and isinstance(b, VInt):
        return VBool(a.t == b.t)
    if isinstance(a, VBool) and isinstance(b, VBool):
        return VBool(a.t == b.t)
    if isinstance(a, VBool) and isinstance(b, VInt) or isinstance(a, VInt) and isinstance(b, VBool):
        return VBool(toint_b(a) == toint_b(b))
    if isinstance(a, VStr) and isinstance(b, VStr):
        return VBool(a.t == b.t)
    if isinstance(a, VRef) and isinstance(b, VRef):
        return VBool(a.t == b.t)
    if isinstance(a, VTuple) and isinstance(b, VTuple):
        if len(a.items) != len(b.items):
            return False
        return vand(*[veq(x, y) for x, y in zip(a.items, b.items)]) if a.items else True
    if isinstance(a, VList) and isinstance(b, VList):
        j = z3.Int(fresh_name("eqi"))
        return VBool(z3.And(a.n == b.n,
                            z3.ForAll([j], z3.Implies(z3.And(0 <= j, j < a.n), tobool(veq(a.get(j), b.get(j)))))))
    if type(a) is not type(b):
        # values of different Python types are never equal (int/str/ref/tuple ...)
        return False
    raise Unsupported("== on %r and %r" % (a, b))


def toint_b(x):
    if isinstance(x, VBool):
        return z3.If(x.t, 1, 0)
    return x.t


def vite(c, a, b):
    """if-then-else on values"""
    if isinstance(c, bool):
        return a if c else b
    ct = tobool(c)
    if not is_sym(a) and not is_sym(b) and a is b:
        return a
    if a is VBottom:
        return b
    if b is VBottom:
        return a

    a, b = lift(a), lift(b)
    if isinstance(a, VInt) and isinstance(b, VInt):
        return VInt(z3.If(ct, a.t, b.t))
    if isinstance(a, VBool) and isinstance(b, VBool):
        return VBool(z3.If(ct, a.t, b.t))
    if isinstance(a, VStr) and isinstance(b, VStr):
        return VStr(z3.If(ct, a.t, b.t))
    if isinstance(a, VRef) and isinstance(b, VRef):
        return VRef(z3.If(ct, a.t, b.t))
    if a is VNone and b is VNone:
        return VNone
    if isinstance(a, VRef) and b is VNone:
        return VRef(z3.If(ct, a.t, 0))
    if a is VNone and isinstance(b, VRef):
        return VRef(z3.If(ct, 0, b.t))
    if isinstance(a, VTuple) and isinstance(b, VTuple) and len(a.items) == len(b.items):
        return VTuple([vite(c, x, y) for x, y in zip(a.items, b.items)])
    if isinstance(a, VList) and isinstance(b, VList):
        return VList(z3.If(ct, a.n, b.n), get=lambda i: vite(c, a.get(i), b.get(i)))
    if isinstance(a, VOpt) or isinstance(b, VOpt) or a is VNone or b is VNone:
        ao, bo = as_opt(a), as_opt(b)
        if ao.val is None:
            val = bo.val
        elif bo.val is None:
            val = ao.val
        else:
            val = vite(c, ao.val, bo.val)
        return VOpt(z3.If(ct, ao.isnone, bo.isnone), val)
    if isinstance(a, VRec) and isinstance(b, VRec) and set(a.fields) == set(b.fields):
        return VRec(a.cls, {k: vite(c, a.fields[k], b.fields[k]) for k in a.fields})
    # values of different kinds (e.g. an int stored into a list of strings): only when the condition is decided
    cs = z3.simplify(ct) if z3.is_expr(ct) else ct
    if z3.is_true(cs):
        return a
    if z3.is_false(cs):
        return b
    raise Unsupported("ite on %r and %r" % (a, b))


def as_opt(x):
    if isinstance(x, VOpt):
        return x
    if x is VNone:
        return VOpt(z3.BoolVal(True), None)
    return VOpt(z3.BoolVal(False), x)


def sort_of(ty):
    if isinstance(ty, (TInt, TRef)):
        return IntS
    if isinstance(ty, TBool):
        return BoolS
    if isinstance(ty, TStr):
        return StrS
    raise Unsupported("no first-order sort for %r" % (ty,))


def wrap_of(ty):
    if isinstance(ty, TInt):
        return VInt
    if isinstance(ty, TRef):
        return VRef
    if isinstance(ty, TBool):
        return VBool
    if isinstance(ty, TStr):
        return VStr
    raise Unsupported("no wrapper for %r" % (ty,))


def fresh(ty, name, idx=(), assume=None):
    """a fresh unconstrained value of type ty.  idx: z3 terms the value is a
    function of (used for elements of fresh lists).  assume: list collecting
    side conditions (e.g. lengths >= 0)."""
    if isinstance(ty, (TInt, TRef, TBool, TStr)):
        if not idx:
            t = z3.Const(fresh_name(name), sort_of(ty))
        else:
            f = z3.Function(fresh_name(name), *([i.sort() for i in idx] + [sort_of(ty)]))
            t = f(*idx)
        return wrap_of(ty)(t)
    if isinstance(ty, TNone):
        return VNone
    if isinstance(ty, TSMap):
        if idx:
            raise Unsupported("dict inside a symbolic container")
        m = VSMap.fresh(ty.vt, name)
        if assume is not None and m.ln is not None:
            q = z3.Int(fresh_name("q"))
            assume.append(z3.ForAll([q], z3.Select(m.ln, q) >= 0, patterns=[z3.Select(m.ln, q)]))
        return m
    if isinstance(ty, TDict):
        if idx:
            raise Unsupported("dict inside a symbolic container")
        base = fresh_name(name)
        hasf = z3.Function(base + "_has", StrS, BoolS)

        def val(k, _base=base, _vt=ty.vt):
            old = _STABLE_PREFIX[0]
            _STABLE_PREFIX[0] = _base
            try:
                return fresh(_vt, _base + "_val", idx=(k,), assume=None)
            finally:
                _STABLE_PREFIX[0] = old
        if assume is not None:
            # side conditions of the values (list lengths >= 0), for every key
            kq = z3.String(fresh_name("dk"))
            tmp = []
            old = _STABLE_PREFIX[0]
            _STABLE_PREFIX[0] = base
            try:
                fresh(ty.vt, base + "_val", idx=(kq,), assume=tmp)
            finally:
                _STABLE_PREFIX[0] = old
            assume.extend(tmp)
        return VDict(STR, ty.vt, lambda k: VBool(hasf(k)), val)
    if isinstance(ty, TOpt):
        isn = fresh(BOOL, name + "_isnone", idx).t
        return VOpt(isn, fresh(ty.inner, name + "_val", idx, assume))
    if isinstance(ty, TTuple):
        return VTuple([fresh(t, "%s_%d" % (name, k), idx, assume) for k, t in enumerate(ty.items)])
    if isinstance(ty, TList):
        n = fresh(INT, name + "_len", idx).t
        if assume is not None:
            if not idx:
                assume.append(n >= 0)
            else:
                # lengths of all inner lists are non-negative
                f = n.decl()
                vs = [z3.Const(fresh_name("q"), i.sort()) for i in idx]
                assume.append(z3.ForAll(vs, f(*vs) >= 0))
        if isinstance(ty.elem, (TInt, TRef, TBool, TStr)) and not idx:
            arr = z3.Const(fresh_name(name + "_arr"), z3.ArraySort(IntS, sort_of(ty.elem)))
            return VList(n, arr=arr, wrap=wrap_of(ty.elem), et=ty.elem)
        base = fresh_name(name + "_el")

        def get(i, base=base, idx=tuple(idx), ty=ty, cache={}):
            # the same index must give the same element: elements are functions of (idx..., i)
            return _fresh_family(ty.elem, base, idx + (i,), assume)
        return VList(n, get=get, et=ty.elem)
    if isinstance(ty, TRec):
        return VRec(ty.cls, {k: fresh(t, name + "_" + k, idx, assume) for k, t in ty.fields.items()})
    if isinstance(ty, TMap) and not idx:
        if assume is not None:
            assume.append(int_key_axiom())
        return VMap.fresh(ty.depth, name)
    raise Unsupported("fresh value of type %r" % (ty,))


_FAMILY = {}


def coerce(v, ty, base=None, idx=()):
    """give a (possibly concrete, possibly empty) value the shape of type ty:
    unobservable elements (VBottom) become arbitrary values of the right type"""
    base = base or fresh_name("co")
    if v is VBottom:
        return _fresh_family(ty, base, tuple(idx), None) if idx else fresh(ty, base)
    if isinstance(ty, TList):
        if isinstance(v, (list, tuple)):
            v = VList.from_py(list(v))
        if isinstance(v, VList):
            if v.conc is not None and len(v.conc) == 0 and isinstance(ty.elem, (TInt, TRef, TBool, TStr)) and not idx:
                # empty list of a first-order element type: array-backed, so that append is a Store
                arr = z3.Const(fresh_name(base + "_arr"), z3.ArraySort(IntS, sort_of(ty.elem)))
                return VList(0, arr=arr, wrap=wrap_of(ty.elem), et=ty.elem)
            return VList(v.n, get=lambda i, v=v: coerce(v.get(i), ty.elem, base + "_e", tuple(idx) + (i,)), et=ty.elem)
    if isinstance(ty, TSMap):
        if isinstance(v, VRec) and v.cls == "dict" and not v.fields:
            return VSMap.empty(ty.vt)
        return v
    if isinstance(ty, TOpt):
        if v is VNone or v is None:
            return VOpt(z3.BoolVal(True), fresh(ty.inner, base + "_none"))
        if not isinstance(v, VOpt):
            return VOpt(z3.BoolVal(False), lift(v))
    return v


def _fresh_family(ty, base, idx, assume):
    """value of type ty as an uninterpreted function (named by base) of idx"""
    if isinstance(ty, (TInt, TRef, TBool, TStr)):
        key = (base, repr(ty))
        if key not in _FAMILY:
            _FAMILY[key] = z3.Function(base, *([i.sort() for i in idx] + [sort_of(ty)]))
        return wrap_of(ty)(_FAMILY[key](*idx))
    if isinstance(ty, TTuple):
        return VTuple([_fresh_family(t, "%s_%d" % (base, k), idx, assume) for k, t in enumerate(ty.items)])
    if isinstance(ty, TList):
        key = (base + "_len", "int")
        if key not in _FAMILY:
            f = z3.Function(base + "_len", *([i.sort() for i in idx] + [IntS]))
            _FAMILY[key] = f
            if assume is not None:
                vs = [z3.Const(fresh_name("q"), i.sort()) for i in idx]
                assume.append(z3.ForAll(vs, f(*vs) >= 0))
        n = _FAMILY[key](*idx)
        return VList(n, get=lambda i: _fresh_family(ty.elem, base + "_el", tuple(idx) + (i,), assume), et=ty.elem)
    if isinstance(ty, TOpt):
        isn = _fresh_family(BOOL, base + "_isnone", idx, assume).t
        return VOpt(isn, _fresh_family(ty.inner, base + "_val", idx, assume))
    if isinstance(ty, TRec):
        return VRec(ty.cls, {k: _fresh_family(t, "%s_%s" % (base, k), idx, assume) for k, t in ty.fields.items()})
    raise Unsupported("family of type %r" % (ty,))


# ----------------------------------------------------------------------------
# specification helpers (dual mode where noted)
# ----------------------------------------------------------------------------

def implies(a, b):
    """a -> b ; b may be a thunk (evaluated lazily in concrete mode)"""
    if isinstance(a, bool):
        if not a:
            return True
        return b() if callable(b) else b
    bv = b() if callable(b) else b
    return VBool(z3.Implies(tobool(a), tobool(bv)))


def conj(*xs):
    return vand(*xs)


def disj(*xs):
    return vor(*xs)


def neg(x):
    return vnot(x)


def ite(c, a, b):
    return vite(c, a, b)


def length(x):
    if isinstance(x, VList):
        return VInt(x.n)
    if isinstance(x, VStr):
        return VInt(z3.Length(x.t))
    if isinstance(x, VTuple):
        return len(x.items)
    return len(x)


def forall(f, lo=None, hi=None, sort=IntS, name="q"):
    """forall i in [lo, hi): f(i).  Concrete bounds -> Python all()."""
    if isinstance(lo, int) and isinstance(hi, int) and not isinstance(lo, bool):
        return vand(*[f(i) for i in range(lo, hi)]) if hi > lo else True
    i = z3.Const(fresh_name(name), sort)
    iv = VInt(i) if sort == IntS else VStr(i)
    body = tobool(f(iv))
    if lo is not None or hi is not None:
        guard = []
        if lo is not None:
            guard.append(toint(lo) <= i)
        if hi is not None:
            guard.append(i < toint(hi))
        body = z3.Implies(z3.And(*guard), body)
    return VBool(z3.ForAll([i], body))


def exists(f, lo=None, hi=None, sort=IntS, name="e"):
    if isinstance(lo, int) and isinstance(hi, int):
        return vor(*[f(i) for i in range(lo, hi)]) if hi > lo else False
    i = z3.Const(fresh_name(name), sort)
    iv = VInt(i) if sort == IntS else VStr(i)
    body = tobool(f(iv))
    guard = []
    if lo is not None:
        guard.append(toint(lo) <= i)
    if hi is not None:
        guard.append(i < toint(hi))
    if guard:
        body = z3.And(*(guard + [body]))
    return VBool(z3.Exists([i], body))


def forall_ref(f, name="r"):
    r = z3.Int(fresh_name(name))
    return VBool(z3.ForAll([r], tobool(f(VRef(r)))))


def forall2(f, name="q"):
    a, b = z3.Int(fresh_name(name)), z3.Int(fresh_name(name))
    return VBool(z3.ForAll([a, b], tobool(f(VInt(a), VInt(b)))))


def _is_pat_term(t, top=True):
    """usable as (part of) a pattern: an uninterpreted application / select at the top, and below it only
    uninterpreted applications, selects, constants, numerals and +/-"""
    if not z3.is_app(t):
        return False
    k = t.decl().kind()
    if t.num_args() == 0:
        return not top
    ok_top = (z3.Z3_OP_UNINTERPRETED, z3.Z3_OP_SELECT)
    ok_inner = ok_top + (z3.Z3_OP_ADD, z3.Z3_OP_SUB, z3.Z3_OP_UMINUS)
    if k not in (ok_top if top else ok_inner):
        return False
    return all(_is_pat_term(ch, False) for ch in t.children())


def _vars_of(t, acc):
    if z3.is_var(t):
        acc.add(z3.get_var_index(t))
    for ch in (t.children() if z3.is_app(t) else []):
        _vars_of(ch, acc)


def _consts_in(t, names, acc, seen):
    if t.get_id() in seen:
        return
    seen.add(t.get_id())
    if z3.is_const(t) and t.decl().kind() == z3.Z3_OP_UNINTERPRETED and t.decl().name() in names:
        acc.add(t.decl().name())
    for ch in t.children():
        _consts_in(ch, names, acc, seen)


def qforall(vs, body, pats=()):
    """ForAll with explicit patterns.  pats: list of patterns; a pattern is a term or a list of terms
    (multi-pattern).  A pattern is kept only if all its terms are uninterpreted applications / selects and
    together they mention every bound variable; if none is usable the solver chooses."""
    names = set(v.decl().name() for v in vs)
    good = []
    for p in pats:
        terms = list(p) if isinstance(p, (list, tuple)) else [p]
        if not terms or not all(_is_pat_term(t) for t in terms):
            continue
        acc = set()
        for t in terms:
            _consts_in(t, names, acc, set())
        if acc != names:
            continue
        good.append(z3.MultiPattern(*terms) if len(terms) > 1 else terms[0])
    if good:
        try:
            return z3.ForAll(vs, body, patterns=good)
        except z3.Z3Exception:
            pass       # e.g. a pattern over a Store term: let the solver choose
    return z3.ForAll(vs, body)


class VSMap(V):
    """dict keyed by integers / node references: has : Int -> Bool; values either ints (val : Int -> Int) or lists
    (ln : Int -> Int, els : Int -> (Int -> Int))"""
    def __init__(self, vt, has, val=None, ln=None, els=None):
        self.vt, self.has_a, self.val, self.ln, self.els = vt, has, val, ln, els

    @staticmethod
    def empty(vt):
        m = VSMap.fresh(vt, "emptymap")
        m.has_a = z3.K(IntS, z3.BoolVal(False))
        if m.ln is not None:
            m.ln = z3.K(IntS, z3.IntVal(0))
        return m

    @staticmethod
    def fresh(vt, name):
        has = z3.Const(fresh_name(name + "_has"), z3.ArraySort(IntS, BoolS))
        if isinstance(vt, TInt):
            return VSMap(vt, has, val=z3.Const(fresh_name(name + "_val"), IntArr))
        if isinstance(vt, TList) and isinstance(vt.elem, (TInt, TRef)):
            return VSMap(vt, has, ln=z3.Const(fresh_name(name + "_len"), IntArr),
                         els=z3.Const(fresh_name(name + "_els"), z3.ArraySort(IntS, IntArr)))
        raise Unsupported("dict with values of type %r" % (vt,))

    def has(self, k):
        return VBool(z3.Select(self.has_a, k))

    def get(self, k):
        if self.val is not None:
            return VInt(z3.Select(self.val, k))
        return VList(z3.Select(self.ln, k), arr=z3.Select(self.els, k), wrap=wrap_of(self.vt.elem), et=self.vt.elem)

    def store(self, k, v):
        """returns (new map, definitional facts)"""
        has = z3.Store(self.has_a, k, True)
        if self.val is not None:
            return VSMap(self.vt, has, val=z3.Store(self.val, k, toint(v))), []
        if isinstance(v, (list, tuple)):
            v = VList.from_py(list(v))
        defs = []
        if v.arr is not None:
            arr = v.arr
        else:
            arr = z3.Const(fresh_name("mapval"), IntArr)
            j = z3.Int(fresh_name("j"))
            el = v.get(j)
            if hasattr(el, "t"):
                defs.append(z3.ForAll([j], z3.Select(arr, j) == el.t, patterns=[z3.Select(arr, j)]))
        return VSMap(self.vt, has, ln=z3.Store(self.ln, k, v.n), els=z3.Store(self.els, k, arr)), defs


def ite_value(cases, ty):
    """the value of type `ty` that equals the concrete Python value v of the first (cond, v) in `cases` whose
    condition holds (a canonical default of the type when none does)"""
    if isinstance(ty, TStr):
        t = z3.StringVal("")
        for cond, v in reversed(cases):
            t = z3.If(cond, z3.StringVal(v), t)
        return VStr(t)
    if isinstance(ty, TInt):
        t = z3.IntVal(0)
        for cond, v in reversed(cases):
            t = z3.If(cond, z3.IntVal(int(v)), t)
        return VInt(t)
    if isinstance(ty, TBool):
        t = z3.BoolVal(False)
        for cond, v in reversed(cases):
            t = z3.If(cond, z3.BoolVal(bool(v)), t)
        return VBool(t)
    if isinstance(ty, TTuple):
        return VTuple([ite_value([(c, v[k]) for c, v in cases], t) for k, t in enumerate(ty.items)])
    if isinstance(ty, TList):
        n = z3.IntVal(0)
        for cond, v in reversed(cases):
            n = z3.If(cond, z3.IntVal(len(v)), n)

        def get(i, _cases=cases, _t=ty.elem):
            return ite_value([(z3.And(c, i == j), v[j]) for c, v in _cases for j in range(len(v))], _t)
        return VList(n, get=get, et=ty.elem)
    raise Unsupported("concrete constant of type %r" % (ty,))


def dict_from_concrete(d, vt):
    """a Python dict constant with string keys as a symbolic read-only dict (exact content)"""
    items = list(d.items())
    if not all(isinstance(k, str) for k, _ in items):
        raise Unsupported("dict constant with non-string keys")

    def has(k):
        return VBool(z3.Or(*[k == z3.StringVal(key) for key, _ in items])) if items else VBool(z3.BoolVal(False))

    def val(k):
        return ite_value([(k == z3.StringVal(key), v) for key, v in items], vt)
    return VDict(STR, vt, has, val)


def dict_abstract(d, vt):
    """a Python dict constant with string keys as an *opaque* symbolic read-only dict: content named by uninterpreted
    functions (stable names derived from the content), plus facts that are true of the constant and cheap to state -
    every string component that takes at most four different values lies in that set.  A sound over-approximation:
    what is proved about the opaque dict holds for the constant.  returns (VDict, facts)"""
    import hashlib
    base = "cdict_" + hashlib.sha1(repr(sorted(d.items())).encode("utf-8")).hexdigest()[:8]
    hasf = z3.Function(base + "_has", StrS, BoolS)

    def val(k, _vt=vt):
        old = _STABLE_PREFIX[0]
        _STABLE_PREFIX[0] = base
        try:
            return fresh(_vt, base + "_val", idx=(k,), assume=None)
        finally:
            _STABLE_PREFIX[0] = old
    facts = []
    kq = z3.String(base + "_k")
    tmp = []
    old = _STABLE_PREFIX[0]
    _STABLE_PREFIX[0] = base
    try:
        fresh(vt, base + "_val", idx=(kq,), assume=tmp)
    finally:
        _STABLE_PREFIX[0] = old
    facts.extend(tmp)
    if isinstance(vt, TList) and isinstance(vt.elem, TTuple):
        iq = z3.Int(base + "_i")
        v = val(kq)
        for pos, t in enumerate(vt.elem.items):
            if isinstance(t, TStr):
                seen = sorted({item[pos] for lst in d.values() for item in lst})
                if 0 < len(seen) <= 4:
                    comp = v.get(iq).items[pos].t
                    facts.append(z3.ForAll([kq, iq], z3.Implies(
                        z3.And(hasf(kq), 0 <= iq, iq < v.n), z3.Or(*[comp == z3.StringVal(x) for x in seen])),
                        patterns=[comp]))
    return VDict(STR, vt, lambda k: VBool(hasf(k)), val), facts
