"""pyvc core: symbolic execution of the real AST of a function of VERIF_REPO
against its sidecar contract, producing verification conditions.

Subset and assumed semantics: see DESIGN.md section 3.3.  Anything outside the
subset raises Unsupported -> every obligation of the function is *undecided*
(never a violation).
"""
import ast
import hashlib
import importlib
import os
import sys
import z3

from . import sym
from .sym import (V, VInt, VBool, VStr, VRef, VNone, VOpt, VTuple, VRec, VList, VDict, VFun, VMap, VKey, VSMap, Unsupported,
                  lift, tobool, toint, tostr, veq, vnot, vand, vor, vite, fresh, fresh_name, is_sym,
                  TInt, TBool, TStr, TRef, TList, TTuple, TOpt, TNone, TRec, INT, BOOL, STR, REF, IntS)
from .heap import Heap, DATA_KEYS


# ----------------------------------------------------------------------------
# repository front end
# ----------------------------------------------------------------------------

class FnInfo(object):
    def __init__(self, module, qual, node, src, file):
        self.module, self.qual, self.node, self.src, self.file = module, qual, node, src, file
        self.sha = hashlib.sha256(src.encode("utf-8")).hexdigest()
        self.is_generator = any(isinstance(n, (ast.Yield, ast.YieldFrom)) for n in ast.walk(node))


class Repo(object):
    """parsed view of VERIF_REPO/trees/*.py (re-read on every run)"""
    def __init__(self, path):
        self.path = os.path.abspath(path)
        self.modules = {}     # name -> ast.Module
        self.sources = {}
        self.fns = {}         # "trees.mod.func" / "trees.mod.Class.meth" -> FnInfo
        self.aliases = {}     # module name -> {local name: ("module", modname) | ("name", modname, attr)}
        self.classes = set()
        pkg = os.path.join(self.path, "trees")
        for fn in sorted(os.listdir(pkg)):
            if not fn.endswith(".py"):
                continue
            mod = fn[:-3]
            src = open(os.path.join(pkg, fn), encoding="utf-8").read()
            import warnings
            with warnings.catch_warnings():
                warnings.simplefilter("ignore")
                tree = ast.parse(src)
            self.modules[mod] = tree
            self.sources[mod] = src
            al = {}
            for node in tree.body:
                if isinstance(node, ast.ImportFrom) and node.level == 1 and node.module is None:
                    for a in node.names:
                        al[a.asname or a.name] = ("module", a.name)
                elif isinstance(node, ast.ImportFrom) and node.level == 1:
                    for a in node.names:
                        al[a.asname or a.name] = ("name", node.module, a.name)
                elif isinstance(node, ast.ImportFrom):
                    for a in node.names:
                        al[a.asname or a.name] = ("ext", node.module, a.name)
                elif isinstance(node, ast.Import):
                    for a in node.names:
                        al[a.asname or a.name] = ("extmod", a.name)
                elif isinstance(node, ast.FunctionDef):
                    self._add_fn(mod, node.name, node, src, fn)
                elif isinstance(node, ast.ClassDef):
                    self.classes.add("trees.%s.%s" % (mod, node.name))
                    for sub in node.body:
                        if isinstance(sub, ast.FunctionDef):
                            self._add_fn(mod, "%s.%s" % (node.name, sub.name), sub, src, fn)
            self.aliases[mod] = al
        self._pymods = {}

    def _add_fn(self, mod, qual, node, src, file):
        seg = ast.get_source_segment(src, node)
        self.fns["trees.%s.%s" % (mod, qual)] = FnInfo(mod, qual, node, seg, "trees/" + file)

    def pymod(self, mod):
        """the real module object (for constants only)"""
        if mod not in self._pymods:
            if self.path not in sys.path:
                sys.path.insert(0, self.path)
            import warnings
            with warnings.catch_warnings():
                warnings.simplefilter("ignore")
                m = importlib.import_module("trees." + mod)
            got = os.path.realpath(os.path.dirname(os.path.dirname(m.__file__)))
            if got != os.path.realpath(self.path):
                raise RuntimeError("constants would be read from %s, not %s" % (got, self.path))
            self._pymods[mod] = m
        return self._pymods[mod]

    def constant(self, mod, name):
        m = self.pymod(mod)
        if not hasattr(m, name):
            raise Unsupported("no module attribute %s.%s" % (mod, name))
        v = getattr(m, name)
        if _is_plain_const(v):
            return v
        raise Unsupported("module attribute %s.%s is not a plain constant" % (mod, name))


def _is_plain_const(v):
    if v is None or isinstance(v, (bool, int, str)):
        return True
    if isinstance(v, (list, tuple)):
        return all(_is_plain_const(x) for x in v)
    if isinstance(v, dict):
        return all(_is_plain_const(k) and _is_plain_const(x) for k, x in v.items())
    return False


# ----------------------------------------------------------------------------
# contracts
# ----------------------------------------------------------------------------

class Contract(object):
    def __init__(self, target, prop, args=None, requires=None, ensures=None, raises=None,
                 modifies=(), loops=None, params=None, assumed=False, inline=False,
                 decreases=None, ghost=None, result_type=None, note="", lemmas=(), reads_heap=True,
                 block=None, pure_result=None, uses=(), returns=None, solver_hints=None, raises_not=None, result_name=None, heap_named=False, appends=None):
        self.target = target
        self.prop = prop
        self.args = args or {}
        self.requires = requires
        self.ensures = ensures if isinstance(ensures, dict) or ensures is None else {"post": ensures}
        self.raises = raises or {}
        self.modifies = tuple(modifies)
        self.loops = loops or {}
        self.params = params or {}          # **params keys -> type
        self.assumed = assumed              # contract is trusted (not verified here)
        self.inline = inline
        self.decreases = decreases
        self.result_type = result_type
        self.note = note
        self.lemmas = lemmas
        self.ghost = ghost
        self.uses = tuple(uses)        # proved background lemmas instantiated at function entry
        self.returns = returns         # spec term the result equals (used directly at call sites)
        # exception class -> ground statement about a normal return that *implies* "not raises[exc]"
        # (the implication itself is a lemma of the contracts module); used instead of the negated condition
        self.raises_not = raises_not or {}
        # a pure, deterministic function (no heap, no global state: its C18 frame obligation) may have its result
        # *named* by uninterpreted functions of its arguments at call sites, so that callers' contracts can refer to it
        self.result_name = result_name
        self.heap_named = heap_named
        # text streams (file objects opened for writing) are records VRec('stream', text=...); a callee that writes to a
        # stream parameter says what it appends: {parameter: fn(S, *args) -> VStr, or None for 'some text'}
        self.appends = appends or {}
        self.solver_hints = solver_hints or {}   # obligation-name fragment -> {"cli_s": seconds, "only": "cvc5"}


class Registry(object):
    def __init__(self):
        self.contracts = {}

    def add(self, c):
        self.contracts[c.target] = c
        return c

    def get(self, target):
        return self.contracts.get(target)


# ----------------------------------------------------------------------------
# execution state
# ----------------------------------------------------------------------------

class State(object):
    def __init__(self, env=None, pc=None, heap=None, yielded=None):
        self.env = dict(env or {})
        self.pc = list(pc or [])
        self.heap = heap
        self.yielded = yielded

    def fork(self):
        return State(self.env, self.pc, self.heap.copy() if self.heap is not None else None, self.yielded)

    def assume(self, t):
        if isinstance(t, (VBool, bool)):
            t = tobool(t)
        self.pc.append(t)

    def define(self, t):
        """an unconditional definitional fact about fresh symbols (not wrapped by enclosing short-circuit guards)"""
        self.pc.append(t)
        d = set(self.env.get("$defs") or ())
        d.add(t.get_id())
        self.env["$defs"] = d


class SpecCtx(object):
    """what contract clauses see as `S`"""
    def __init__(self, ex, st, old_heap=None, extra=None):
        object.__setattr__(self, "_ex", ex)
        object.__setattr__(self, "_st", st)
        object.__setattr__(self, "_extra", dict(extra or {}))
        object.__setattr__(self, "H", st.heap)
        object.__setattr__(self, "old", old_heap if old_heap is not None else st.heap)

    def __getattr__(self, k):
        ex = self._extra
        if k in ex:
            return ex[k]
        env = self._st.env
        if k in env:
            return env[k]
        if k == "yielded":
            return self._st.yielded
        raise Unsupported("contract refers to unknown local %r" % (k,))

    def has_local(self, k):
        return k in self._extra or k in self._st.env

    def entry(self, k):
        """value of parameter k at function entry"""
        return self._ex.entry_args[k]

    def final(self, k):
        """value of local / parameter k at this point (parameters named in the contract denote entry values)"""
        return self._st.env[k]


class Obligation(object):
    def __init__(self, name, kind, pc, goal, info=None):
        self.name, self.kind, self.pc, self.goal, self.info = name, kind, pc, goal, info or {}


class Outcome(object):
    def __init__(self, kind, st, val=None, exc=None):
        self.kind, self.st, self.val, self.exc = kind, st, val, exc


QUICK_TIMEOUT_MS = 20


def split_goal(g, depth=0):
    """split a goal into conjuncts (through And, Implies(g, And), ForAll(And), If-chains are kept)"""
    if depth > 6:
        return [g]
    if z3.is_and(g):
        out = []
        for ch in g.children():
            out.extend(split_goal(ch, depth + 1))
        return out
    if z3.is_implies(g):
        a, b = g.children()
        parts = split_goal(b, depth + 1)
        if len(parts) > 1:
            return [z3.Implies(a, p) for p in parts]
        return [g]
    if z3.is_quantifier(g) and g.is_forall():
        # a universally quantified *goal* is proved for fresh constants (skolemisation of the negated goal)
        n = g.num_vars()
        vs = [z3.Const(fresh_name(g.var_name(i) + "!sk"), g.var_sort(i)) for i in range(n)]
        body = z3.substitute_vars(g.body(), *reversed(vs))
        return split_goal(body, depth + 1)
    return [g]


def feasible(pc):
    """cheap pruning of infeasible paths (unknown counts as feasible)"""
    if QUICK_TIMEOUT_MS <= 0:
        return not z3.is_false(z3.simplify(pc[-1])) if pc else True
    s = z3.Solver()
    s.add(*pc)
    from .solve import safe_check
    return safe_check(s, QUICK_TIMEOUT_MS) != z3.unsat


# ----------------------------------------------------------------------------
# the executor
# ----------------------------------------------------------------------------

class Exec(object):
    def __init__(self, repo, registry, fninfo, contract, prefix=None):
        self.repo = repo
        self.reg = registry
        self.fn = fninfo
        self.c = contract
        self.obligations = []
        self.prefix = prefix or ("%s.%s" % (contract.prop, fninfo.qual))
        self.loop_ords = {}
        ordn = 0
        for n in ast.walk(fninfo.node):
            pass
        for n in _loops_in_order(fninfo.node):
            self.loop_ords[id(n)] = ordn
            ordn += 1
        self.nloops = ordn
        self.trusted = set()      # assumptions used (callee contracts assumed, axioms)
        self.raise_paths = []
        self.inline_depth = 0
        self.covered_loops = set()
        self.call_counter = {}

    # ---------------- obligations ----------------
    def oblige(self, st, name, goal, kind, info=None):
        goal = tobool(goal) if isinstance(goal, (VBool, bool)) else goal
        full = "%s.%s" % (self.prefix, name)
        pc = list(st.pc)
        self.obligations.append(Obligation(full, kind, pc, goal, dict(info or {})))
        st.assume(goal)

    def line(self, node):
        return getattr(node, "lineno", 0) - self.fn.node.lineno

    # ---------------- entry ----------------
    def run(self):
        """verify self.fn against self.c; returns obligations"""
        c, fn = self.c, self.fn
        st = State(heap=Heap.fresh("H"))
        for t in st.heap.typing():
            st.assume(t)
        args = self._bind_args(st)
        self.entry_heap = st.heap.copy()
        self.entry_args = dict(args)
        S = SpecCtx(self, st, self.entry_heap, args)
        if c.requires is not None:
            st.assume(tobool(c.requires(S, *args.values())))
        self.pre_pc = list(st.pc)
        for u in c.uses:
            st.assume(tobool(u(S, *args.values())))
        if fn.is_generator:
            st.yielded = VList(0, get=lambda i: VNone, conc=[])
        outs = self.exec_block(fn.node.body, st)
        for o in outs:
            self.finish(o, args)
        # reachability (vacuity) covers are produced by api from pre_pc
        return self.obligations

    def _bind_args(self, st):
        a = self.fn.node.args
        names = [x.arg for x in a.args]
        args = {}
        assume = []
        for n in names:
            if n == "self":
                ty = self.c.args.get("self")
                if ty is None:
                    raise Unsupported("method without a type for self")
            ty = self.c.args.get(n)
            if ty is None:
                raise Unsupported("no type for argument %r" % n)
            v = fresh(ty, "a_" + n, assume=assume)
            args[n] = v
            st.env[n] = v
        for t in assume:
            st.assume(t)
        if a.kwarg is not None:
            st.env[a.kwarg.arg] = self._fresh_params(st, "p")
            args[a.kwarg.arg] = st.env[a.kwarg.arg]
        if a.vararg is not None:
            raise Unsupported("*args")
        return args

    def _fresh_params(self, st, name):
        """**params: one presence flag + one value per declared option key"""
        has, val = {}, {}
        assume = []
        for k, ty in self.c.params.items():
            has[k] = z3.Bool(fresh_name("%s_has_%s" % (name, k)))
            val[k] = fresh(ty, "%s_%s" % (name, k), assume=assume)
        for t in assume:
            st.assume(t)
        return VRec("params", {"has": has, "val": val})

    def finish(self, o, args):
        c = self.c
        st = o.st
        if o.kind == "raise":
            cond = c.raises.get(o.exc)
            S = SpecCtx(self, st, self.entry_heap, args)
            if cond is None:
                self.oblige(st, "noraise.%s.L%d" % (o.exc, o.val or 0), z3.BoolVal(False), "safety",
                            {"what": "raise %s is unreachable (exception not in the contract)" % o.exc})
            else:
                self.oblige(st, "raises.%s.sound" % o.exc, cond(S, *args.values()), "raises")
            return
        if o.kind in ("break", "continue"):
            raise Unsupported("break/continue outside loop")
        res = o.val if o.kind == "return" else VNone
        if self.fn.is_generator:
            res = st.yielded
        S = SpecCtx(self, st, self.entry_heap, args)
        for exc, cond in c.raises.items():
            pc_before = len(st.pc)
            if exc in c.raises_not:
                self.oblige(st, "raises.%s.complete" % exc, c.raises_not[exc](S, *(list(args.values()) + [res])), "raises")
            else:
                self.oblige(st, "raises.%s.complete" % exc, vnot(cond(S, *args.values())), "raises")
            del st.pc[pc_before:]
        # every postcondition clause is proved from the path condition alone (not from the other clauses)
        pc0 = list(st.pc)
        if c.returns is not None:
            self.oblige(st, "post.returns", veq(res, c.returns(S, *args.values())), "post")
            del st.pc[len(pc0):]
        if c.ensures:
            for name, fnc in c.ensures.items():
                self.oblige(st, "post.%s" % name, fnc(S, *(list(args.values()) + [res])), "post")
                del st.pc[len(pc0):]
        # frame: every heap field not in modifies is unchanged
        frame = [k for k in st.heap.all_fields() if k not in c.modifies and
                 st.heap.f[k] is not self.entry_heap.f[k]]
        if frame:
            self.oblige(st, "frame", st.heap.same(self.entry_heap, frame), "frame",
                        {"fields": frame})

    # ---------------- statements ----------------
    def exec_block(self, stmts, st):
        outs = [Outcome("normal", st)]
        for s in stmts:
            nxt = []
            for o in outs:
                if o.kind != "normal":
                    nxt.append(o)
                    continue
                nxt.extend(self.exec_stmt(s, o.st))
            outs = nxt
        return outs

    def _with_raises(self, st, outs):
        """turn exceptional exits recorded while evaluating expressions into outcomes"""
        if self.raise_paths:
            rp, self.raise_paths = self.raise_paths, []
            for pc, exc, line, env, heap in rp:
                outs.append(Outcome("raise", State(env, pc, heap, st.yielded), val=line, exc=exc))
        return outs

    def exec_stmt(self, s, st):
        outs = self._exec_stmt(s, st)
        return self._with_raises(st, outs)

    def _exec_stmt(self, s, st):
        if isinstance(s, ast.Expr):
            if isinstance(s.value, ast.Constant):
                return [Outcome("normal", st)]       # docstring
            if isinstance(s.value, ast.Yield):
                v = self.ev(s.value.value, st)
                st.yielded = list_append(st.yielded, v)
                return [Outcome("normal", st)]
            if _is_print(s.value):
                for a in s.value.args:
                    self.ev(a, st)                  # arguments still evaluated for exceptions
                return [Outcome("normal", st)]
            self.ev(s.value, st)
            return [Outcome("normal", st)]
        if isinstance(s, ast.Assign):
            v = self.ev(s.value, st)
            for tgt in s.targets:
                self.assign(tgt, v, st)
            return [Outcome("normal", st)]
        if isinstance(s, ast.AugAssign):
            cur = self.ev(_load(s.target), st)
            v = self.binop(s.op, cur, self.ev(s.value, st), st, s)
            self.assign(s.target, v, st)
            return [Outcome("normal", st)]
        if isinstance(s, ast.Return):
            v = self.ev(s.value, st) if s.value is not None else VNone
            return [Outcome("return", st, v)]
        if isinstance(s, ast.Pass):
            return [Outcome("normal", st)]
        if isinstance(s, ast.Break):
            return [Outcome("break", st)]
        if isinstance(s, ast.Continue):
            return [Outcome("continue", st)]
        if isinstance(s, ast.Raise):
            exc = _exc_name(s.exc)
            if s.exc is not None and isinstance(s.exc, ast.Call):
                for a in s.exc.args:
                    self.ev(a, st)
            return [Outcome("raise", st, val=self.line(s), exc=exc)]
        if isinstance(s, ast.If):
            c = self.truth(self.ev(s.test, st), st)
            outs = []
            if isinstance(c, bool):
                return self.exec_block(s.body if c else s.orelse, st)
            st_t, st_f = st.fork(), st.fork()
            st_t.assume(c.t)
            st_f.assume(z3.Not(c.t))
            if feasible(st_t.pc):
                outs.extend(self.exec_block(s.body, st_t))
            if feasible(st_f.pc):
                outs.extend(self.exec_block(s.orelse, st_f))
            return outs
        if isinstance(s, ast.While):
            return self.exec_while(s, st)
        if isinstance(s, ast.For):
            return self.exec_for(s, st)
        if isinstance(s, ast.Assert):
            c = self.truth(self.ev(s.test, st), st)
            self.oblige(st, "assert.L%d" % self.line(s), c, "safety")
            return [Outcome("normal", st)]
        if isinstance(s, ast.Delete):
            raise Unsupported("del")
        raise Unsupported("statement %s" % type(s).__name__)

    # ---------------- loops ----------------
    def _loop_spec(self, node):
        ordn = self.loop_ords[id(node)]
        spec = self.c.loops.get(ordn)
        if spec is None:
            raise Unsupported("loop %d at L%d has no invariant in the contract" % (ordn, self.line(node)))
        self.covered_loops.add(ordn)
        return ordn, spec

    def _havoc(self, st, node, spec, extra_names=()):
        names = sorted(_assigned_names(node.body) | set(extra_names))
        assume = []
        for n in names:
            if n not in st.env:
                continue          # first assigned inside the loop
            cur = st.env[n]
            ty = (spec.get("types") or {}).get(n) or type_of(cur)
            if ty is None:
                raise Unsupported("cannot infer the type of loop-modified variable %r (give loops[..]['types'])" % n)
            st.env[n] = fresh(ty, "l_" + n, assume=assume)
        for t in assume:
            st.assume(t)
        fields = _heap_fields_written(node.body, self)
        if fields:
            st.heap.havoc(sorted(fields), "lh")
            if "nchild" in fields:
                for t in st.heap.typing():
                    st.assume(t)
        if st.yielded is not None and any(isinstance(x, ast.Yield) for b in node.body for x in ast.walk(b)):
            ty = spec.get("yield_type")
            if ty is None:
                raise Unsupported("loop yields: give loops[..]['yield_type']")
            st.yielded = fresh(TList(ty), "l_yielded", assume=assume)
            for t in assume:
                st.assume(t)
        return names

    def exec_while(self, node, st):
        if node.orelse:
            raise Unsupported("while/else")
        ordn, spec = self._loop_spec(node)
        inv = spec["inv"]
        tag = "inv%d" % ordn
        S0 = SpecCtx(self, st, self.entry_heap, {"pre": _snapshot(st)})
        pre_snap = _snapshot(st)
        for nm_, ty_ in (spec.get("types") or {}).items():
            if nm_ in st.env:
                st.env[nm_] = sym.coerce(st.env[nm_], ty_)
        self.oblige(st, tag + ".init", inv(SpecCtx(self, st, self.entry_heap, {"pre": pre_snap})), "inv-init")
        st = st.fork()
        self._havoc(st, node, spec)
        n_head = len(st.pc)
        st.assume(tobool(inv(SpecCtx(self, st, self.entry_heap, {"pre": pre_snap}))))
        c = self.truth(self.ev(node.test, st), st)
        outs = []
        # exit
        st_x = st.fork()
        st_x.assume(tobool(vnot(c)))
        if feasible(st_x.pc):
            outs.append(Outcome("normal", st_x))
        # body
        st_b = st.fork()
        st_b.assume(tobool(c))
        var0 = None
        if spec.get("variant") is not None:
            var0 = toint(spec["variant"](SpecCtx(self, st_b, self.entry_heap, {"pre": pre_snap})))
        if feasible(st_b.pc):
            for o in self._with_raises(st_b, self.exec_block(node.body, st_b)):
                if o.kind in ("normal", "continue"):
                    Sx = SpecCtx(self, o.st, self.entry_heap, {"pre": pre_snap})
                    self.oblige(o.st, tag + ".keep", inv(Sx), "inv-keep", {"local_from": n_head})
                    if var0 is not None:
                        v1 = toint(spec["variant"](Sx))
                        self.oblige(o.st, "var%d" % ordn, z3.And(var0 >= 0, v1 < var0), "variant")
                elif o.kind == "break":
                    outs.append(Outcome("normal", o.st))
                else:
                    outs.append(o)
        self._after_loop(outs, spec, ordn, pre_snap, None, None, n_head)
        return outs

    def _after_loop(self, outs, spec, ordn, pre_snap, it, seq, n_head=None):
        """ghost assertion at every exit of the loop that continues after it (proved, then assumed)"""
        if spec.get("after") is None:
            return
        for o in outs:
            if o.kind == "normal":
                extra = {"pre": pre_snap}
                if seq is not None:
                    extra["seq"] = seq
                self.oblige(o.st, "inv%d.after" % ordn, spec["after"](SpecCtx(self, o.st, self.entry_heap, extra)),
                            "inv-after", {"local_from": n_head} if n_head is not None else None)

    def exec_for(self, node, st):
        if node.orelse:
            raise Unsupported("for/else")
        ordn, spec = self._loop_spec(node)
        inv = spec["inv"]
        tag = "inv%d" % ordn
        seq = self.iter_list(self.ev(node.iter, st), st, node.iter)
        body_mut = _assigned_names(node.body)
        for nm in _names_in(node.iter):
            if nm in body_mut and isinstance(st.env.get(nm), VList):
                raise Unsupported("loop body rebinds/mutates %r, which the loop iterates over" % nm)
        pre_snap = _snapshot(st)
        pre_names = set(st.env)

        def ctx(s_, it):
            return SpecCtx(self, s_, self.entry_heap, {"it": VInt(it), "seq": seq, "pre": pre_snap})
        for nm_, ty_ in (spec.get("types") or {}).items():
            if nm_ in st.env:
                st.env[nm_] = sym.coerce(st.env[nm_], ty_)
        self.oblige(st, tag + ".init", inv(ctx(st, z3.IntVal(0))), "inv-init")
        st = st.fork()
        tgt_names = _target_names(node.target)
        self._havoc(st, node, spec, tgt_names)
        it = z3.Int(fresh_name("it%d" % ordn))
        n_head = len(st.pc)
        st.assume(z3.And(it >= 0, it <= seq.n))
        st.assume(tobool(inv(ctx(st, it))))
        outs = []
        st_x = st.fork()
        st_x.assume(it == seq.n)
        # after the loop the target keeps its last value (if any iteration ran); we
        # do not model that: reading it after the loop is rejected below
        for n in tgt_names:
            if n not in pre_names:
                st_x.env.pop(n, None)
        if feasible(st_x.pc):
            outs.append(Outcome("normal", st_x))
        st_b = st.fork()
        st_b.assume(it < seq.n)
        if feasible(st_b.pc):
            self.cur_state = st_b
            self.assign(node.target, seq.get(it), st_b)
            for o in self._with_raises(st_b, self.exec_block(node.body, st_b)):
                if o.kind in ("normal", "continue"):
                    self.oblige(o.st, tag + ".keep", inv(ctx(o.st, it + 1)), "inv-keep", {"local_from": n_head})
                elif o.kind == "break":
                    outs.append(Outcome("normal", o.st))
                else:
                    outs.append(o)
        self._after_loop(outs, spec, ordn, pre_snap, it, seq, n_head)
        return outs

    def iter_list(self, v, st, node):
        if isinstance(v, VList):
            return v
        if isinstance(v, VTuple):
            return VList.from_py(v.items)
        if isinstance(v, (list, tuple)):
            return VList.from_py(list(v))
        if isinstance(v, VStr):
            ex = self
            return VList(z3.Length(v.t), get=lambda i: VStr(ex.str_piece(ex.cur_state, v.t, i, z3.IntVal(1))), et=STR)
        if isinstance(v, str):
            return VList.from_py(list(v))
        if isinstance(v, sym.VMap) and v.level() < v.depth:
            # iteration over the keys of a (nested) dict with opaque keys: some duplicate-free enumeration of exactly
            # the keys present at this level -- nothing is assumed about the order
            self.trusted.add("iteration over a dict: an unknown duplicate-free enumeration of exactly its keys")
            n = z3.Int(fresh_name("dict_n"))
            el = z3.Function(fresh_name("dict_key"), IntS, sym.KeyS)
            at = z3.Function(fresh_name("dict_at"), sym.KeyS, IntS)
            i, k = z3.Int(fresh_name("di")), z3.Const(fresh_name("dk"), sym.KeyS)
            pres = lambda key: sym._sel(v.pres[v.level()], list(v.prefix) + [key])
            st.assume(n >= 0)
            st.define(z3.ForAll([i], z3.Implies(z3.And(0 <= i, i < n), z3.And(pres(el(i)), at(el(i)) == i)),
                                patterns=[el(i)]))
            st.define(z3.ForAll([k], z3.Implies(pres(k), z3.And(0 <= at(k), at(k) < n, el(at(k)) == k)),
                                patterns=[at(k)]))
            lst = VList(n, get=lambda j: sym.VKey(el(j)), et=None)
            lst.key_index = at
            return lst
        raise Unsupported("iteration over %r" % (v,))

    # ---------------- assignment ----------------
    def assign(self, tgt, v, st):
        if isinstance(tgt, ast.Name):
            if isinstance(v, VMap) and v.prefix and isinstance(st.env.get(tgt.id), VMap) and not st.env[tgt.id].prefix:
                raise Unsupported("a sub-dict assigned to the name of the whole dict")
            st.env[tgt.id] = v
            return
        if isinstance(tgt, (ast.Tuple, ast.List)):
            items = self.unpack(v, len(tgt.elts), st)
            for t, x in zip(tgt.elts, items):
                self.assign(t, x, st)
            return
        if isinstance(tgt, ast.Subscript) and isinstance(tgt.slice, ast.Slice):
            base = self.ev(_load(tgt.value), st)
            lo = self.ev(tgt.slice.lower, st) if tgt.slice.lower is not None else None
            hi = self.ev(tgt.slice.upper, st) if tgt.slice.upper is not None else None
            if not (isinstance(base, VList) and isinstance(lo, int) and isinstance(hi, int) and lo == hi and lo >= 0
                    and tgt.slice.step is None):
                raise Unsupported("slice assignment other than an insertion x[k:k] = [...] with constant k >= 0")
            ins = self.iter_list(v, st, tgt)
            if ins.conc is None:
                raise Unsupported("insertion of a symbolic-length list")
            m = len(ins.conc)
            k = z3.If(base.n < lo, base.n, z3.IntVal(lo))          # CPython clamps the insertion point
            new = VList(base.n + m, get=lambda i, base=base, ins=ins, k=k, m=m:
                        vite(VBool(i < k), base.get(i), vite(VBool(i < k + m), ins.get(i - k), base.get(i - m))),
                        et=base.et)
            self.assign(tgt.value, new, st)
            return
        if isinstance(tgt, ast.Subscript):
            # heap: X.data['k'] = v
            if isinstance(tgt.value, ast.Attribute) and tgt.value.attr == "data":
                obj = self.ev(tgt.value.value, st)
                key = self.ev(tgt.slice, st)
                if isinstance(obj, VRef) and isinstance(key, str):
                    self.deref(obj, st, tgt)
                    st.heap.set_data(obj, key, lift(v))
                    return
            base = self.ev(_load(tgt.value), st)
            idx = self.ev(tgt.slice, st)
            if isinstance(base, VMap):
                self.assign(tgt.value, base.store(idx, v), st)
                return
            if isinstance(base, VRec) and base.cls == "storelog":
                # an opaque dict of a block contract: the stores are recorded in order
                self.assign(tgt.value, VRec("storelog", {"log": list(base.fields["log"]) + [(idx, v)]}), st)
                return
            if isinstance(base, VRec) and base.cls == "dict" and not base.fields and isinstance(lift(idx), (VInt, VRef)):
                raise Unsupported("dict used with symbolic integer / node keys: give its type (TSMap) in loops[..]['types'] "
                                  "or declare it before the loop")
            if isinstance(base, VSMap):
                k = lift(idx)
                if not isinstance(k, (VInt, VRef)):
                    raise Unsupported("symbolic dict with a key of type %r" % (k,))
                new, defs = base.store(k.t, v if isinstance(v, (VList, list, tuple)) else lift(v))
                for d_ in defs:
                    st.define(d_)
                self.assign(tgt.value, new, st)
                return
            if isinstance(base, VList) or isinstance(base, (list,)):
                base = lift(base) if not isinstance(base, VList) else base
                i = self.norm_index(base, idx, st, tgt)
                self.assign(tgt.value, list_store(base, i, lift(v)), st)
                return
            if isinstance(base, VRec) and base.cls == "dict" and isinstance(idx, str):
                f = dict(base.fields)
                f[idx] = v
                self.assign(tgt.value, VRec("dict", f), st)
                return
            raise Unsupported("subscript assignment on %r" % (base,))
        if isinstance(tgt, ast.Attribute):
            obj = self.ev(tgt.value, st)
            if isinstance(obj, VRef):
                self.deref(obj, st, tgt)
                if tgt.attr == "parent":
                    pv = lift(v)
                    if not (pv is VNone or isinstance(pv, VRef)):
                        raise Unsupported("parent = %r" % (pv,))
                    st.heap.set_parent(obj, pv)
                    return
                if tgt.attr == "children":
                    lv = v if isinstance(v, VList) else lift(v)
                    for d in st.heap.set_children(obj, lv):
                        st.define(d)
                    return
                raise Unsupported("assignment to attribute %s of a tree" % tgt.attr)
            if isinstance(obj, VRec):
                f = dict(obj.fields)
                f[tgt.attr] = v
                self.assign(tgt.value, VRec(obj.cls, f), st)
                return
            raise Unsupported("attribute assignment on %r" % (obj,))
        raise Unsupported("assignment target %s" % type(tgt).__name__)

    def unpack(self, v, n, st):
        if isinstance(v, VTuple):
            if len(v.items) != n:
                raise Unsupported("unpack arity")
            return v.items
        if isinstance(v, (tuple, list)):
            if len(v) != n:
                raise Unsupported("unpack arity")
            return list(v)
        if isinstance(v, VList) and v.conc is not None and len(v.conc) == n:
            return v.conc
        raise Unsupported("unpack of %r" % (v,))

    # ---------------- expressions ----------------
    def truth(self, v, st):
        """Python truthiness"""
        if isinstance(v, bool):
            return v
        if isinstance(v, VBool):
            s = z3.simplify(v.t)
            if z3.is_true(s):
                return True
            if z3.is_false(s):
                return False
            return v
        if isinstance(v, VInt):
            return VBool(v.t != 0)
        if isinstance(v, int):
            return v != 0
        if isinstance(v, VStr):
            return VBool(z3.Length(v.t) > 0)
        if isinstance(v, str):
            return len(v) > 0
        if v is VNone or v is None:
            return False
        if isinstance(v, VRef):
            return VBool(v.t != 0)
        if isinstance(v, VList):
            return VBool(v.n > 0)
        if isinstance(v, VOpt):
            return VBool(z3.And(z3.Not(v.isnone), tobool(self.truth(v.val, st))))
        if isinstance(v, (list, tuple)):
            return len(v) > 0
        raise Unsupported("truth value of %r" % (v,))

    def safety(self, st, node, cond, exc, what):
        """cond must hold or `exc` is raised here"""
        cond = tobool(cond) if isinstance(cond, (VBool, bool)) else cond
        s = z3.simplify(cond)
        if z3.is_true(s):
            return
        if exc in self.c.raises and self.inline_depth == 0:
            self.raise_paths.append((list(st.pc) + [z3.Not(cond)], exc, self.line(node), dict(st.env), st.heap.copy()))
            st.assume(cond)
        else:
            self.oblige(st, "safe.L%d.%s" % (self.line(node), what), cond, "safety",
                        {"exception": exc})

    def deref(self, ref, st, node):
        self.safety(st, node, ref.t != 0, "AttributeError", "notnone")

    def guard_eval(self, st, cond, node_fn):
        """evaluate node_fn() under the extra assumption cond; assumptions made
        meanwhile stay, guarded by cond"""
        n0 = len(st.pc)
        ct = tobool(cond)
        st.pc.append(ct)
        nraise = len(self.raise_paths)
        try:
            v = node_fn()
        finally:
            new = st.pc[n0 + 1:]
            del st.pc[n0:]
            defs = st.env.get("$defs") or ()
            for t in new:
                st.pc.append(t if t.get_id() in defs else z3.Implies(ct, t))
        return v

    def ev(self, e, st):
        m = getattr(self, "ev_" + type(e).__name__, None)
        if m is None:
            raise Unsupported("expression %s" % type(e).__name__)
        return m(e, st)

    def ev_Constant(self, e, st):
        return e.value

    def ev_Name(self, e, st):
        if e.id in st.env:
            return st.env[e.id]
        if e.id in ("True", "False", "None"):
            return {"True": True, "False": False, "None": None}[e.id]
        al = self.repo.aliases[self.fn.module].get(e.id)
        if al is not None:
            if al[0] == "module":
                return ("module", al[1])
            if al[0] == "name":
                return self.global_name(al[1], al[2])
            return ("ext", al)
        if ("trees.%s.%s" % (self.fn.module, e.id)) in self.repo.fns:
            return ("fn", "trees.%s.%s" % (self.fn.module, e.id))
        if ("trees.%s.%s" % (self.fn.module, e.id)) in self.repo.classes:
            return ("class", "trees.%s.%s" % (self.fn.module, e.id))
        if e.id in _BUILTINS:
            return ("builtin", e.id)
        # module-level constant of the same module
        try:
            return self.repo.constant(self.fn.module, e.id)
        except Unsupported:
            pass
        if hasattr(self.repo.pymod(self.fn.module), e.id):
            return ("pyobj", self.fn.module, e.id)
        raise Unsupported("unbound name %r" % e.id)

    def global_name(self, mod, name):
        q = "trees.%s.%s" % (mod, name)
        if q in self.repo.fns:
            return ("fn", q)
        return self.repo.constant(mod, name)

    def ev_Attribute(self, e, st):
        base = self.ev(e.value, st)
        if isinstance(base, tuple) and base and base[0] == "module":
            q = "trees.%s.%s" % (base[1], e.attr)
            if q in self.repo.fns:
                return ("fn", q)
            if q in self.repo.classes:
                return ("class", q)
            return self.repo.constant(base[1], e.attr)
        if isinstance(base, tuple) and base and base[0] == "ext":
            return ("extattr", base, e.attr)
        if isinstance(base, VRef):
            self.deref(base, st, e)
            if e.attr == "parent":
                return st.heap.parent(base)
            if e.attr == "children":
                return st.heap.children(base)
            if e.attr == "data":
                return ("data", base)
            if e.attr == "id":
                raise Unsupported("Tree.id")
            raise Unsupported("tree attribute %s" % e.attr)
        if isinstance(base, VRec):
            if e.attr in base.fields:
                return base.fields[e.attr]
            return ("method", base, e.attr)
        if isinstance(base, VOpt):
            # attribute access on a possibly-None value
            self.safety(st, e, z3.Not(base.isnone), "AttributeError", "notnone")
            return ("method", base.val, e.attr)
        return ("method", base, e.attr)

    def ev_Subscript(self, e, st):
        base = self.ev(e.value, st)
        if isinstance(base, tuple) and base and base[0] == "data":
            key = self.ev(e.slice, st)
            if not isinstance(key, str):
                raise Unsupported("data[<non-constant>]")
            ref = base[1]
            if key not in DATA_KEYS:
                raise Unsupported("data key %r" % key)
            self.safety(st, e, st.heap.has(ref, key).t, "KeyError", "haskey_" + key)
            return st.heap.data(ref, key)
        if isinstance(e.slice, ast.Slice):
            lo = self.ev(e.slice.lower, st) if e.slice.lower is not None else None
            hi = self.ev(e.slice.upper, st) if e.slice.upper is not None else None
            step = self.ev(e.slice.step, st) if e.slice.step is not None else None
            return self.slice(base, lo, hi, step, st, e)
        idx = self.ev(e.slice, st)
        return self.index(base, idx, st, e)

    def index(self, base, idx, st, node):
        if isinstance(base, VOpt):
            self.safety(st, node, z3.Not(base.isnone), "TypeError", "notnone")
            base = base.val
        if isinstance(base, VMap):
            self.safety(st, node, base.has(idx).t, "KeyError", "key_present")
            return base.get(idx)
        if isinstance(base, VSMap):
            k = lift(idx)
            if not isinstance(k, (VInt, VRef)):
                raise Unsupported("symbolic dict with a key of type %r" % (k,))
            self.safety(st, node, tobool(base.has(k.t)), "KeyError", "key_present")
            return base.get(k.t)
        if isinstance(base, VDict):
            k = tostr(lift(idx))
            self.safety(st, node, tobool(base.has(k)), "KeyError", "key_present")
            return base.val(k)
        if isinstance(base, VRec) and base.cls == "params":
            if not isinstance(idx, str) or idx not in base.fields["has"]:
                raise Unsupported("params[%r] not declared in the contract" % (idx,))
            self.safety(st, node, base.fields["has"][idx], "KeyError", "param_" + idx)
            return base.fields["val"][idx]
        if isinstance(base, VRec) and base.cls == "dict":
            if isinstance(idx, str) and idx in base.fields:
                return base.fields[idx]
            raise Unsupported("dict lookup %r" % (idx,))
        if isinstance(base, dict):
            if not is_sym(idx):
                if idx not in base:
                    self.safety(st, node, z3.BoolVal(False), "KeyError", "key")
                    raise Unsupported("unreachable")
                return base[idx]
            idx = lift(idx)
            keys = list(base.keys())
            self.safety(st, node, tobool(vor(*[veq(idx, k) for k in keys])) if keys else z3.BoolVal(False),
                        "KeyError", "key")
            res = base[keys[-1]]
            for k in keys[-2::-1]:
                res = vite(veq(idx, k), base[k], res)
            return res
        if isinstance(base, (list, tuple)) and isinstance(idx, int) and not is_sym(idx):
            if not -len(base) <= idx < len(base):
                self.safety(st, node, z3.BoolVal(False), "IndexError", "index")
                raise Unsupported("unreachable code after certain IndexError")
            return base[idx]
        if isinstance(base, str) and isinstance(idx, int):
            if not -len(base) <= idx < len(base):
                self.safety(st, node, z3.BoolVal(False), "IndexError", "index")
                raise Unsupported("unreachable")
            return base[idx]
        if isinstance(base, VTuple):
            if isinstance(idx, int):
                if not -len(base.items) <= idx < len(base.items):
                    self.safety(st, node, z3.BoolVal(False), "IndexError", "index")
                    raise Unsupported("unreachable")
                return base.items[idx]
            base = VList.from_py(base.items)
        if isinstance(base, (list, tuple)):
            base = VList.from_py(list(base))
        if isinstance(base, str):
            base = VStr(base)
        if isinstance(base, VList):
            i = self.norm_index(base, idx, st, node)
            return base.get(i)
        if isinstance(base, VStr):
            n = z3.Length(base.t)
            i = toint(idx)
            self.safety(st, node, z3.And(i >= -n, i < n), "IndexError", "strindex")
            ii = z3.simplify(z3.If(i < 0, i + n, i))
            return VStr(self.str_piece(st, base.t, ii, z3.IntVal(1)))
        raise Unsupported("index into %r" % (base,))

    def norm_index(self, lst, idx, st, node):
        if isinstance(idx, VOpt):
            self.safety(st, node, z3.Not(idx.isnone), "TypeError", "index_none")
            idx = idx.val
        i = toint(idx)
        self.safety(st, node, z3.And(i >= -lst.n, i < lst.n), "IndexError", "index")
        return z3.simplify(z3.If(i < 0, i + lst.n, i))

    def slice(self, base, lo, hi, step, st, node):
        if isinstance(base, VOpt):
            self.safety(st, node, z3.Not(base.isnone), "TypeError", "notnone")
            base = base.val
        if not is_sym(base) and all(not is_sym(x) for x in (lo, hi, step)):
            return base[slice(lo, hi, step)]
        if isinstance(base, (list, tuple)):
            base = VList.from_py(list(base))
        if isinstance(base, VTuple):
            base = VList.from_py(base.items)
        if isinstance(base, str):
            base = VStr(base)
        n = base.n if isinstance(base, VList) else z3.Length(base.t)
        if step is not None and step != 1:
            if step == -1 and lo is None and hi is None and isinstance(base, VList):
                return VList(n, get=lambda i: base.get(n - 1 - i), et=base.et)
            raise Unsupported("slice step")

        l, h, ln = slice_bounds(n, lo, hi)
        if isinstance(base, VList):
            return VList(ln, get=lambda i: base.get(z3.simplify(l + i)), et=base.et)
        # strings: registered split points give word-equation friendly pieces
        sp = self.split_lookup(st, base, l, h)
        if sp is not None:
            return sp
        return VStr(self.str_piece(st, base.t, l, ln))

    def str_piece(self, st, t, l, ln):
        """t[l : l+ln] as a word equation: t == p . m . q with |p| == l and |m| == ln (such a
        decomposition exists whenever 0 <= l, 0 <= ln, l + ln <= |t|; the solver handles word equations
        far better than nested str.substr terms).  Memoised per (t, l, ln)."""
        memo = st.env.setdefault("$pieces", {})
        key = (t.get_id(), z3.simplify(l).get_id(), z3.simplify(ln).get_id())
        if key in memo:
            return memo[key]
        mf, axs = piece_axioms(t, z3.simplify(l), z3.simplify(ln))
        for a in axs:
            st.define(a)
        m = z3.String(fresh_name("sm"))
        st.define(m == mf)
        st.env["$pieces"] = dict(memo)
        st.env["$pieces"][key] = m
        return m

    # string split registry: s = pre . c . suf
    def split_lookup(self, st, s, l, h):
        reg = st.env.get("$splits") or []
        n = z3.Length(s.t)
        for (s_t, r_t, pre, suf) in reg:
            if not z3.eq(s_t, s.t):
                continue
            if z3.eq(z3.simplify(l), z3.IntVal(0)) and _eq_terms(h, _clampi(r_t, n)):
                return VStr(pre)
            if _eq_terms(l, _clampi(r_t + 1, n)) and z3.eq(z3.simplify(h), z3.simplify(n)):
                return VStr(suf)
        return None

    def ev_Tuple(self, e, st):
        items = [self.ev(x, st) for x in e.elts]
        if all(not is_sym(x) for x in items):
            return tuple(items)
        return VTuple(items)

    def ev_List(self, e, st):
        items = [self.ev(x, st) for x in e.elts]
        return VList.from_py(items) if items else VList(0, get=_no_elem, conc=[])

    def ev_Dict(self, e, st):
        if e.keys:
            raise Unsupported("non-empty dict literal")
        return VRec("dict", {})

    def ev_JoinedStr(self, e, st):
        raise Unsupported("f-string")

    def ev_UnaryOp(self, e, st):
        v = self.ev(e.operand, st)
        if isinstance(e.op, ast.Not):
            return vnot(self.truth(v, st))
        if isinstance(e.op, ast.USub):
            if not is_sym(v):
                return -v
            return VInt(-toint(v))
        raise Unsupported("unary op")

    def ev_BoolOp(self, e, st):
        # short circuit; result used as a truth value (all uses in the repo are)
        vals = []
        acc = None
        for k, sub in enumerate(e.values):
            if acc is None:
                v = self.truth(self.ev(sub, st), st)
            else:
                cond = acc if isinstance(e.op, ast.And) else vnot(acc)
                if isinstance(cond, bool):
                    if not cond:
                        break
                    v = self.truth(self.ev(sub, st), st)
                else:
                    v = self.guard_eval(st, cond, lambda sub=sub: self.truth(self.ev(sub, st), st))
            if acc is None:
                acc = v
            else:
                acc = vand(acc, v) if isinstance(e.op, ast.And) else vor(acc, v)
        return acc

    def ev_IfExp(self, e, st):
        c = self.truth(self.ev(e.test, st), st)
        if isinstance(c, bool):
            return self.ev(e.body if c else e.orelse, st)
        a = self.guard_eval(st, c, lambda: self.ev(e.body, st))
        b = self.guard_eval(st, vnot(c), lambda: self.ev(e.orelse, st))
        return vite(c, a, b)

    def ev_Compare(self, e, st):
        left = self.ev(e.left, st)
        res = None
        for op, rn in zip(e.ops, e.comparators):
            right = self.ev(rn, st)
            r = self.compare(op, left, right, st, e)
            res = r if res is None else vand(res, r)
            left = right
        return res

    def compare(self, op, a, b, st, node):
        if isinstance(op, (ast.Eq, ast.Is)):
            return veq(a, b)
        if isinstance(op, (ast.NotEq, ast.IsNot)):
            return vnot(veq(a, b))
        if isinstance(op, (ast.In, ast.NotIn)):
            r = self.contains(b, a, st, node)
            return vnot(r) if isinstance(op, ast.NotIn) else r
        if not is_sym(a) and not is_sym(b):
            return {ast.Lt: a < b, ast.LtE: a <= b, ast.Gt: a > b, ast.GtE: a >= b}[type(op)]
        if isinstance(a, VOpt) or isinstance(b, VOpt) or a is VNone or b is VNone or a is None or b is None:
            # ordering against None is a TypeError
            for x in (a, b):
                if isinstance(x, VOpt):
                    self.safety(st, node, z3.Not(x.isnone), "TypeError", "cmp_none")
            a = a.val if isinstance(a, VOpt) else a
            b = b.val if isinstance(b, VOpt) else b
            if a is VNone or b is VNone or a is None or b is None:
                self.safety(st, node, z3.BoolVal(False), "TypeError", "cmp_none")
                raise Unsupported("unreachable")
        x, y = toint(a), toint(b)
        return VBool({ast.Lt: x < y, ast.LtE: x <= y, ast.Gt: x > y, ast.GtE: x >= y}[type(op)])

    def contains(self, cont, x, st, node):
        if isinstance(cont, tuple) and cont and cont[0] == "data":
            if not isinstance(x, str):
                raise Unsupported("<sym> in data")
            if x not in DATA_KEYS:
                raise Unsupported("data key %r" % x)
            return st.heap.has(cont[1], x)
        if isinstance(cont, VMap):
            return cont.has(x)
        if isinstance(cont, VSMap):
            k = lift(x)
            if not isinstance(k, (VInt, VRef)):
                raise Unsupported("symbolic dict with a key of type %r" % (k,))
            return cont.has(k.t)
        if isinstance(cont, VDict):
            return cont.has(tostr(lift(x)))
        if isinstance(cont, VRec) and cont.cls == "params":
            if not isinstance(x, str):
                # e.g. `gf_separator in params` with a symbolic/constant string value
                if not is_sym(x):
                    raise Unsupported("params membership of %r" % (x,))
                return vor(*[vand(VBool(h), veq(x, k)) for k, h in cont.fields["has"].items()]) \
                    if cont.fields["has"] else False
            if x not in cont.fields["has"]:
                raise Unsupported("option %r not declared in the contract (params=...)" % x)
            return VBool(cont.fields["has"][x])
        if isinstance(cont, VRec) and cont.cls == "dict":
            if isinstance(x, str):
                return x in cont.fields
            raise Unsupported("sym in dict")
        if not is_sym(cont) and not is_sym(x):
            return x in cont
        if isinstance(cont, (list, tuple, dict)):
            items = list(cont)
            return vor(*[veq(x, k) for k in items]) if items else False
        if isinstance(cont, str):
            cont = VStr(cont)
        if isinstance(cont, VStr):
            return VBool(z3.Contains(cont.t, tostr(x)))
        if isinstance(cont, VTuple):
            return vor(*[veq(x, k) for k in cont.items]) if cont.items else False
        if isinstance(cont, VList):
            j = z3.Int(fresh_name("mem"))
            return VBool(z3.Exists([j], z3.And(0 <= j, j < cont.n, tobool(veq(cont.get(j), x)))))
        raise Unsupported("membership in %r" % (cont,))

    def ev_BinOp(self, e, st):
        a = self.ev(e.left, st)
        b = self.ev(e.right, st)
        return self.binop(e.op, a, b, st, e)

    def binop(self, op, a, b, st, node):
        if isinstance(op, ast.Mod) and isinstance(a, (str, VStr)):
            return self.format_percent(a, b, st, node)
        if not is_sym(a) and not is_sym(b):
            if isinstance(op, ast.Div):
                raise Unsupported("true division (float) is not modelled")
            try:
                return _PYOPS[type(op)](a, b)
            except KeyError:
                raise Unsupported("binary op %s" % type(op).__name__)
        if isinstance(a, VOpt) or isinstance(b, VOpt):
            for x in (a, b):
                if isinstance(x, VOpt):
                    self.safety(st, node, z3.Not(x.isnone), "TypeError", "op_none")
            a = a.val if isinstance(a, VOpt) else a
            b = b.val if isinstance(b, VOpt) else b
        if isinstance(op, ast.Add):
            if isinstance(a, (VStr, str)) and isinstance(b, (VStr, str)):
                return VStr(z3.Concat(tostr(a), tostr(b)))
            if isinstance(a, (VList, list, tuple, VTuple)) and isinstance(b, (VList, list, tuple, VTuple)):
                return list_concat(self.iter_list(a, st, node), self.iter_list(b, st, node))
            if isinstance(a, (VInt, int)) and isinstance(b, (VInt, int)) and not isinstance(a, bool) and not isinstance(b, bool):
                return VInt(toint(a) + toint(b))
            self.safety(st, node, z3.BoolVal(False), "TypeError", "add_types")
            raise Unsupported("unreachable: + on %r and %r" % (a, b))
        if isinstance(op, ast.Sub):
            return VInt(toint(a) - toint(b))
        if isinstance(op, ast.Mult):
            if isinstance(a, (VStr, str)) and isinstance(b, (VInt, int)) or \
                    isinstance(b, (VStr, str)) and isinstance(a, (VInt, int)):
                sv, nv = (a, b) if isinstance(a, (VStr, str)) else (b, a)
                return VStr(str_repeat_fn()(tostr(sv), toint(nv)))
            if isinstance(a, (VList, list)) and isinstance(b, (VInt, int)):
                a = self.iter_list(a, st, node)
                if a.conc is not None and isinstance(b, int) and not isinstance(b, bool):
                    return VList.from_py(list(a.conc) * b)
                if a.conc is not None and len(a.conc) == 1:
                    x = a.conc[0]
                    n = toint(b)
                    return VList(z3.If(n > 0, n, 0), get=lambda i: x, et=type_of(x))
                raise Unsupported("list repetition")
            return VInt(toint(a) * toint(b))
        if isinstance(op, ast.FloorDiv):
            x, y = toint(a), toint(b)
            self.safety(st, node, y != 0, "ZeroDivisionError", "div0")
            if z3.is_int_value(z3.simplify(y)) and z3.simplify(y).as_long() > 0:
                return VInt(x / y)          # z3 int division = floor for positive divisor
            raise Unsupported("floor division by a non-constant or negative divisor")
        if isinstance(op, ast.Mod):
            x, y = toint(a), toint(b)
            if z3.is_int_value(z3.simplify(y)) and z3.simplify(y).as_long() > 0:
                return VInt(x % y)
            raise Unsupported("modulo by a non-constant or negative divisor")
        if isinstance(op, ast.Div):
            raise Unsupported("true division (float) is not modelled")
        raise Unsupported("binary op %s" % type(op).__name__)

    def format_percent(self, fmt, args, st, node):
        if not isinstance(fmt, str):
            raise Unsupported("symbolic format string")
        if isinstance(args, VTuple):
            items = args.items
        elif isinstance(args, tuple):
            items = list(args)
        else:
            items = [args]
        out = []
        i = 0
        k = 0
        lit = ""
        while i < len(fmt):
            ch = fmt[i]
            if ch == "%" and i + 1 < len(fmt):
                spec = fmt[i + 1]
                if spec == "%":
                    lit += "%"
                    i += 2
                    continue
                if spec not in "sd":
                    raise Unsupported("format %%%s" % spec)
                if k >= len(items):
                    self.safety(st, node, z3.BoolVal(False), "TypeError", "fmt_args")
                    raise Unsupported("unreachable")
                if lit:
                    out.append(lit)
                    lit = ""
                out.append(self.to_str(items[k], st, node, spec))
                k += 1
                i += 2
                continue
            lit += ch
            i += 1
        if lit:
            out.append(lit)
        if k != len(items):
            self.safety(st, node, z3.BoolVal(False), "TypeError", "fmt_args")
            raise Unsupported("unreachable")
        if all(isinstance(x, str) for x in out):
            return "".join(out)
        res = None
        for x in out:
            res = x if res is None else (VStr(z3.Concat(tostr(res), tostr(x))))
        return res if res is not None else ""

    def to_str(self, v, st, node, spec="s"):
        if spec == "d":
            if isinstance(v, VOpt):
                self.safety(st, node, z3.Not(v.isnone), "TypeError", "fmt_d_none")
                v = v.val
            if isinstance(v, (VStr, str)) or v is VNone or v is None:
                self.safety(st, node, z3.BoolVal(False), "TypeError", "fmt_d")
                raise Unsupported("unreachable")
            if isinstance(v, bool):
                return str(int(v))
            if isinstance(v, int):
                return "%d" % v
            if isinstance(v, VBool):
                return VStr(z3.If(v.t, z3.StringVal("1"), z3.StringVal("0")))
            return VStr(int_to_str(toint(v)))
        if isinstance(v, (str, VStr)):
            return v
        if isinstance(v, bool):
            return str(v)
        if isinstance(v, int):
            return str(v)
        if isinstance(v, VInt):
            return VStr(int_to_str(v.t))
        if v is None or v is VNone:
            return "None"
        if isinstance(v, VOpt):
            return vite(VBool(v.isnone), "None", self.to_str(v.val, st, node))
        if isinstance(v, VBool):
            return VStr(z3.If(v.t, z3.StringVal("True"), z3.StringVal("False")))
        if isinstance(v, VRec) and (v.cls + ".__str__") in self.repo.fns:
            info = self.repo.fns[v.cls + ".__str__"]
            c = Contract(target=v.cls + ".__str__", prop=self.c.prop, args={}, inline=True)
            return self.inline_call(info, c, [v], {}, st, node)
        raise Unsupported("str() of %r" % (v,))

    def ev_Lambda(self, e, st):
        names = [a.arg for a in e.args.args]
        env0 = dict(st.env)

        def fn(*args):
            st2 = self.cur_state
            saved = dict(st2.env)
            st2.env.update(env0)
            for n, a in zip(names, args):
                st2.env[n] = a
            try:
                return self.ev(e.body, st2)
            finally:
                st2.env.clear()
                st2.env.update(saved)
        return VFun(fn, "<lambda>")

    def ev_ListComp(self, e, st):
        if len(e.generators) != 1:
            raise Unsupported("nested comprehension")
        g = e.generators[0]
        src = self.iter_list(self.ev(g.iter, st), st, g.iter)
        if src.conc is not None and not g.ifs:
            out = []
            saved = dict(st.env)
            for x in src.conc:
                self.assign(g.target, x, st)
                out.append(self.ev(e.elt, st))
            st.env.clear()
            st.env.update(saved)
            return VList.from_py(out) if out else VList(0, get=_no_elem, conc=[])
        if g.ifs:
            return self._filtered_comp(e, g, src, st)

        # map over a symbolic list: element i is elt[target := src[i]]; safety
        # obligations of elt are checked for a generic index
        j = z3.Int(fresh_name("ci"))
        saved = dict(st.env)
        self.assign(g.target, src.get(j), st)
        self.guard_eval(st, VBool(z3.And(j >= 0, j < src.n)), lambda: self.ev(e.elt, st))
        env_t = dict(st.env)
        st.env.clear()
        st.env.update(saved)
        ex = self

        def get(i, env_t=env_t, tgt=g.target, elt=e.elt, src=src):
            st2 = ex.cur_state
            sv = dict(st2.env)
            st2.env.clear()
            st2.env.update(env_t)
            ex.assign(tgt, src.get(i), st2)
            n0 = len(st2.pc)
            nob = len(ex.obligations)
            try:
                return ex.ev(elt, st2)
            finally:
                del st2.pc[n0:]
                del ex.obligations[nob:]
                st2.env.clear()
                st2.env.update(sv)
        return VList(src.n, get=get, et=None)

    def _filtered_comp(self, e, g, src, st):
        """[elt for x in xs if cond]: the sub-sequence of the elements that satisfy cond, in order.  Modelled by an
        index selection sel (strictly increasing, into xs) with inverse inv: R[a] == elt(xs[sel(a)]), cond holds at
        every selected index, and every index at which cond holds is selected.  cond and elt are evaluated on a generic
        element (their safety obligations are owed for every element); both must be first-order values."""
        self.trusted.add("[e for x in xs if c]: modelled as an order-preserving selection of the indices at which c holds "
                         "(c and e pure)")
        ex = self
        saved = dict(st.env)
        j = z3.Int(fresh_name("fj"))
        self.assign(g.target, src.get(j), st)
        dom = VBool(z3.And(j >= 0, j < src.n))
        conds = [self.guard_eval(st, dom, lambda c_=c_: self.truth(self.ev(c_, st), st)) for c_ in g.ifs]
        self.guard_eval(st, dom, lambda: self.ev(e.elt, st))
        env_t = dict(st.env)
        st.env.clear()
        st.env.update(saved)

        def at(i, what):
            st2 = ex.cur_state
            sv = dict(st2.env)
            st2.env.clear()
            st2.env.update(env_t)
            ex.assign(g.target, src.get(i), st2)
            n0, nob = len(st2.pc), len(ex.obligations)
            try:
                if what == "cond":
                    return z3.And(*[tobool(ex.truth(ex.ev(c_, st2), st2)) for c_ in g.ifs])
                return ex.ev(e.elt, st2)
            finally:
                del st2.pc[n0:]
                del ex.obligations[nob:]
                st2.env.clear()
                st2.env.update(sv)
        self.cur_state = st
        probe = lift(at(j, "elt"))
        if not isinstance(probe, (VInt, VRef, VStr, VBool)):
            raise Unsupported("filtered comprehension with elements of type %r" % (probe,))
        n = z3.Int(fresh_name("flt_n"))
        sel = z3.Function(fresh_name("flt_sel"), IntS, IntS)
        inv = z3.Function(fresh_name("flt_inv"), IntS, IntS)
        arr = z3.Const(fresh_name("flt_arr"), z3.ArraySort(IntS, probe.t.sort()))
        a, b, i = z3.Int(fresh_name("fa")), z3.Int(fresh_name("fb")), z3.Int(fresh_name("fi"))
        st.define(n >= 0)
        st.define(z3.ForAll([a], z3.Implies(z3.And(0 <= a, a < n), z3.And(
            0 <= sel(a), sel(a) < src.n, at(sel(a), "cond"), z3.Select(arr, a) == lift(at(sel(a), "elt")).t,
            inv(sel(a)) == a)), patterns=[z3.Select(arr, a)]))
        st.define(z3.ForAll([a, b], z3.Implies(z3.And(0 <= a, a < b, b < n), sel(a) < sel(b)),
                            patterns=[z3.MultiPattern(sel(a), sel(b))]))
        st.define(z3.ForAll([i], z3.Implies(z3.And(0 <= i, i < src.n, at(i, "cond")),
                                            z3.And(0 <= inv(i), inv(i) < n, sel(inv(i)) == i)), patterns=[inv(i)]))
        res = VList(n, arr=arr, wrap=type(probe), et=type_of(probe))
        res.filter_of = (src, sel, inv, lambda q: at(q, "cond"))
        return res

    ev_GeneratorExp = ev_ListComp

    # ---------------- calls ----------------
    def ev_Call(self, e, st):
        self.cur_state = st
        f = self.ev(e.func, st)
        if e.keywords and any(k.arg is None for k in e.keywords):
            # f(**params): pass the params record through
            kw = {k.arg: self.ev(k.value, st) for k in e.keywords}
        else:
            kw = {k.arg: self.ev(k.value, st) for k in e.keywords}
        args = [self.ev(a, st) for a in e.args]
        self.cur_state = st
        if isinstance(f, VFun):
            return f(*args)
        if isinstance(f, tuple):
            kind = f[0]
            if kind == "builtin":
                return self.call_builtin(f[1], args, kw, st, e)
            if kind == "method":
                return self.call_method(f[1], f[2], args, kw, st, e)
            if kind == "fn":
                return self.call_fn(f[1], args, kw, st, e)
            if kind == "class":
                return self.call_class(f[1], args, kw, st, e)
            if kind == "extattr":
                return self.call_ext(f, args, kw, st, e)
            if kind == "ext":
                return self.call_ext(f, args, kw, st, e)
        raise Unsupported("call of %r" % (f,))

    def call_ext(self, f, args, kw, st, node):
        name = f[2] if f[0] == "extattr" else f[1][2]
        if name == "floor":
            raise Unsupported("math.floor (float) is not modelled")
        if name == "deepcopy":
            return args[0]
        if name == "Counter" and len(args) == 1 and isinstance(args[0], VList) and args[0].conc is not None \
                and len(args[0].conc) == 0 and not kw:
            # collections.Counter([]): an empty table of counts (a missing key counts 0)
            self.trusted.add("collections.Counter([]) is an empty table; Counter.update([k]) adds one to the count of k "
                             "(0 when absent)")
            return VRec("dict", {})
        raise Unsupported("external function %r" % (name,))

    def call_class(self, q, args, kw, st, node):
        if q == "trees.trees.Label":
            return VRec("Label", {})
        if q == "trees.transitions.Transition" and len(args) == 1:
            # Transition.__init__(self, name): self.name = name   (checked against the real __init__ below)
            init = self.repo.fns.get(q + ".__init__")
            src = init.src if init is not None else ""
            if "self.name = name" not in src or src.count("self.") != 1:
                raise Unsupported("Transition.__init__ is no longer `self.name = name`")
            return VRec(q, {"name": args[0]})
        if q == "trees.trees.Tree" and len(args) == 1:
            return self.alloc_tree(args[0], st, node)
        raise Unsupported("class %s" % q)

    def alloc_tree(self, data, st, node):
        """Tree(data): a fresh node (not allocated before, not None) with no parent, no children and a copy of
        `data` (a dict literal built in the function, or the .data of another node)"""
        init = self.repo.fns.get("trees.trees.Tree.__init__")
        src = init.src if init is not None else ""
        for needle in ("self.children = []", "self.parent = None", "self.data = deepcopy(data)"):
            if needle not in src:
                raise Unsupported("Tree.__init__ no longer contains `%s`" % needle)
        H = st.heap
        r = z3.Int(fresh_name("new"))
        st.assume(z3.And(r != 0, z3.Not(z3.Select(H.f["alive"], r))))
        H.f["alive"] = z3.Store(H.f["alive"], r, True)
        H.f["parent"] = z3.Store(H.f["parent"], r, 0)
        H.f["nchild"] = z3.Store(H.f["nchild"], r, 0)
        ref = VRef(r)
        if isinstance(data, VRec) and data.cls == "dict":
            for k in DATA_KEYS:
                if k in data.fields:
                    if DATA_KEYS[k] == "any":
                        H.f["has_" + k] = z3.Store(H.f["has_" + k], r, True)
                        continue
                    H.set_data(ref, k, lift(data.fields[k]) if data.fields[k] is not None else VNone)
                else:
                    H.f["has_" + k] = z3.Store(H.f["has_" + k], r, False)
            for k in data.fields:
                if k not in DATA_KEYS:
                    raise Unsupported("Tree(data) with unmodelled key %r" % k)
        elif isinstance(data, tuple) and data and data[0] == "data":
            src_ref = data[1]
            for name in list(H.f):
                if name.startswith(("has_", "val_", "none_")):
                    H.f[name] = z3.Store(H.f[name], r, z3.Select(H.f[name], src_ref.t))
        else:
            raise Unsupported("Tree(%r)" % (data,))
        return ref

    def call_fn(self, q, args, kw, st, node):
        c = self.reg.get(q)
        info = self.repo.fns.get(q)
        if info is None:
            raise Unsupported("unknown function %s" % q)
        if c is None:
            raise Unsupported("call of %s, which has no contract" % q)
        if c.inline:
            return self.inline_call(info, c, args, kw, st, node)
        # ---- modular: callee contract only ----
        names = [a.arg for a in info.node.args.args]
        bound = {}
        for n, a in zip(names, args):
            bound[n] = a
        for k, v in kw.items():
            if k is not None and k in names:
                bound[k] = v
        if info.node.args.kwarg is not None:
            pv = kw.get(None)
            extra = {k: v for k, v in kw.items() if k is not None and k not in names}
            bound[info.node.args.kwarg.arg] = self._params_for_callee(c, pv, extra, st)
        # defaults
        defaults = info.node.args.defaults
        for n, d in zip(names[len(names) - len(defaults):], defaults):
            if n not in bound:
                bound[n] = ast.literal_eval(d)
        if set(bound) != set(names) | ({info.node.args.kwarg.arg} if info.node.args.kwarg else set()):
            raise Unsupported("argument binding for %s" % q)
        # an Optional value handed to a parameter the callee contract types as str/int: None is outside the contract
        # (the real callee would fail on it), so the call site owes "is not None"; an empty list / dict literal handed
        # to a dict-typed parameter is the empty table
        for n in names:
            ty = c.args.get(n)
            v = bound[n]
            if isinstance(v, VOpt) and isinstance(ty, (TStr, TInt, TBool)):
                self.safety(st, node, z3.Not(v.isnone), "TypeError", "arg_%s_notnone" % n)
                bound[n] = v.val
            elif isinstance(ty, sym.TDict) and isinstance(v, dict) and len(v) > 0:
                # a dict constant of the package: small ones exactly, large ones as an opaque dict with sound facts
                if len(v) <= 4:
                    bound[n] = sym.dict_from_concrete(v, ty.vt)
                else:
                    bound[n], facts = sym.dict_abstract(v, ty.vt)
                    for f_ in facts:
                        st.assume(f_)
                    self.trusted.add("large dict constants are abstracted to opaque dicts (content-independent proof; "
                                     "only the value sets of their string components are used)")
            elif isinstance(ty, sym.TDict) and isinstance(v, (list, dict)) and len(v) == 0:
                bound[n] = sym.VDict(STR, ty.vt, lambda k_: VBool(z3.BoolVal(False)),
                                     lambda k_, _t=ty.vt: fresh(_t, "empty_dict_val"))
            elif isinstance(ty, sym.TDict) and isinstance(v, VList) and v.conc is not None and len(v.conc) == 0:
                bound[n] = sym.VDict(STR, ty.vt, lambda k_: VBool(z3.BoolVal(False)),
                                     lambda k_, _t=ty.vt: fresh(_t, "empty_dict_val"))
        ordered = [bound[n] for n in names] + ([bound[info.node.args.kwarg.arg]] if info.node.args.kwarg else [])
        k = self.call_counter.get(q, 0)
        self.call_counter[q] = k + 1
        short = q.split(".", 2)[2]
        S = SpecCtx(self, st, st.heap, bound)
        if c.requires is not None:
            self.oblige(st, "pre@%s.L%d" % (short, self.line(node)), c.requires(S, *ordered), "pre-at-call")
        if q == self.c.target and self.inline_depth == 0:
            if c.decreases is None:
                raise Unsupported("recursive call without a decreases clause in the contract")
            m_callee = toint(c.decreases(S, *ordered))
            m_caller = toint(c.decreases(SpecCtx(self, st, st.heap, self.entry_args), *self.entry_args.values()))
            self.oblige(st, "decreases.L%d" % self.line(node), z3.And(0 <= m_callee, m_callee < m_caller), "variant")
        if c.assumed:
            self.trusted.add("contract of %s assumed (not verified deductively): %s" % (q, c.note or "bounded-checked"))
        old = st.heap.copy()
        if c.modifies:
            st.heap.havoc(c.modifies, "call")
            if "nchild" in c.modifies:
                for t in st.heap.typing():
                    st.assume(t)
        # exceptions of the callee
        for exc, cond in c.raises.items():
            ct = tobool(cond(SpecCtx(self, st, old, bound), *ordered))
            if exc in self.c.raises and self.inline_depth == 0:
                self.raise_paths.append((list(st.pc) + [ct], exc, self.line(node), dict(st.env), st.heap.copy()))
                st.assume(z3.Not(ct))
            else:
                self.oblige(st, "safe.L%d.%s_from_%s" % (self.line(node), exc, short), z3.Not(ct), "safety",
                            {"exception": exc})
        rt = c.result_type
        S2 = SpecCtx(self, st, old, bound)
        if c.returns is not None:
            res = c.returns(S2, *ordered)
        elif c.result_name is not None:
            res = named_result(c, ordered, st.heap if getattr(c, "heap_named", False) else None)
            if isinstance(res, VList):
                st.assume(res.n >= 0)
        else:
            if rt is None:
                raise Unsupported("contract of %s has no result_type" % q)
            assume = []
            res = fresh(rt, "r_" + short.replace(".", "_"), assume=assume)
            for t in assume:
                st.assume(t)
        if c.ensures:
            for name, fnc in c.ensures.items():
                st.assume(tobool(fnc(S2, *(ordered + [res]))))
        for pname, fnc in c.appends.items():
            cur = bound[pname]
            if not (isinstance(cur, VRec) and cur.cls == "stream") or pname not in names \
                    or names.index(pname) >= len(node.args):
                raise Unsupported("stream argument %r of %s" % (pname, q))
            piece = tostr(fnc(S2, *ordered)) if fnc is not None else z3.String(fresh_name("written_by_" + short))
            new = VRec("stream", {"text": VStr(z3.Concat(tostr(cur.fields["text"]), piece))})
            st.env["$last_written"] = VStr(piece)
            self.assign(_store(node.args[names.index(pname)]), new, st)
        return res

    def _params_for_callee(self, c, pv, extra, st):
        has, val = {}, {}
        assume = []
        for k, ty in c.params.items():
            if k in extra:
                has[k] = z3.BoolVal(True)
                val[k] = extra[k]
            elif isinstance(pv, VRec) and pv.cls == "params" and k in pv.fields["has"]:
                has[k] = pv.fields["has"][k]
                val[k] = pv.fields["val"][k]
            elif pv is None:
                has[k] = z3.BoolVal(False)
                # an absent option has no value the callee could read; a canonical placeholder (instead of a fresh
                # constant) keeps results that are named by uninterpreted functions of the arguments functional
                if isinstance(ty, TStr):
                    val[k] = VStr(z3.StringVal(""))
                elif isinstance(ty, TInt):
                    val[k] = VInt(z3.IntVal(0))
                elif isinstance(ty, TBool):
                    val[k] = VBool(z3.BoolVal(False))
                else:
                    val[k] = fresh(ty, "np_" + k, assume=assume)
            else:
                raise Unsupported("callee option %r is not declared for the caller's **params" % k)
        for k in extra:
            if k not in c.params:
                raise Unsupported("keyword %r not declared in the callee contract" % k)
        return VRec("params", {"has": has, "val": val})

    def inline_call(self, info, c, args, kw, st, node):
        """small non-recursive helpers are executed in place (their real body)"""
        if self.inline_depth > 3:
            raise Unsupported("inline depth")
        names = [a.arg for a in info.node.args.args]
        sub = Exec(self.repo, self.reg, info, c, prefix=self.prefix + ".inl_" + info.qual)
        sub.obligations = self.obligations
        sub.inline_depth = self.inline_depth + 1
        sub.trusted = self.trusted
        st2 = State(dict(zip(names, args)), st.pc, st.heap)
        sub.entry_heap = st.heap
        outs = sub.exec_block(info.node.body, st2)
        outs = [o for o in outs]
        rets = []
        for o in outs:
            if o.kind == "raise":
                raise Unsupported("inlined helper may raise")
            rets.append(o)
        if len(rets) == 1:
            o = rets[0]
            st.pc[:] = o.st.pc
            st.heap.f = o.st.heap.f
            return o.val if o.kind == "return" else VNone
        # merge several return paths with ite (pure helpers only)
        base = list(st.pc)
        res = None
        for o in reversed(rets):
            cond = z3.And(*o.st.pc[len(base):]) if len(o.st.pc) > len(base) else z3.BoolVal(True)
            v = o.val if o.kind == "return" else VNone
            res = v if res is None else vite(VBool(cond), v, res)
            for k in o.st.heap.f:
                if o.st.heap.f[k] is not st.heap.f[k]:
                    raise Unsupported("inlined helper with several paths writes the heap")
        return res

    def call_builtin(self, name, args, kw, st, node):
        if name == "len":
            v = args[0]
            if isinstance(v, VOpt):
                self.safety(st, node, z3.Not(v.isnone), "TypeError", "len_none")
                v = v.val
            if v is VNone or v is None:
                self.safety(st, node, z3.BoolVal(False), "TypeError", "len_none")
                raise Unsupported("unreachable")
            if isinstance(v, VList):
                return VInt(v.n)
            if isinstance(v, VStr):
                return VInt(z3.Length(v.t))
            if isinstance(v, VTuple):
                return len(v.items)
            if isinstance(v, VRec) and v.cls == "dict":
                return len(v.fields)
            if not is_sym(v):
                return len(v)
            raise Unsupported("len of %r" % (v,))
        if name == "range":
            if len(args) == 1:
                lo, hi = 0, args[0]
            elif len(args) == 2:
                lo, hi = args
            else:
                raise Unsupported("range with step")
            if not is_sym(lo) and not is_sym(hi):
                return list(range(lo, hi))
            l, h = toint(lo), toint(hi)
            return VList(z3.If(h > l, h - l, 0), get=lambda i: VInt(l + i), et=INT)
        if name == "enumerate":
            src = self.iter_list(args[0], st, node)
            if src.conc is not None:
                return VList.from_py([(k, x) if not is_sym(x) else VTuple([k, x]) for k, x in enumerate(src.conc)])
            return VList(src.n, get=lambda i: VTuple([VInt(i), src.get(i)]), et=None)
        if name == "zip":
            a, b = [self.iter_list(x, st, node) for x in args]
            z = VList(z3.If(a.n < b.n, a.n, b.n), get=lambda i: VTuple([a.get(i), b.get(i)]), et=None)
            z.zip_of = (a, b)
            return z
        if name == "reversed":
            a = self.iter_list(args[0], st, node)
            return VList(a.n, get=lambda i: a.get(a.n - 1 - i), et=a.et)
        if name in ("list", "tuple"):
            if not args:
                return VList(0, get=_no_elem, conc=[])
            return self.iter_list(args[0], st, node)
        if name == "str":
            return self.to_str(args[0], st, node)
        if name == "int":
            v = args[0]
            if isinstance(v, (VInt, int)) and not isinstance(v, bool):
                return v
            if isinstance(v, (VStr, str)):
                s = tostr(v)
                self.safety(st, node, IS_INT_LIT(s), "ValueError", "int_literal")
                self.trusted.add("int(str): uninterpreted py_str_to_int / py_is_int_literal; axiom: a string for which "
                                 "isdigit() holds and int() succeeds denotes a non-negative integer")
                st.define(z3.Implies(z3.And(IS_DIGIT(s), IS_INT_LIT(s)), STR_TO_INT(s) >= 0))
                return VInt(STR_TO_INT(s))
            raise Unsupported("int() of %r" % (v,))
        if name == "sum":
            lst = self.iter_list(args[0], st, node)
            return VInt(ssum_of(lst, self))
        if name in ("max", "min"):
            if len(args) == 2:
                a, b = toint(args[0]), toint(args[1])
                return VInt(z3.If(a >= b, a, b) if name == "max" else z3.If(a <= b, a, b))
            lst = self.iter_list(args[0], st, node)
            self.safety(st, node, lst.n > 0, "ValueError", "%s_empty" % name)
            m = z3.Int(fresh_name(name))
            w = z3.Int(fresh_name(name + "_at"))
            j = z3.Int(fresh_name("j"))
            cmp_ = (lambda x: x <= m) if name == "max" else (lambda x: x >= m)
            st.assume(z3.And(0 <= w, w < lst.n, toint(lst.get(w)) == m))
            st.assume(z3.ForAll([j], z3.Implies(z3.And(0 <= j, j < lst.n), cmp_(toint(lst.get(j))))))
            return VInt(m)
        if name == "sorted":
            if len(args) != 1 or set(kw) - {"key"}:
                raise Unsupported("sorted() with these arguments")
            lst = self.iter_list(args[0], st, node)
            keyf = kw.get("key")
            self.trusted.add("sorted(xs, key=f): modelled as a list s of the same length with a bijection p on the indices, "
                             "s[i] == xs[p(i)] (p has an inverse), and f(s[i]) <= f(s[j]) for i < j (order of equal keys not modelled)")
            et = lst.et or type_of(lst.get(z3.Int(fresh_name("probe"))))
            if not isinstance(et, (TInt, TRef)):
                raise Unsupported("sorted() of a list of %r" % (et,))
            wrap = sym.wrap_of(et)
            arr = z3.Const(fresh_name("sorted_arr"), sym.IntArr)
            pi = z3.Function(fresh_name("sorted_perm"), IntS, IntS)
            n = lst.n
            res = VList(n, arr=arr, wrap=wrap, et=et)
            i, j = z3.Int(fresh_name("si")), z3.Int(fresh_name("sj"))
            # the key is evaluated on every element: its safety obligations for a generic element
            g = z3.Int(fresh_name("sg"))
            kval = (lambda v: v) if keyf is None else keyf
            n_g = len(st.pc)
            self.guard_eval(st, VBool(z3.And(0 <= g, g < n)), lambda: kval(lst.get(g)))
            learned = st.pc[n_g:]
            del st.pc[n_g:]
            if learned:
                # what evaluating the key told us about a generic element holds for every element
                gt = lst.get(g).t
                try:
                    st.define(z3.ForAll([g], z3.And(*learned), patterns=[gt]))
                except z3.Z3Exception:
                    st.define(z3.ForAll([g], z3.And(*learned)))
            n_ob = len(self.obligations)
            n_pc = len(st.pc)
            ki = toint(kval(res.get(i)))
            kj = toint(kval(res.get(j)))
            del self.obligations[n_ob:]
            del st.pc[n_pc:]
            st.define(z3.ForAll([i], z3.Implies(z3.And(0 <= i, i < n), z3.And(
                0 <= pi(i), pi(i) < n, z3.Select(arr, i) == lst.get(pi(i)).t)), patterns=[z3.Select(arr, i)]))
            st.define(z3.ForAll([i, j], z3.Implies(z3.And(0 <= i, i < n, 0 <= j, j < n, pi(i) == pi(j)), i == j),
                                patterns=[z3.MultiPattern(pi(i), pi(j))]))
            st.define(z3.ForAll([i, j], z3.Implies(z3.And(0 <= i, i < j, j < n), ki <= kj),
                                patterns=[z3.MultiPattern(z3.Select(arr, i), z3.Select(arr, j))]))
            # the permutation has an inverse: every element of the argument occurs in the result
            inv = z3.Function(fresh_name("sorted_inv"), IntS, IntS)
            xs_j = lst.get(j).t
            try:
                st.define(z3.ForAll([j], z3.Implies(z3.And(0 <= j, j < n), z3.And(
                    0 <= inv(j), inv(j) < n, pi(inv(j)) == j, z3.Select(arr, inv(j)) == xs_j)), patterns=[xs_j]))
            except z3.Z3Exception:
                st.define(z3.ForAll([j], z3.Implies(z3.And(0 <= j, j < n), z3.And(
                    0 <= inv(j), inv(j) < n, pi(inv(j)) == j, z3.Select(arr, inv(j)) == xs_j)), patterns=[inv(j)]))
            return res
        if name in ("all", "any"):
            lst = self.iter_list(args[0], st, node)
            j = z3.Int(fresh_name("q"))
            body = tobool(self.truth(lst.get(j), st))
            g = z3.And(0 <= j, j < lst.n)
            if name == "all":
                return VBool(z3.ForAll([j], z3.Implies(g, body)))
            return VBool(z3.Exists([j], z3.And(g, body)))
        if name == "dict":
            if not args and not kw:
                return VRec("dict", {})
            if len(args) == 1 and isinstance(args[0], VList) and getattr(args[0], "zip_of", None) is not None:
                keys, vals = args[0].zip_of
                if keys.conc is not None and all(isinstance(k, str) for k in keys.conc):
                    # zip truncates to the shorter list: we need the values to cover all keys
                    self.oblige(st, "safe.L%d.zip_covers_keys" % self.line(node), vals.n >= len(keys.conc), "safety")
                    return VRec("dict", {k: vals.get(i) for i, k in enumerate(keys.conc)})
            raise Unsupported("dict(...)")
        if name == "isinstance":
            raise Unsupported("isinstance")
        if name == "print":
            f = kw.get("file")
            if isinstance(f, VRec) and f.cls == "stream":
                # print(a, b, ..., sep=' ', end='\n', file=stream): str() of every argument, joined, appended
                sep = kw.get("sep", " ")
                end = kw.get("end", "\n")
                parts = []
                for k_, a_ in enumerate(args):
                    if k_:
                        parts.append(tostr(sep))
                    parts.append(tostr(self.to_str(a_, st, node)))
                parts.append(tostr(end))
                text = tostr(f.fields["text"])
                for p_ in parts:
                    text = z3.Concat(text, p_)
                fnode = [k_.value for k_ in node.keywords if k_.arg == "file"][0]
                self.assign(_store(fnode), VRec("stream", {"text": VStr(text)}), st)
            return VNone
        if name == "hasattr":
            raise Unsupported("hasattr (function attributes are global state)")
        raise Unsupported("builtin %s" % name)

    def call_method(self, obj, meth, args, kw, st, node):
        fnode = node.func
        if isinstance(obj, (VList, list, tuple)) and meth in ("append", "extend", "remove", "pop", "insert"):
            lst = self.iter_list(obj, st, node)
            if meth == "append":
                new = list_append(lst, lift(args[0]))
                self.assign(_store(fnode.value), new, st)
                return VNone
            if meth == "extend":
                new = list_concat(lst, self.iter_list(args[0], st, node))
                self.assign(_store(fnode.value), new, st)
                return VNone
            if meth == "remove":
                x = lift(args[0])
                # first index holding x
                r = z3.Int(fresh_name("rm"))
                j = z3.Int(fresh_name("j"))
                self.safety(st, node, self.contains(lst, x, st, node), "ValueError", "remove_absent")
                st.assume(z3.And(0 <= r, r < lst.n, tobool(veq(lst.get(r), x)),
                                 z3.ForAll([j], z3.Implies(z3.And(0 <= j, j < r), z3.Not(tobool(veq(lst.get(j), x)))))))
                new = VList(lst.n - 1, get=lambda i: vite(VBool(i < r), lst.get(i), lst.get(i + 1)), et=lst.et)
                st.env["$last_removed_index"] = VInt(r)
                self.assign(_store(fnode.value), new, st)
                return VNone
            if meth == "pop" and not args:
                self.safety(st, node, lst.n > 0, "IndexError", "pop_empty")
                last = lst.get(lst.n - 1)
                new = VList(lst.n - 1, get=lst.get, et=lst.et)
                self.assign(_store(fnode.value), new, st)
                return last
            raise Unsupported("list.%s" % meth)
        if isinstance(obj, (VList, list, tuple)) and meth == "index":
            lst = self.iter_list(obj, st, node)
            x = lift(args[0])
            self.safety(st, node, self.contains(lst, x, st, node), "ValueError", "index_absent")
            r = z3.Int(fresh_name("idx"))
            j = z3.Int(fresh_name("j"))
            st.assume(z3.And(0 <= r, r < lst.n, tobool(veq(lst.get(r), x)),
                             z3.ForAll([j], z3.Implies(z3.And(0 <= j, j < r), z3.Not(tobool(veq(lst.get(j), x)))))))
            return VInt(r)
        if isinstance(obj, VRec) and obj.cls == "stream" and meth == "write" and len(args) == 1:
            piece = args[0]
            if isinstance(piece, VOpt):
                self.safety(st, node, z3.Not(piece.isnone), "TypeError", "write_none")
                piece = piece.val
            new = VRec("stream", {"text": VStr(z3.Concat(tostr(obj.fields["text"]), tostr(piece)))})
            self.assign(_store(fnode.value), new, st)
            return VNone
        if isinstance(obj, VMap) and meth == "get" and len(args) == 2:
            return obj.get_default(args[0], args[1])
        if isinstance(obj, VMap) and meth == "update" and len(args) == 1 and obj.level() == obj.depth - 1 \
                and isinstance(args[0], (VList, list)) and not kw:
            # Counter.update([k]) on the innermost level of a table of counts
            lst = self.iter_list(args[0], st, node)
            if lst.conc is None or len(lst.conc) != 1:
                raise Unsupported("Counter.update with other than a one-element list")
            k = lst.conc[0]
            new = obj.store(k, VInt(toint(obj.get_default(k, 0)) + 1))
            self.assign(_store(fnode.value), new, st)
            return VNone
        if isinstance(obj, (VStr, str)):
            return self.str_method(obj, meth, args, st, node)
        if isinstance(obj, VRec) and obj.cls == "dict" and meth in ("keys", "values", "items"):
            raise Unsupported("dict iteration")
        if isinstance(obj, tuple) and obj and obj[0] == "ext":
            raise Unsupported("external call %r.%s" % (obj, meth))
        raise Unsupported("method %s on %r" % (meth, obj))

    def str_method(self, s, meth, args, st, node):
        if meth == "format" and isinstance(s, str) and "{" in s and \
                s.replace("{}", "").count("{") == 0 and s.replace("{}", "").count("}") == 0 and "%" not in s:
            # "a{}b{}".format(x, y) with plain positional fields: the same conversion as "%s"
            if s.count("{}") != len(args):
                self.safety(st, node, z3.BoolVal(False), "IndexError", "format_args")
                raise Unsupported("unreachable")
            return self.format_percent(s.replace("{}", "%s"), tuple(args), st, node)
        if not is_sym(s) and all(not is_sym(a) for a in args) and meth in (
                "startswith", "endswith", "find", "rfind", "lower", "upper", "strip", "isdigit", "split", "join"):
            return getattr(s, meth)(*args)
        t = tostr(s)
        if meth == "startswith":
            return VBool(z3.PrefixOf(tostr(args[0]), t))
        if meth == "endswith":
            return VBool(z3.SuffixOf(tostr(args[0]), t))
        if meth == "index" and len(args) == 1 and isinstance(args[0], str) and len(args[0]) == 1:
            # str.index(c) is str.find(c) with a ValueError when absent
            self.safety(st, node, z3.Contains(t, z3.StringVal(args[0])), "ValueError", "substring_present")
            return self.str_method(s, "find", args, st, node)
        if meth == "strip" and not args:
            self.trusted.add("str.strip(): uninterpreted py_strip(s); axioms: a substring of s, and it contains a "
                             "non-whitespace character exactly when s does")
            sv = STR_STRIP(t)
            c1 = z3.String(fresh_name("sc"))
            ws = [" ", "\t", "\n", "\r", "\x0b", "\x0c"]
            st.define(z3.Contains(t, sv))
            st.define(z3.ForAll([c1], z3.Implies(
                z3.And(z3.Length(c1) == 1, *[c1 != z3.StringVal(w) for w in ws]),
                z3.Contains(sv, c1) == z3.Contains(t, c1)), patterns=[z3.Contains(sv, c1)]))
            return VStr(sv)
        if meth in ("find", "rfind"):
            c = args[0]
            if len(args) != 1 or not isinstance(c, str) or len(c) != 1:
                raise Unsupported("str.%s with a needle that is not a 1-character constant" % meth)
            ct = z3.StringVal(c)
            r = z3.Int(fresh_name(meth))
            # the two sides of the split at the last (rfind) / first (find) occurrence are *functions* of
            # (string, needle): the split is unique, so contracts can name the same pieces
            pre_f, suf_f = (LAST_PRE(t, ct), LAST_SUF(t, ct)) if meth == "rfind" else (FIRST_PRE(t, ct), FIRST_SUF(t, ct))
            # named by fresh constants (small terms for the string solver), tied to the spec functions
            pre = z3.String(fresh_name("pre"))
            suf = z3.String(fresh_name("suf"))
            st.define(z3.And(pre == pre_f, suf == suf_f))
            clean = suf if meth == "rfind" else pre
            st.assume(z3.Or(
                z3.And(r == -1, z3.Not(z3.Contains(t, ct))),
                z3.And(r >= 0, t == z3.Concat(pre, ct, suf), z3.Length(pre) == r,
                       z3.Not(z3.Contains(clean, ct)))))
            reg = list(st.env.get("$splits") or [])
            reg.append((t, r, pre, suf))
            st.env["$splits"] = reg
            return VInt(r)
        if meth == "split" and len(args) == 0:
            self.trusted.add("str.split(): uninterpreted list py_wsplit(s); axioms: every piece is non-empty")
            lst = spec_wsplit(VStr(t))
            j = z3.Int(fresh_name("ws"))
            st.assume(lst.n >= 0)
            st.assume(z3.ForAll([j], z3.Implies(z3.And(0 <= j, j < lst.n), z3.Length(lst.get(j).t) > 0),
                                patterns=[lst.get(j).t]))
            return lst
        if meth == "split" and len(args) == 1 and isinstance(args[0], str) and len(args[0]) == 1:
            self.trusted.add("str.split(c): uninterpreted list py_split(s, c); axioms: at least one piece, no piece contains c")
            lst = spec_split(VStr(t), args[0])
            j = z3.Int(fresh_name("sp"))
            st.assume(lst.n >= 1)
            st.assume((lst.n >= 2) == z3.Contains(t, z3.StringVal(args[0])))       # one more piece than separators
            st.assume(z3.ForAll([j], z3.Implies(z3.And(0 <= j, j < lst.n),
                                                z3.Not(z3.Contains(lst.get(j).t, z3.StringVal(args[0])))),
                                patterns=[lst.get(j).t]))
            return lst
        if meth == "isdigit":
            self.trusted.add("str.isdigit: uninterpreted predicate, axiom isdigit(s) -> len(s) > 0")
            st.define(z3.Implies(IS_DIGIT(t), z3.Length(t) > 0))
            return VBool(IS_DIGIT(t))
        if meth == "lower":
            self.trusted.add("str.lower: uninterpreted function")
            return VStr(STR_LOWER(t))
        raise Unsupported("str.%s" % meth)


# ----------------------------------------------------------------------------
# helpers
# ----------------------------------------------------------------------------

IS_DIGIT = z3.Function("py_isdigit", sym.StrS, sym.BoolS)
IS_INT_LIT = z3.Function("py_is_int_literal", sym.StrS, sym.BoolS)
STR_TO_INT = z3.Function("py_str_to_int", sym.StrS, IntS)
STR_LOWER = z3.Function("py_lower", sym.StrS, sym.StrS)
STR_STRIP = z3.Function("py_strip", sym.StrS, sym.StrS)
INT_TO_STR = z3.Function("py_int_to_str", IntS, sym.StrS)


LAST_PRE = z3.Function("py_last_pre", sym.StrS, sym.StrS, sym.StrS)
LAST_SUF = z3.Function("py_last_suf", sym.StrS, sym.StrS, sym.StrS)
FIRST_PRE = z3.Function("py_first_pre", sym.StrS, sym.StrS, sym.StrS)
FIRST_SUF = z3.Function("py_first_suf", sym.StrS, sym.StrS, sym.StrS)
PIECE_P = z3.Function("py_piece_p", sym.StrS, IntS, IntS, sym.StrS)
PIECE_M = z3.Function("py_piece_m", sym.StrS, IntS, IntS, sym.StrS)
PIECE_Q = z3.Function("py_piece_q", sym.StrS, IntS, IntS, sym.StrS)


def piece_axioms(t, l, ln):
    """t[l:l+ln] == PIECE_M(t,l,ln) with t == P . M . Q, |P| == l, |M| == ln (when in range)"""
    p, m, q = PIECE_P(t, l, ln), PIECE_M(t, l, ln), PIECE_Q(t, l, ln)
    n = z3.Length(t)
    inr = z3.And(l >= 0, ln >= 0, l + ln <= n)
    return m, [z3.Implies(inr, z3.And(t == z3.Concat(p, m, q), z3.Length(p) == l, z3.Length(m) == ln)),
               z3.Implies(z3.Not(inr), m == z3.SubString(t, l, ln))]


def last_split_axioms(t, c):
    """what rfind(c) (one-character c) says about t, in terms of the spec functions"""
    pre, suf = LAST_PRE(t, c), LAST_SUF(t, c)
    return z3.Implies(z3.Contains(t, c),
                      z3.And(t == z3.Concat(pre, c, suf), z3.Not(z3.Contains(suf, c))))


SPLIT_LEN = z3.Function("py_split_len", sym.StrS, sym.StrS, IntS)
SPLIT_EL = z3.Function("py_split_el", sym.StrS, sym.StrS, IntS, sym.StrS)


WSPLIT_LEN = z3.Function("py_wsplit_len", sym.StrS, IntS)
WSPLIT_EL = z3.Function("py_wsplit_el", sym.StrS, IntS, sym.StrS)


def spec_wsplit(s):
    """the list s.split() (split at runs of whitespace) as a spec-level value"""
    st_ = tostr(s)
    return VList(WSPLIT_LEN(st_), get=lambda i: VStr(WSPLIT_EL(st_, i)), et=STR)


def spec_split(s, sep):
    """the list s.split(sep) as a spec-level value (same term for the same s)"""
    st_, sp = tostr(s), z3.StringVal(sep)
    return VList(SPLIT_LEN(st_, sp), get=lambda i: VStr(SPLIT_EL(st_, sp, i)), et=STR)


_REP = None


def str_repeat_fn():
    """s * k for strings (recursive definition; k <= 0 gives '')"""
    global _REP
    if _REP is None:
        f = z3.RecFunction("py_str_repeat", sym.StrS, IntS, sym.StrS)
        s_, k_ = z3.String("rep_s"), z3.Int("rep_k")
        z3.RecAddDefinition(f, [s_, k_], z3.If(k_ <= 0, z3.StringVal(""), z3.Concat(s_, f(s_, k_ - 1))))
        _REP = f
    return _REP


def int_to_str(t):
    return INT_TO_STR(t)


_SSUM = None


def ssum_fn():
    global _SSUM
    if _SSUM is None:
        f = z3.RecFunction("ssum", sym.IntArr, IntS, IntS)
        a = z3.Const("ssum_a", sym.IntArr)
        k = z3.Int("ssum_k")
        z3.RecAddDefinition(f, [a, k], z3.If(k <= 0, 0, f(a, k - 1) + z3.Select(a, k - 1)))
        _SSUM = f
    return _SSUM


def list_array(lst):
    if lst.arr is not None:
        return lst.arr
    j = z3.Int(fresh_name("j"))
    return z3.Lambda([j], toint(lst.get(j)))


def ssum_of(lst, ex=None):
    return ssum_fn()(list_array(lst), lst.n)


def SSUM_LEMMAS():
    """background lemmas about ssum (DESIGN 3.9; Lean: Background.lean)"""
    f = ssum_fn()
    a = z3.Const("la", sym.IntArr)
    i, v, k = z3.Ints("li lv lk")
    return [
        z3.ForAll([a, i, v, k], z3.Implies(z3.And(0 <= i, i < k),
                                           f(z3.Store(a, i, v), k) == f(a, k) - z3.Select(a, i) + v),
                  patterns=[f(z3.Store(a, i, v), k)]),
        z3.ForAll([a, i, v, k], z3.Implies(i >= k, f(z3.Store(a, i, v), k) == f(a, k)),
                  patterns=[f(z3.Store(a, i, v), k)]),
    ]


def list_append(lst, v):
    if lst.conc is not None:
        return VList.from_py(lst.conc + [v])
    if lst.arr is not None and isinstance(v, (VInt, VRef, VBool, VStr)) and lst.wrap is type(v):
        return VList(lst.n + 1, arr=z3.Store(lst.arr, lst.n, v.t), wrap=lst.wrap, et=lst.et)
    n = lst.n
    return VList(n + 1, get=lambda i: vite(VBool(i == n), v, lst.get(i)), et=lst.et)


def list_store(lst, i, v):
    if lst.arr is not None and isinstance(v, (VInt, VRef, VBool, VStr)) and lst.wrap is type(v):
        return VList(lst.n, arr=z3.Store(lst.arr, i, v.t), wrap=lst.wrap, et=lst.et)
    if lst.conc is not None and z3.is_int_value(z3.simplify(i)):
        items = list(lst.conc)
        items[z3.simplify(i).as_long()] = v
        return VList.from_py(items)
    return VList(lst.n, get=lambda j: vite(VBool(j == i), v, lst.get(j)), et=lst.et)


def list_concat(a, b):
    if a.conc is not None and b.conc is not None:
        return VList.from_py(a.conc + b.conc)
    n = a.n
    return VList(a.n + b.n, get=lambda i: vite(VBool(i < n), a.get(i), b.get(i - n)), et=a.et or b.et)


def _arg_terms(ordered):
    ts = []
    for a in ordered:
        a = lift(a) if not isinstance(a, V) else a
        if isinstance(a, (VInt, VStr, VBool, VRef)):
            ts.append(a.t)
        elif isinstance(a, VRec) and a.cls == "params":
            for k in sorted(a.fields["has"]):
                ts.append(a.fields["has"][k] if z3.is_expr(a.fields["has"][k]) else z3.BoolVal(bool(a.fields["has"][k])))
                v = a.fields["val"][k]
                v = lift(v) if not isinstance(v, V) else v
                if isinstance(v, (VInt, VStr, VBool)):
                    ts.append(v.t)
                else:
                    raise Unsupported("result_name: option value of unsupported type")
        else:
            raise Unsupported("result_name: argument of unsupported type %r" % (a,))
    return ts


def named_result(c, ordered, heap=None):
    """the result of a pure deterministic function, named by uninterpreted functions of its arguments (and, for
    functions that read the tree, of the shape arrays of the heap)"""
    ts = _arg_terms(ordered)
    if heap is not None:
        ts = list(heap._shape_args()) + ts
    sorts = [t.sort() for t in ts]

    def mk(ty, name):
        if isinstance(ty, (TInt, TStr, TBool)):
            f = z3.Function("%s_%s" % (c.result_name, name), *(sorts + [sym.sort_of(ty)]))
            return sym.wrap_of(ty)(f(*ts))
        if isinstance(ty, TRec):
            return VRec("Label" if c.result_name == "py_parse_label" else "rec",
                        {k: mk(t, name + "_" + k) for k, t in ty.fields.items()})
        if isinstance(ty, TRef):
            f = z3.Function("%s_%s" % (c.result_name, name), *(sorts + [IntS]))
            return VRef(f(*ts))
        if isinstance(ty, TList) and isinstance(ty.elem, (TInt, TRef, TStr, TBool)):
            flen = z3.Function("%s_%s_len" % (c.result_name, name), *(sorts + [IntS]))
            fel = z3.Function("%s_%s_el" % (c.result_name, name), *(sorts + [IntS, sym.sort_of(ty.elem)]))
            w = sym.wrap_of(ty.elem)
            return VList(flen(*ts), get=lambda i: w(fel(*(ts + [i]))), et=ty.elem)
        raise Unsupported("result_name for type %r" % (ty,))
    return mk(c.result_type, "r")


def slice_bounds(n, lo, hi):
    """CPython's normalisation of a slice [lo:hi] (step 1) over a sequence of length n:
    returns (start, stop, length) as simplified terms"""
    def clamp(x, default):
        if x is None:
            return default
        x = toint(x)
        x = z3.If(x < 0, x + n, x)
        return z3.If(x < 0, 0, z3.If(x > n, n, x))
    l = z3.simplify(clamp(lo, z3.IntVal(0)))
    h = z3.simplify(clamp(hi, n))
    ln = z3.simplify(z3.If(h > l, h - l, 0))
    return l, h, ln


def str_slice(t, lo, hi):
    """the spec-level name of t[lo:hi] on strings: the piece function the executor ties its slices to
    (py_piece_m(t, start, length) with CPython's normalisation of lo/hi)"""
    l, h, ln = slice_bounds(z3.Length(t), lo, hi)
    return PIECE_M(t, z3.simplify(l), z3.simplify(ln))


def _no_elem(i):
    return sym.VBottom


def type_of(v):
    if isinstance(v, bool) or isinstance(v, VBool):
        return BOOL
    if isinstance(v, (int, VInt)):
        return INT
    if isinstance(v, (str, VStr)):
        return STR
    if isinstance(v, VRef):
        return REF
    if v is VNone or v is None:
        return None
    if isinstance(v, VOpt):
        inner = type_of(v.val) if v.val is not None else None
        return TOpt(inner) if inner is not None else None
    if isinstance(v, VTuple):
        its = [type_of(x) for x in v.items]
        return TTuple(*its) if all(t is not None for t in its) else None
    if isinstance(v, VSMap):
        return sym.TSMap(v.vt)
    if isinstance(v, VList):
        if v.et is not None:
            return TList(v.et)
        if v.arr is not None:
            return TList({VInt: INT, VRef: REF, VBool: BOOL, VStr: STR}[v.wrap])
        if v.conc:
            ts = [type_of(x) for x in v.conc]
            if ts[0] is not None and all(repr(t) == repr(ts[0]) for t in ts):
                return TList(ts[0])
        return None
    return None


def _loops_in_order(fnode):
    out = []

    def rec(n):
        for ch in ast.iter_child_nodes(n):
            if isinstance(ch, (ast.FunctionDef, ast.Lambda)) and ch is not fnode:
                continue
            if isinstance(ch, (ast.For, ast.While)):
                out.append(ch)
            rec(ch)
    rec(fnode)
    return out


def _assigned_names(stmts):
    names = set()
    for s in stmts:
        for n in ast.walk(s):
            if isinstance(n, ast.Name) and isinstance(n.ctx, (ast.Store, ast.Del)):
                names.add(n.id)
            elif isinstance(n, ast.AugAssign):
                for m in ast.walk(n.target):
                    if isinstance(m, ast.Name):
                        names.add(m.id)
            elif isinstance(n, (ast.Assign,)):
                for t in n.targets:
                    b = t
                    through_node = False         # x[i].data[k] = v writes a heap field of the node x[i], not x
                    while isinstance(b, (ast.Subscript, ast.Attribute)):
                        if isinstance(b, ast.Attribute) and b.attr in ("data", "parent", "children"):
                            through_node = True
                        b = b.value
                    if isinstance(b, ast.Name) and isinstance(t, ast.Subscript) and not through_node:
                        names.add(b.id)
            elif isinstance(n, ast.Call) and isinstance(n.func, ast.Attribute) and \
                    n.func.attr in ("append", "extend", "remove", "pop", "insert", "update", "clear", "sort"):
                b = n.func.value
                while isinstance(b, (ast.Subscript, ast.Attribute)):
                    if isinstance(b, ast.Attribute) and b.attr in ("children", "data"):
                        b = None
                        break
                    b = b.value
                if isinstance(b, ast.Name):
                    names.add(b.id)
    return names


def _heap_fields_written(stmts, ex):
    fields = set()
    for s in stmts:
        for n in ast.walk(s):
            tgts = []
            if isinstance(n, ast.Assign):
                tgts = n.targets
            elif isinstance(n, ast.AugAssign):
                tgts = [n.target]
            for t in tgts:
                if isinstance(t, ast.Subscript) and isinstance(t.value, ast.Attribute) and t.value.attr == "data":
                    key = t.slice.value if isinstance(t.slice, ast.Constant) else None
                    if key is None and isinstance(t.slice, ast.Name):
                        # a local that names a key: assigned exactly once in the function, to a string constant
                        defs = [a for a in ast.walk(ex.fn.node) if isinstance(a, (ast.Assign, ast.AugAssign, ast.For))
                                and any(isinstance(x, ast.Name) and x.id == t.slice.id and isinstance(x.ctx, ast.Store)
                                        for tg in (a.targets if isinstance(a, ast.Assign) else [a.target])
                                        for x in ast.walk(tg))]
                        if len(defs) == 1 and isinstance(defs[0], ast.Assign) and isinstance(defs[0].value, ast.Constant) \
                                and isinstance(defs[0].value.value, str):
                            key = defs[0].value.value
                    if key is None:
                        raise Unsupported("data[<non-constant>] written in a loop")
                    fields.add("has_" + key)
                    fields.add("val_" + key)
                    if DATA_KEYS.get(key) == "ostr":
                        fields.add("none_" + key)
                if isinstance(t, ast.Attribute) and t.attr == "parent":
                    fields.add("parent")
                if isinstance(t, ast.Attribute) and t.attr == "children":
                    fields.update(["child", "nchild"])
            if isinstance(n, ast.Call) and isinstance(n.func, ast.Attribute):
                if n.func.attr in ("append", "extend", "remove", "pop", "insert") and \
                        isinstance(n.func.value, ast.Attribute) and n.func.value.attr == "children":
                    fields.update(["child", "nchild"])
            if isinstance(n, ast.Call):
                # callee modifies
                q = _static_callee(n, ex)
                if q is not None:
                    c = ex.reg.get(q)
                    if c is not None:
                        fields.update(c.modifies)
    return fields


def _static_callee(call, ex):
    f = call.func
    if isinstance(f, ast.Attribute) and isinstance(f.value, ast.Name):
        al = ex.repo.aliases[ex.fn.module].get(f.value.id)
        if al and al[0] == "module":
            return "trees.%s.%s" % (al[1], f.attr)
    if isinstance(f, ast.Name):
        q = "trees.%s.%s" % (ex.fn.module, f.id)
        if q in ex.repo.fns:
            return q
    return None


def _names_in(e):
    return {n.id for n in ast.walk(e) if isinstance(n, ast.Name)}


def _target_names(t):
    return {n.id for n in ast.walk(t) if isinstance(n, ast.Name)}


def _snapshot(st):
    class Snap(object):
        pass
    s = Snap()
    s.env = dict(st.env)
    s.H = st.heap.copy() if st.heap is not None else None
    s.yielded = st.yielded
    for k, v in st.env.items():
        if not k.startswith("$"):
            setattr(s, k, v)
    return s


def _load(node):
    n = _copy_ctx(node, ast.Load())
    return n


def _store(node):
    return _copy_ctx(node, ast.Store())


def _copy_ctx(node, ctx):
    import copy
    n = copy.copy(node)
    if hasattr(n, "ctx"):
        n.ctx = ctx
    return n


def _is_print(call):
    if not isinstance(call, ast.Call):
        return False
    f = call.func
    if isinstance(f, ast.Name) and f.id == "print":
        # print(..., file=<something other than sys.stderr / sys.stdout>) writes to a stream of the program: not dropped
        for k in call.keywords:
            if k.arg == "file" and not (isinstance(k.value, ast.Attribute) and k.value.attr in ("stderr", "stdout")):
                return False
        return True
    if isinstance(f, ast.Attribute) and f.attr == "write" and isinstance(f.value, ast.Attribute) \
            and f.value.attr in ("stderr", "stdout"):
        return True
    return False


def _exc_name(e):
    if e is None:
        return "reraise"
    if isinstance(e, ast.Call):
        e = e.func
    if isinstance(e, ast.Name):
        return e.id
    if isinstance(e, ast.Attribute):
        return e.attr
    return "Exception"


def _eq_terms(a, b):
    return z3.eq(z3.simplify(a), z3.simplify(b))


def _clampi(x, n):
    x = z3.If(x < 0, x + n, x)
    return z3.If(x < 0, 0, z3.If(x > n, n, x))


_BUILTINS = {"len", "range", "enumerate", "zip", "reversed", "list", "tuple", "str", "int", "sum", "max", "min",
             "sorted", "all", "any", "dict", "isinstance", "print", "hasattr"}

_PYOPS = {ast.Add: lambda a, b: a + b, ast.Sub: lambda a, b: a - b, ast.Mult: lambda a, b: a * b,
          ast.FloorDiv: lambda a, b: a // b, ast.Mod: lambda a, b: a % b}
