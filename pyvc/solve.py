"""Back-end portfolio: z3 API -> z3-new CLI -> cvc5 CLI (DESIGN 3.5)."""
import os
import shutil
import subprocess
import tempfile
import time
import z3

from . import core

BUDGET = {"quick": dict(api_ms=3000, cli_s=6), "thorough": dict(api_ms=30000, cli_s=60)}


def _mentions(term, name):
    seen = set()
    stack = [term]
    while stack:
        t = stack.pop()
        if t.get_id() in seen:
            continue
        seen.add(t.get_id())
        if z3.is_app(t):
            if t.decl().name() == name:
                return True
            stack.extend(t.children())
        elif z3.is_quantifier(t):
            stack.append(t.body())
    return False


def _uses_strings(term):
    seen = set()
    stack = [term]
    while stack:
        t = stack.pop()
        if t.get_id() in seen:
            continue
        seen.add(t.get_id())
        if z3.is_quantifier(t):
            stack.append(t.body())
            continue
        if t.sort().kind() == z3.Z3_SEQ_SORT:
            return True
        if z3.is_app(t):
            stack.extend(t.children())
    return False


def check_vc(pc, goal, tier="quick", want_model=True, extra=()):
    """returns dict(status=unsat|sat|unknown, backend, time, model).
    Portfolio: integer/array/heap VCs go to the z3 API first; VCs over strings go to cvc5 first
    (z3's sequence solver times out on word equations that cvc5 --strings-exp decides in ms)."""
    b = BUDGET.get(tier, BUDGET["quick"])
    t0 = time.time()
    s = z3.Solver()
    s.set("timeout", b["api_ms"])
    s.set("random_seed", 7)
    for t in pc:
        s.add(t)
    s.add(z3.Not(goal))
    allt = z3.And(*(list(pc) + [goal])) if pc else goal
    if _mentions(allt, "ssum"):
        for l in core.SSUM_LEMMAS():
            s.add(l)
    for t in extra:
        s.add(t)
    strings = _uses_strings(allt)
    text = None
    if strings:
        try:
            text = "(set-logic ALL)\n" + s.to_smt2()
            res = _cli(text, b["cli_s"], only=("cvc5-cli",))
            if res["status"] == "unsat":
                res["time"] = time.time() - t0
                return res
        except Exception:
            pass
    r = s.check()
    dt = time.time() - t0
    if r == z3.unsat:
        return {"status": "unsat", "backend": "z3-api-%s" % z3.get_version_string(), "time": dt}
    if r == z3.sat:
        return {"status": "sat", "backend": "z3-api-%s" % z3.get_version_string(), "time": dt,
                "model": s.model() if want_model else None}
    # unknown: try the CLIs on the SMT-LIB text
    try:
        text = text or ("(set-logic ALL)\n" + s.to_smt2())
    except Exception:
        return {"status": "unknown", "backend": "z3-api", "time": dt, "reason": s.reason_unknown()}
    res = _cli(text, b["cli_s"], skip=("cvc5-cli",) if strings else ())
    res["time"] = time.time() - t0
    if res["status"] == "unknown":
        res["reason"] = s.reason_unknown()
    return res


def _cli(text, timeout_s, only=None, skip=()):
    d = tempfile.mkdtemp(prefix="pyvc_smt_")
    try:
        path = os.path.join(d, "q.smt2")
        with open(path, "w") as fh:
            fh.write(text)
        cands = []
        if shutil.which("z3-new"):
            cands.append(("z3-new-cli", ["z3-new", "-smt2", "-T:%d" % timeout_s, path]))
        if shutil.which("cvc5"):
            cands.append(("cvc5-cli", ["cvc5", "--strings-exp", "--tlimit=%d" % (timeout_s * 1000), path]))
        if os.path.exists("/usr/bin/z3"):
            cands.append(("z3-4.8-cli", ["/usr/bin/z3", "-smt2", "-T:%d" % timeout_s, path]))
        for name, cmd in cands:
            if (only is not None and name not in only) or name in skip:
                continue
            try:
                p = subprocess.run(cmd, capture_output=True, text=True, timeout=timeout_s + 10)
            except subprocess.TimeoutExpired:
                continue
            out = p.stdout.strip().splitlines()
            first = out[0].strip() if out else ""
            if first == "unsat":
                return {"status": "unsat", "backend": name}
            if first == "sat":
                return {"status": "sat", "backend": name, "model": None, "model_text": p.stdout[:4000]}
        return {"status": "unknown", "backend": "portfolio"}
    finally:
        shutil.rmtree(d, ignore_errors=True)


def is_sat(pc, timeout_ms=3000):
    s = z3.Solver()
    s.set("timeout", timeout_ms)
    s.add(*pc)
    return str(s.check())
