"""Back-end portfolio: z3 API -> z3-new CLI -> cvc5 CLI (DESIGN 3.5)."""
import os
import shutil
import subprocess
import tempfile
import time
import z3

from . import core

BUDGET = {"quick": dict(api_ms=3000, cli_s=10), "thorough": dict(api_ms=30000, cli_s=60)}


import threading


def safe_check(solver, timeout_ms):
    """solver.check() under the solver's own time-out *and* a watchdog that interrupts the context when the
    time-out is ignored (z3's sequence solver sometimes does not honour it)"""
    solver.set("timeout", int(timeout_ms))
    ctx = solver.ctx
    timer = threading.Timer(timeout_ms / 1000.0 * 2 + 0.5, ctx.interrupt)
    timer.daemon = True
    timer.start()
    try:
        return solver.check()
    except z3.Z3Exception:
        return z3.unknown
    finally:
        timer.cancel()


def forked_check(solver, timeout_ms, want_model=False):
    """solver.check() in a forked child that is killed at the deadline: z3's sequence solver sometimes honours neither
    its time-out nor Z3_interrupt (and grows to gigabytes), which a watchdog thread cannot stop.
    returns (z3.unsat | z3.sat | z3.unknown, model text or None)"""
    import select
    import signal
    rfd, wfd = os.pipe()
    pid = os.fork()
    if pid == 0:
        try:
            os.close(rfd)
            solver.set("timeout", int(timeout_ms))
            res = solver.check()
            out = str(res)
            if res == z3.sat and want_model:
                out += "\n" + solver.model().sexpr()[:20000]
            os.write(wfd, out.encode("utf-8", "replace"))
        except BaseException:
            try:
                os.write(wfd, b"unknown")
            except BaseException:
                pass
        finally:
            os._exit(0)
    os.close(wfd)
    deadline = time.time() + timeout_ms / 1000.0 * 1.5 + 0.5
    buf = b""
    try:
        while True:
            left = deadline - time.time()
            if left <= 0:
                break
            ready, _, _ = select.select([rfd], [], [], left)
            if not ready:
                break
            chunk = os.read(rfd, 65536)
            if not chunk:
                break
            buf += chunk
    finally:
        os.close(rfd)
        try:
            os.kill(pid, signal.SIGKILL)
        except OSError:
            pass
        try:
            os.waitpid(pid, 0)
        except OSError:
            pass
    text = buf.decode("utf-8", "replace")
    first, _, rest = text.partition("\n")
    if first == "unsat":
        return z3.unsat, None
    if first == "sat":
        return z3.sat, rest
    return z3.unknown, None


def _mentions(term, name):
    seen = set()
    stack = [term]
    while stack:
        t = stack.pop()
        if t.get_id() in seen:
            continue
        seen.add(t.get_id())
        if z3.is_app(t):
            if t.decl().name() == name:
                return True
            stack.extend(t.children())
        elif z3.is_quantifier(t):
            stack.append(t.body())
    return False


def _uses_strings(term):
    seen = set()
    stack = [term]
    while stack:
        t = stack.pop()
        if t.get_id() in seen:
            continue
        seen.add(t.get_id())
        if z3.is_quantifier(t):
            stack.append(t.body())
            continue
        if t.sort().kind() == z3.Z3_SEQ_SORT:
            return True
        if z3.is_app(t):
            stack.extend(t.children())
    return False


def _consts(term, cache):
    k = term.get_id()
    if k in cache:
        return cache[k]
    out = set()
    seen = set()
    stack = [term]
    while stack:
        t = stack.pop()
        if t.get_id() in seen:
            continue
        seen.add(t.get_id())
        if z3.is_quantifier(t):
            stack.append(t.body())
        elif z3.is_app(t):
            d = t.decl()
            if d.kind() == z3.Z3_OP_UNINTERPRETED and t.num_args() == 0:
                out.add(d.name())
            stack.extend(t.children())
    cache[k] = out
    return out


def hop_pc(pc, goal, hops):
    """hypotheses within `hops` steps of the goal in the shares-a-constant graph (a subset: sound)"""
    cache = {}
    rel = set(_consts(goal, cache))
    sets = [_consts(t, cache) for t in pc]
    keep = [False] * len(pc)
    for _ in range(hops):
        new = set()
        for i, cs in enumerate(sets):
            if not keep[i] and (cs & rel or not cs):
                keep[i] = True
                new |= cs
        rel |= new
    return [t for t, k in zip(pc, keep) if k]


def slice_pc(pc, goal):
    """cone of influence: keep the hypotheses that (transitively) share an uninterpreted constant with the
    goal.  Dropping hypotheses is sound (a VC proved from fewer hypotheses is valid)."""
    cache = {}
    rel = set(_consts(goal, cache))
    sets = [_consts(t, cache) for t in pc]
    keep = [False] * len(pc)
    changed = True
    while changed:
        changed = False
        for i, cs in enumerate(sets):
            if not keep[i] and (cs & rel or not cs):
                keep[i] = True
                if not cs <= rel:
                    rel |= cs
                    changed = True
    return [t for t, k in zip(pc, keep) if k]


def check_vc(pc, goal, tier="quick", want_model=True, extra=(), hints=None, local=None):
    """1. the whole goal from its cone of influence, with a short budget; 2. if undecided, conjunct by
    conjunct with the full budget; 3. a conjunct that stays undecided is retried from the full path
    condition when the cone was smaller.  A `sat` answer for a sliced VC is confirmed on the full one."""
    t0 = time.time()
    hints = dict(hints or {})
    sp = slice_pc(pc, goal)
    smaller = len(sp) < len(pc)
    parts = core.split_goal(goal)
    short = dict(hints)
    # 0. the whole (sliced) VC through the z3 API for a moment: many VCs are immediate for z3
    r = _check_vc(sp, goal, tier, want_model, extra, {"api_only_ms": 300, "no_background": hints.get("no_background")})
    if r["status"] == "unsat":
        r["time"] = time.time() - t0
        return r
    # 0b. string VCs: the whole (sliced) VC through cvc5 and z3-new side by side for a CPU second
    allt = z3.And(*(list(sp) + [goal])) if sp else goal
    if _uses_strings(allt):
        try:
            s0 = z3.Solver()
            for t in sp:
                s0.add(t)
            s0.add(z3.Not(goal))
            for t in extra:
                s0.add(t)
            r = _cli_parallel("(set-logic ALL)\n" + s0.to_smt2(), 1)
            if r["status"] == "unsat":
                r["time"] = time.time() - t0
                return r
        except Exception:
            pass
    if local is not None and len(local) < len(pc):
        quick_h = dict(hints)
        quick_h["cli_s"] = min(hints.get("cli_s", 6), 5)
        quick_h["api_ms"] = 2000
        r = _check_vc(local, goal, tier, False, extra, quick_h)
        if r["status"] == "unsat":
            r["time"] = time.time() - t0
            r["backend"] = "%s(loop-local)" % r.get("backend")
            return r
    # goal-directed: first only the hypotheses that talk about the goal's own symbols (1 hop, then 2 hops)
    for hops in (1, 2):
        hp = hop_pc(pc, goal, hops)
        if len(hp) < len(sp):
            quick_h = dict(hints)
            quick_h["cli_s"] = min(hints.get("cli_s", 6), 4)
            quick_h["api_ms"] = 1500
            r = _check_vc(hp, goal, tier, False, extra, quick_h)
            if r["status"] == "unsat":
                r["time"] = time.time() - t0
                r["backend"] = "%s(hop%d)" % (r.get("backend"), hops)
                return r
    r = _check_vc(sp, goal, tier, want_model, extra, short)
    if r["status"] == "sat" and smaller:
        r = _check_vc(pc, goal, tier, want_model, extra, short)
    if r["status"] in ("unsat", "sat") or len(parts) <= 1:
        if r["status"] == "unknown" and smaller and len(parts) <= 1:
            r = _check_vc(pc, goal, tier, want_model, extra, hints)
        r["time"] = time.time() - t0
        return r
    worst = None
    for g in parts:
        spg = slice_pc(pc, g)
        rp = _check_vc(spg, g, tier, want_model, extra, hints)
        if rp["status"] != "unsat" and len(spg) < len(pc):
            rp = _check_vc(pc, g, tier, want_model, extra, hints)
        if rp["status"] == "sat":
            rp["time"] = time.time() - t0
            return rp
        if rp["status"] != "unsat":
            worst = rp
            break
    res = worst or {"status": "unsat", "backend": "conjunct-wise"}
    res["time"] = time.time() - t0
    return res


def _check_vc(pc, goal, tier="quick", want_model=True, extra=(), hints=None):
    """returns dict(status=unsat|sat|unknown, backend, time, model).
    Portfolio: integer/array/heap VCs go to the z3 API first; VCs over strings go to cvc5 first
    (z3's sequence solver times out on word equations that cvc5 --strings-exp decides in ms)."""
    b = dict(BUDGET.get(tier, BUDGET["quick"]))
    hints = hints or {}
    if "cli_s" in hints:
        b["cli_s"] = hints["cli_s"] * (1 if tier == "quick" else 4)
    if "api_ms" in hints:
        b["api_ms"] = hints["api_ms"]
    t0 = time.time()
    s = z3.Solver()
    s.set("timeout", b["api_ms"])
    s.set("random_seed", 7)
    for t in pc:
        s.add(t)
    s.add(z3.Not(goal))
    allt = z3.And(*(list(pc) + [goal])) if pc else goal
    if _mentions(allt, "ssum") and not hints.get("no_background"):
        for l in core.SSUM_LEMMAS():
            s.add(l)
    for t in extra:
        s.add(t)
    strings = _uses_strings(allt)
    text = None
    if hints.get("api_only_ms"):
        r0 = forked_check(s, hints["api_only_ms"])[0] if strings else safe_check(s, hints["api_only_ms"])
        st_ = "unsat" if r0 == z3.unsat else "unknown"      # a quick `sat` is re-examined later
        return {"status": st_, "backend": "z3-api-%s" % z3.get_version_string(), "time": time.time() - t0}
    if strings:
        # 0. the z3 API for a moment (mixed integer/string VCs are often immediate for z3)
        r0 = forked_check(s, 250)[0]
        if r0 == z3.unsat:
            return {"status": "unsat", "backend": "z3-api-%s" % z3.get_version_string(), "time": time.time() - t0}
        # 1. cvc5 briefly (it decides most word-equation VCs in milliseconds)
        try:
            text = "(set-logic ALL)\n" + s.to_smt2()
            if hints.get("only") == "cvc5":
                res = _cli(text, min(b["cli_s"], 3), only=("cvc5-cli",))
            else:
                res = _cli_parallel(text, min(b["cli_s"], 3))
            if res["status"] == "unsat" or (hints.get("only") == "cvc5" and b["cli_s"] <= 3):
                res["time"] = time.time() - t0
                return res
        except Exception:
            text = None
    # 2. the z3 API (under the watchdog)
    if strings:
        r, mtext = forked_check(s, b["api_ms"], want_model=want_model)
        if r == z3.sat:
            return {"status": "sat", "backend": "z3-api-%s" % z3.get_version_string(), "time": time.time() - t0,
                    "model": None, "model_text": mtext}
    else:
        r = safe_check(s, b["api_ms"])
    dt = time.time() - t0
    if r == z3.unsat:
        return {"status": "unsat", "backend": "z3-api-%s" % z3.get_version_string(), "time": dt}
    if r == z3.sat:
        return {"status": "sat", "backend": "z3-api-%s" % z3.get_version_string(), "time": dt,
                "model": s.model() if want_model else None}
    # 3. the CLIs on the SMT-LIB text (cvc5 again with the full budget when it only had the short one)
    try:
        text = text or ("(set-logic ALL)\n" + s.to_smt2())
    except Exception:
        return {"status": "unknown", "backend": "z3-api", "time": dt, "reason": s.reason_unknown()}
    if strings:
        res = _cli_parallel(text, b["cli_s"], names=("cvc5-cli", "z3-new-cli", "z3-4.8-cli"), want_model=True)
    else:
        res = _cli(text, b["cli_s"], want_model=False)
    res["time"] = time.time() - t0
    if res["status"] == "unknown":
        res["reason"] = s.reason_unknown()
    return res


def _cpu_limit(seconds):
    def fn():
        import resource
        resource.setrlimit(resource.RLIMIT_CPU, (int(seconds) + 1, int(seconds) + 2))
    return fn


def _cli_parallel(text, cpu_s, names=("cvc5-cli", "z3-new-cli"), want_model=False):
    """the CLI back ends side by side on the same SMT-LIB text; the first definite answer wins.  Budgets are CPU
    seconds per solver (RLIMIT_CPU) with a generous wall-clock cap, so that a verdict does not depend on how busy the
    machine is."""
    d = tempfile.mkdtemp(prefix="pyvc_smt_")
    procs = []
    try:
        path = os.path.join(d, "q.smt2")
        with open(path, "w") as fh:
            fh.write(text)
        wall = cpu_s * 6 + 10
        cmds = {"z3-new-cli": ["z3-new", "-smt2", "-T:%d" % wall, path],
                "cvc5-cli": ["cvc5", "--strings-exp", "--tlimit=%d" % (wall * 1000), path],
                "z3-4.8-cli": ["/usr/bin/z3", "-smt2", "-T:%d" % wall, path]}
        for name in names:
            exe = cmds[name][0]
            if not (shutil.which(exe) or os.path.exists(exe)):
                continue
            out = open(os.path.join(d, name + ".out"), "w+")
            p = subprocess.Popen(cmds[name], stdout=out, stderr=subprocess.DEVNULL, preexec_fn=_cpu_limit(cpu_s))
            procs.append((name, p, out))
        t_end = time.time() + wall + 5
        live = list(procs)
        while live and time.time() < t_end:
            for item in list(live):
                name, p, out = item
                if p.poll() is None:
                    continue
                live.remove(item)
                out.seek(0)
                first = (out.readline() or "").strip()
                if first == "unsat":
                    return {"status": "unsat", "backend": name}
                if first == "sat":
                    mt = ""
                    if want_model:
                        try:
                            with open(path, "a") as fh:
                                fh.write("\n(get-model)\n")
                            p2 = subprocess.run(cmds[name], capture_output=True, text=True, timeout=wall,
                                                preexec_fn=_cpu_limit(cpu_s * 2))
                            mt = p2.stdout[:20000]
                        except Exception:
                            pass
                    return {"status": "sat", "backend": name, "model": None, "model_text": mt}
            time.sleep(0.01)
        return {"status": "unknown", "backend": "portfolio"}
    finally:
        for name, p, out in procs:
            if p.poll() is None:
                try:
                    p.kill()
                except OSError:
                    pass
            try:
                p.wait(timeout=5)
            except Exception:
                pass
            out.close()
        shutil.rmtree(d, ignore_errors=True)


def _cli(text, timeout_s, only=None, skip=(), want_model=False):
    d = tempfile.mkdtemp(prefix="pyvc_smt_")
    try:
        path = os.path.join(d, "q.smt2")
        with open(path, "w") as fh:
            fh.write(text)
        cands = []
        if shutil.which("z3-new"):
            cands.append(("z3-new-cli", ["z3-new", "-smt2", "-T:%d" % timeout_s, path]))
        if shutil.which("cvc5"):
            cands.append(("cvc5-cli", ["cvc5", "--strings-exp", "--tlimit=%d" % (timeout_s * 1000), path]))
        if os.path.exists("/usr/bin/z3"):
            cands.append(("z3-4.8-cli", ["/usr/bin/z3", "-smt2", "-T:%d" % timeout_s, path]))
        for name, cmd in cands:
            if (only is not None and name not in only) or name in skip:
                continue
            try:
                p = subprocess.run(cmd, capture_output=True, text=True, timeout=timeout_s + 10)
            except subprocess.TimeoutExpired:
                continue
            out = p.stdout.strip().splitlines()
            first = out[0].strip() if out else ""
            if first == "unsat":
                return {"status": "unsat", "backend": name}
            if first == "sat":
                mt = p.stdout[:4000]
                if want_model:
                    try:
                        with open(path, "a") as fh:
                            fh.write("\n(get-model)\n")
                        p2 = subprocess.run(cmd, capture_output=True, text=True, timeout=timeout_s + 10)
                        mt = p2.stdout[:20000]
                    except Exception:
                        pass
                return {"status": "sat", "backend": name, "model": None, "model_text": mt}
        return {"status": "unknown", "backend": "portfolio"}
    finally:
        shutil.rmtree(d, ignore_errors=True)


def is_sat(pc, timeout_ms=3000):
    """satisfiability of a conjunction (vacuity guards).  With strings only through the CLIs (the z3 API does not
    reliably honour its time-out on sequence constraints)."""
    s = z3.Solver()
    s.set("timeout", timeout_ms)
    s.add(*pc)
    if pc and _uses_strings(z3.And(*pc)):
        try:
            text = "(set-logic ALL)\n" + s.to_smt2()
        except Exception:
            return "unknown"
        r = _cli(text, max(1, timeout_ms // 1000), only=("cvc5-cli",))
        return r["status"]
    return str(safe_check(s, timeout_ms))
