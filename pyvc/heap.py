"""Heap model for trees.Tree objects.

Ref = Int, 0 = None.  One z3 array per field:
  parent : Int -> Int
  nchild : Int -> Int           len(t.children)
  child  : Int -> (Int -> Int)  t.children[k]
  has_<k>: Int -> Bool          '<k>' in t.data
  none_<k>: Int -> Bool         t.data['<k>'] is None      (optional string fields)
  val_<k>: Int -> sort          t.data['<k>']
  alive  : Int -> Bool          allocated
Spec functions that depend on the heap take the arrays they read as arguments,
so that frame reasoning is by congruence (same arrays -> same value).
"""
import z3
from .sym import (VInt, VBool, VStr, VRef, VList, VOpt, VNone, Unsupported, IntS, BoolS, StrS,
                  fresh_name, tobool)

IntArr = z3.ArraySort(IntS, IntS)
BoolArr = z3.ArraySort(IntS, BoolS)
StrArr = z3.ArraySort(IntS, StrS)
ChildArr = z3.ArraySort(IntS, IntArr)

# data keys and their value types: 'int' | 'bool' | 'ostr' (str or None) | 'any'
DATA_KEYS = {
    "num": "int", "sid": "int", "block_number": "int",
    "head": "bool", "split": "bool", "head_block": "bool",
    "word": "ostr", "label": "ostr", "edge": "ostr", "morph": "ostr", "lemma": "ostr",
    "parent_num": "any", "terminals": "any",
}


class Heap(object):
    def __init__(self, fields=None, tag="h"):
        self.f = dict(fields or {})
        self.tag = tag

    @staticmethod
    def fresh(tag="H"):
        h = Heap(tag=tag)
        h.f["parent"] = z3.Const(fresh_name(tag + "_parent"), IntArr)
        h.f["nchild"] = z3.Const(fresh_name(tag + "_nchild"), IntArr)
        h.f["child"] = z3.Const(fresh_name(tag + "_child"), ChildArr)
        h.f["alive"] = z3.Const(fresh_name(tag + "_alive"), BoolArr)
        for k, ty in DATA_KEYS.items():
            h.f["has_" + k] = z3.Const(fresh_name("%s_has_%s" % (tag, k)), BoolArr)
            if ty == "int":
                h.f["val_" + k] = z3.Const(fresh_name("%s_%s" % (tag, k)), IntArr)
            elif ty == "bool":
                h.f["val_" + k] = z3.Const(fresh_name("%s_%s" % (tag, k)), BoolArr)
            elif ty == "ostr":
                h.f["val_" + k] = z3.Const(fresh_name("%s_%s" % (tag, k)), StrArr)
                h.f["none_" + k] = z3.Const(fresh_name("%s_none_%s" % (tag, k)), BoolArr)
        return h

    def copy(self):
        return Heap(self.f, self.tag)

    def typing(self):
        """facts true of every Python heap: list lengths are non-negative"""
        r = z3.Int(fresh_name("tr"))
        return [z3.ForAll([r], z3.Select(self.f["nchild"], r) >= 0)]

    def havoc(self, fields, tag="hv"):
        for k in fields:
            self.f[k] = z3.Const(fresh_name("%s_%s" % (tag, k)), self.f[k].sort())

    # ---- raw access (terms) ----
    def parent_t(self, r):
        return z3.Select(self.f["parent"], r)

    def nchild_t(self, r):
        return z3.Select(self.f["nchild"], r)

    def child_t(self, r, k):
        return z3.Select(z3.Select(self.f["child"], r), k)

    # ---- value level (used by the executor and by contracts) ----
    def parent(self, x):
        return VRef(self.parent_t(x.t))

    def nchild(self, x):
        return VInt(self.nchild_t(x.t))

    def children(self, x):
        """stored child list (Python list order)"""
        return VList(self.nchild_t(x.t), arr=z3.Select(self.f["child"], x.t), wrap=VRef, et=None)

    def child(self, x, k):
        k = k.t if isinstance(k, VInt) else z3.IntVal(k)
        return VRef(self.child_t(x.t, k))

    def has(self, x, key):
        return VBool(z3.Select(self.f["has_" + key], x.t))

    def data(self, x, key):
        ty = DATA_KEYS.get(key)
        if ty == "int":
            return VInt(z3.Select(self.f["val_" + key], x.t))
        if ty == "bool":
            return VBool(z3.Select(self.f["val_" + key], x.t))
        if ty == "ostr":
            return VOpt(z3.Select(self.f["none_" + key], x.t), VStr(z3.Select(self.f["val_" + key], x.t)))
        raise Unsupported("data key %r is not modelled" % (key,))

    def num(self, x):
        return VInt(z3.Select(self.f["val_num"], x.t))

    def label(self, x):
        return VStr(z3.Select(self.f["val_label"], x.t))

    def alive(self, x):
        return VBool(z3.Select(self.f["alive"], x.t))

    def is_leaf(self, x):
        return VBool(self.nchild_t(x.t) == 0)

    def set_data(self, x, key, v):
        ty = DATA_KEYS.get(key)
        self.f["has_" + key] = z3.Store(self.f["has_" + key], x.t, True)
        if ty == "int":
            if not isinstance(v, VInt):
                raise Unsupported("data[%r] = non-int" % key)
            self.f["val_" + key] = z3.Store(self.f["val_" + key], x.t, v.t)
        elif ty == "bool":
            self.f["val_" + key] = z3.Store(self.f["val_" + key], x.t, tobool(v))
        elif ty == "ostr":
            if v is VNone:
                self.f["none_" + key] = z3.Store(self.f["none_" + key], x.t, True)
            elif isinstance(v, VStr):
                self.f["none_" + key] = z3.Store(self.f["none_" + key], x.t, False)
                self.f["val_" + key] = z3.Store(self.f["val_" + key], x.t, v.t)
            elif isinstance(v, VOpt):
                self.f["none_" + key] = z3.Store(self.f["none_" + key], x.t, v.isnone)
                self.f["val_" + key] = z3.Store(self.f["val_" + key], x.t, v.val.t)
            else:
                raise Unsupported("data[%r] = %r" % (key, v))
        else:
            raise Unsupported("write to unmodelled data key %r" % (key,))

    def set_parent(self, x, p):
        pt = 0 if p is VNone else p.t
        self.f["parent"] = z3.Store(self.f["parent"], x.t, pt)

    def set_children(self, x, lst):
        """t.children = <list value>"""
        defs = []
        if lst.arr is not None:
            arr = lst.arr
        else:
            # a fresh array with a defining equation (triggered on its own selects) instead of a lambda term
            j = z3.Int(fresh_name("j"))
            arr = z3.Const(fresh_name("kids"), IntArr)
            el = lst.get(j)
            if hasattr(el, "t"):                 # (the empty list literal has no element term: nothing to define)
                defs.append(z3.ForAll([j], z3.Select(arr, j) == el.t, patterns=[z3.Select(arr, j)]))
        self.f["child"] = z3.Store(self.f["child"], x.t, arr)
        self.f["nchild"] = z3.Store(self.f["nchild"], x.t, lst.n)
        return defs

    def same(self, other, fields):
        return z3.And(*[self.f[k] == other.f[k] for k in fields]) if fields else z3.BoolVal(True)

    def all_fields(self):
        return sorted(self.f)

    # ---- heap-dependent spec functions (uninterpreted, arrays as arguments) ----
    def _shape_args(self):
        return [self.f["parent"], self.f["nchild"], self.f["child"], self.f["has_num"], self.f["val_num"]]

    def terms(self, x):
        """T(x): *the* list of leaves under x in increasing num (spec function
        of the shape arrays; characterised by the facts in contracts.common)"""
        args = self._shape_args()
        sorts = [a.sort() for a in args]
        flen = z3.Function("T_len", *(sorts + [IntS, IntS]))
        fel = z3.Function("T_el", *(sorts + [IntS, IntS, IntS]))
        return VList(flen(*(args + [x.t])), get=lambda i: VRef(fel(*(args + [x.t, i]))), et=None)

    def ochildren(self, x):
        """C(x): the children of x ordered by least token (spec function)"""
        args = self._shape_args()
        sorts = [a.sort() for a in args]
        flen = z3.Function("C_len", *(sorts + [IntS, IntS]))
        fel = z3.Function("C_el", *(sorts + [IntS, IntS, IntS]))
        return VList(flen(*(args + [x.t])), get=lambda i: VRef(fel(*(args + [x.t, i]))), et=None)

    def pre(self, x):
        """P(x): the nodes of the subtree of x in preorder (spec function of the shape arrays)"""
        args = self._shape_args()
        sorts = [a.sort() for a in args]
        flen = z3.Function("P_len", *(sorts + [IntS, IntS]))
        fel = z3.Function("P_el", *(sorts + [IntS, IntS, IntS]))
        return VList(flen(*(args + [x.t])), get=lambda i: VRef(fel(*(args + [x.t, i]))), et=None)

    def pre_idx(self, x, y):
        """position of y in P(x)"""
        args = self._shape_args()
        f = z3.Function("P_idx", *([a.sort() for a in args] + [IntS, IntS, IntS]))
        return VInt(f(*(args + [x.t, y.t])))

    def post(self, x):
        """Q(x): the nodes of the subtree of x in postorder (spec function of the shape arrays)"""
        args = self._shape_args()
        sorts = [a.sort() for a in args]
        flen = z3.Function("Q_len", *(sorts + [IntS, IntS]))
        fel = z3.Function("Q_el", *(sorts + [IntS, IntS, IntS]))
        return VList(flen(*(args + [x.t])), get=lambda i: VRef(fel(*(args + [x.t, i]))), et=None)

    def post_idx(self, x, y):
        """position of y in Q(x)"""
        args = self._shape_args()
        f = z3.Function("Q_idx", *([a.sort() for a in args] + [IntS, IntS, IntS]))
        return VInt(f(*(args + [x.t, y.t])))

    def mh(self, x):
        """MH(x): the longest downward path from x to a token (0 for a token)"""
        args = self._shape_args()
        f = z3.Function("G_mh", *([a.sort() for a in args] + [IntS, IntS]))
        return VInt(f(*(args + [x.t])))

    def mh_witness(self, x):
        """index in T(x) of a token at maximal depth below x"""
        args = self._shape_args()
        f = z3.Function("G_mhw", *([a.sort() for a in args] + [IntS, IntS]))
        return VInt(f(*(args + [x.t])))

    def nn(self, x):
        """NN(x): number of nodes of the subtree of x"""
        args = self._shape_args()
        f = z3.Function("G_nn", *([a.sort() for a in args] + [IntS, IntS]))
        return VInt(f(*(args + [x.t])))

    def snnc(self, x, k):
        """SNNC(x, k): number of nodes below the first k *ordered* children of x"""
        args = self._shape_args()
        f = z3.Function("G_snnc", *([a.sort() for a in args] + [IntS, IntS, IntS]))
        k = k.t if isinstance(k, VInt) else (z3.IntVal(k) if isinstance(k, int) else k)
        return VInt(f(*(args + [x.t, k])))

    def hgt(self, x):
        """a rank that strictly decreases from a node to each of its children (well-foundedness of the tree)"""
        f = z3.Function("G_hgt", self.f["parent"].sort(), self.f["child"].sort(), IntS, IntS)
        return VInt(f(self.f["parent"], self.f["child"], x.t))

    def nleaves(self, x):
        """NL(x): number of tokens under x"""
        args = self._shape_args()
        f = z3.Function("G_nl", *([a.sort() for a in args] + [IntS, IntS]))
        return VInt(f(*(args + [x.t])))

    def snl(self, x, k):
        """SNL(x, k): number of tokens under the first k stored children of x"""
        args = self._shape_args()
        f = z3.Function("G_snl", *([a.sort() for a in args] + [IntS, IntS, IntS]))
        k = k.t if isinstance(k, VInt) else (z3.IntVal(k) if isinstance(k, int) else k)
        return VInt(f(*(args + [x.t, k])))

    def depth(self, x):
        f = z3.Function("G_depth", self.f["parent"].sort(), IntS, IntS)
        return VInt(f(self.f["parent"], x.t))

    def anc(self, x, d):
        f = z3.Function("G_anc", self.f["parent"].sort(), IntS, IntS, IntS)
        d = d.t if isinstance(d, VInt) else z3.IntVal(d)
        return VRef(f(self.f["parent"], x.t, d))

    def pos(self, x):
        f = z3.Function("G_pos", self.f["parent"].sort(), self.f["child"].sort(), IntS, IntS)
        return VInt(f(self.f["parent"], self.f["child"], x.t))
