"""Tree specifications, enumerators and the set-based model used by every
bounded oracle.  Pure stdlib; imported under /venv/bin/python (real code,
3.12) and under python3-vt (3.11).

A *spec* is a JSON-serialisable nested literal, independent of the Tree class:

  leaf : {"n": num, "w": word, "l": pos, "e": edge, "m": morph, "lem": lemma, "x": {extra data}}
  node : {"l": label, "e": edge, "c": [child specs in *stored* order], "x": {...}}

Trees are built from specs through the Tree API only (Tree(data), .children,
.parent) -- never through the readers -- so reader and writer properties are
judged independently of each other.
"""
import itertools
import random

# ----------------------------------------------------------------------------
# shapes: all rooted trees over leaf set {1..n}, every internal node >= 2
# children (1, 1, 4, 26, 236, 2752 for n = 1..6).  A shape is an int (leaf)
# or a tuple of shapes ordered by least leaf.
# ----------------------------------------------------------------------------

def _set_partitions(items):
    """all partitions of the list `items` into non-empty blocks; blocks
    ordered by their least element"""
    if not items:
        yield []
        return
    first, rest = items[0], items[1:]
    for part in _set_partitions(rest):
        # put first into its own block or into one of the existing blocks
        yield [[first]] + part
        for i in range(len(part)):
            yield part[:i] + [[first] + part[i]] + part[i + 1:]


def _shapes_over(leaves):
    if len(leaves) == 1:
        yield leaves[0]
        return
    for part in _set_partitions(leaves):
        if len(part) < 2:
            continue
        part = sorted(part, key=min)
        for combo in itertools.product(*[list(_shapes_over(sorted(b))) for b in part]):
            yield tuple(combo)


_SHAPE_CACHE = {}


def shapes(n):
    """every shape over leaves 1..n (list, cached)"""
    if n not in _SHAPE_CACHE:
        _SHAPE_CACHE[n] = list(_shapes_over(list(range(1, n + 1))))
    return _SHAPE_CACHE[n]


def shape_leaves(shape):
    if isinstance(shape, int):
        return [shape]
    out = []
    for c in shape:
        out.extend(shape_leaves(c))
    return sorted(out)


def shape_is_continuous(shape):
    if isinstance(shape, int):
        return True
    lv = shape_leaves(shape)
    if lv[-1] - lv[0] + 1 != len(lv):
        return False
    return all(shape_is_continuous(c) for c in shape)


def random_shape(rng, n, p_flat=0.35, discont=0.5):
    """a random shape over 1..n; `discont` = probability of drawing a random
    (not interval-respecting) partition at each node"""
    def build(leaves):
        if len(leaves) == 1:
            return leaves[0]
        k = 2
        while k < len(leaves) and rng.random() < p_flat:
            k += 1
        if rng.random() < discont:
            # random assignment of leaves to k blocks, all non-empty
            while True:
                assign = [rng.randrange(k) for _ in leaves]
                if len(set(assign)) == k:
                    break
            blocks = [[l for l, a in zip(leaves, assign) if a == b] for b in range(k)]
        else:
            cuts = sorted(rng.sample(range(1, len(leaves)), k - 1))
            blocks = [leaves[i:j] for i, j in zip([0] + cuts, cuts + [len(leaves)])]
        blocks.sort(key=min)
        return tuple(build(b) for b in blocks)
    return build(list(range(1, n + 1)))


# ----------------------------------------------------------------------------
# decoration of shapes into specs
# ----------------------------------------------------------------------------

LABELS = ["S", "NP", "VP"]
POS = ["NN", "VB", "$,", "ART"]
EDGES = ["HD", "NK", "--"]
WORDS_PLAIN = ["der", "Hund", "bellt", "laut", "Haus", "sieht"]
WORDS_PUNCT = [",", ".", "\"", "(", ")", "-", "''", "``", ":"]
WORDS_SPECIAL = ["a&b", "<x>", "q\"t", "äpfel", "中文", "o'k", "1234567", "12345678",
                 "123456789012345", "1234567890123456", "(x)", "[y]"]


def leaf_spec(num, word="w", pos="NN", edge="--", morph="--", lemma="--"):
    return {"n": num, "w": word, "l": pos, "e": edge, "m": morph, "lem": lemma}


def node_spec(label, children, edge="--"):
    return {"l": label, "e": edge, "c": list(children)}


def is_leaf_spec(spec):
    return "c" not in spec


def spec_from_shape(shape, rng=None, root_label="VROOT", labels=LABELS, pos=POS,
                    edges=EDGES, words=None, unary_p=0.0, shuffle=False,
                    none_fields=0.0):
    """decorate a shape.  rng None -> deterministic plain decoration."""
    words = words or (WORDS_PLAIN + WORDS_PUNCT)
    cnt = itertools.count()

    def pick(seq):
        if rng is None:
            return seq[next(cnt) % len(seq)]
        return rng.choice(seq)

    def wrap_unary(spec, allow):
        if rng is not None and allow:
            k = 0
            while k < 2 and rng.random() < unary_p:
                spec = node_spec(pick(labels), [spec], pick(edges))
                k += 1
        return spec

    def build(sh):
        if isinstance(sh, int):
            sp = leaf_spec(sh, pick(words), pick(pos), pick(edges))
            if rng is not None and rng.random() < none_fields:
                sp["m"] = None
            if rng is not None and rng.random() < none_fields:
                sp["lem"] = None
            return wrap_unary(sp, True)
        kids = [build(c) for c in sh]
        if shuffle and rng is not None:
            rng.shuffle(kids)
        return wrap_unary(node_spec(pick(labels), kids, pick(edges)), True)

    if isinstance(shape, int):
        top = node_spec(root_label, [build(shape)])
    else:
        kids = [build(c) for c in shape]
        if shuffle and rng is not None:
            rng.shuffle(kids)
        top = node_spec(root_label, kids)
    top["e"] = "--"
    top["sid"] = 1
    return top


def spec_leaves(spec):
    if is_leaf_spec(spec):
        return [spec]
    out = []
    for c in spec["c"]:
        out.extend(spec_leaves(c))
    return sorted(out, key=lambda s: s["n"])


def spec_nodes(spec):
    """preorder list of (spec, parent_spec)"""
    out = []

    def rec(s, p):
        out.append((s, p))
        if not is_leaf_spec(s):
            for c in s["c"]:
                rec(c, s)
    rec(spec, None)
    return out


# ----------------------------------------------------------------------------
# building real trees, snapshots and the set-based model
# ----------------------------------------------------------------------------

def build(spec, trees_mod, fill_none=False):
    """Build a real Tree from a spec through the Tree API."""
    def rec(s):
        data = trees_mod.make_node_data()
        data["label"] = s["l"]
        data["edge"] = s.get("e", "--")
        if is_leaf_spec(s):
            data["word"] = s["w"]
            data["morph"] = s.get("m", "--")
            data["lemma"] = s.get("lem", "--")
            data["num"] = s["n"]
        else:
            data["morph"] = "--"
            data["lemma"] = "--"
        for k, v in s.get("x", {}).items():
            data[k] = v
        node = trees_mod.Tree(data)
        if not is_leaf_spec(s):
            for c in s["c"]:
                ct = rec(c)
                ct.parent = node
                node.children.append(ct)
        return node
    root = rec(spec)
    if "sid" in spec:
        root.data["sid"] = spec["sid"]
    return root


def all_nodes(root):
    """every node reachable through .children (identity based, cycle safe)"""
    seen, order, stack = set(), [], [root]
    while stack:
        n = stack.pop()
        if id(n) in seen:
            continue
        seen.add(id(n))
        order.append(n)
        stack.extend(reversed(n.children))
    return order


def wf_errors(root, expect_n=None):
    """Well-formedness as the properties state it: one root, every other node
    exactly one parent (consistent parent/child links, no duplicates), no
    cycle, no childless constituent, tokens numbered 1..n.  Returns a list of
    human-readable violations (empty = well formed).  Never calls the code
    under test."""
    errs = []
    if root is None:
        return ["result is None"]
    if getattr(root, "parent", "missing") is not None:
        errs.append("returned node is not a root (parent is not None)")
    seen = {}
    stack = [(root, None)]
    count = 0
    while stack:
        n, par = stack.pop()
        count += 1
        if count > 100000:
            errs.append("cycle or runaway structure")
            break
        if id(n) in seen:
            errs.append("node %r reached twice (two parents / duplicate child / cycle)" % (n.data.get("label"),))
            continue
        seen[id(n)] = n
        if par is not None and n.parent is not par:
            errs.append("child %r of %r has parent pointer %r" % (
                n.data.get("label"), par.data.get("label"),
                None if n.parent is None else n.parent.data.get("label")))
        for c in n.children:
            stack.append((c, n))
    leaves = [n for n in seen.values() if len(n.children) == 0]
    nums = []
    for l in leaves:
        if "num" not in l.data or l.data.get("word") is None:
            errs.append("childless constituent %r" % (l.data.get("label"),))
        else:
            nums.append(l.data["num"])
    if not errs:
        if sorted(nums) != list(range(1, len(nums) + 1)):
            errs.append("tokens not numbered 1..n: %r" % (sorted(nums),))
        if expect_n is not None and len(nums) != expect_n:
            errs.append("expected %d tokens, found %d" % (expect_n, len(nums)))
    return errs


def snapshot(root, fields=("label", "edge"), leaf_fields=("word", "label", "edge", "morph", "lemma"),
             extra=()):
    """identity-free canonical form of a tree: nested tuples, children ordered
    by least token number; ignores stored child order and Tree.id."""
    def rec(n):
        if len(n.children) == 0:
            return ("T", n.data.get("num"),) + tuple(n.data.get(f) for f in leaf_fields) \
                + tuple(n.data.get(f) for f in extra)
        kids = [rec(c) for c in n.children]
        kids.sort(key=_minleaf)
        return ("N",) + tuple(n.data.get(f) for f in fields) + tuple(n.data.get(f) for f in extra) + (tuple(kids),)
    return rec(root)


def _minleaf(snap):
    if snap[0] == "T":
        return snap[1] if snap[1] is not None else 10 ** 9
    return min([_minleaf(k) for k in snap[-1]] or [10 ** 9])


def model(root):
    """set-based model: list of (label, frozenset(token numbers)) for
    constituents, list of (num, word, pos) for tokens, and parent map keyed by
    python id -- used by oracles that reason over token sets."""
    cons, toks, yield_of = [], [], {}

    def rec(n):
        if len(n.children) == 0:
            ys = frozenset([n.data.get("num")])
            toks.append((n.data.get("num"), n.data.get("word"), n.data.get("label")))
        else:
            ys = frozenset()
            for c in n.children:
                ys = ys | rec(c)
            cons.append((n.data.get("label"), ys))
        yield_of[id(n)] = ys
        return ys
    rec(root)
    toks.sort(key=lambda t: (t[0] is None, t[0]))
    return {"cons": cons, "toks": toks, "yield": yield_of}


def to_spec(root, extra=()):
    """spec of a real tree (stored child order kept)"""
    def rec(n):
        if len(n.children) == 0:
            s = {"n": n.data.get("num"), "w": n.data.get("word"), "l": n.data.get("label"),
                 "e": n.data.get("edge"), "m": n.data.get("morph"), "lem": n.data.get("lemma")}
        else:
            s = {"l": n.data.get("label"), "e": n.data.get("edge"), "c": [rec(c) for c in n.children]}
        x = {k: n.data[k] for k in extra if k in n.data}
        if x:
            s["x"] = x
        return s
    s = rec(root)
    if "sid" in root.data:
        s["sid"] = root.data["sid"]
    return s


def spec_str(spec):
    """compact one-line rendering for samples / messages"""
    if is_leaf_spec(spec):
        return "%s:%s/%s" % (spec["n"], spec["w"], spec["l"])
    e = spec.get("e", "--")
    return "(%s%s %s)" % (spec["l"], "" if e in ("--", None) else "-" + e,
                          " ".join(spec_str(c) for c in spec["c"]))


def gap_degree_of_set(nums):
    """number of maximal contiguous runs minus one (the set-based definition)"""
    nums = sorted(nums)
    return sum(1 for a, b in zip(nums, nums[1:]) if b > a + 1)


def runs_of_set(nums):
    nums = sorted(nums)
    runs = []
    for x in nums:
        if runs and runs[-1][-1] + 1 == x:
            runs[-1].append(x)
        else:
            runs.append([x])
    return runs


def enum_specs(max_n, rng=None, per_shape=1, **deco):
    """specs for all shapes with 1..max_n leaves; with rng, `per_shape`
    random decorations each, else one deterministic decoration"""
    for n in range(1, max_n + 1):
        for sh in shapes(n):
            if rng is None:
                yield spec_from_shape(sh, None, **deco)
            else:
                for _ in range(per_shape):
                    yield spec_from_shape(sh, rng, **deco)


def random_specs(rng, count, min_n=1, max_n=10, **deco):
    for _ in range(count):
        n = rng.randint(min_n, max_n)
        yield spec_from_shape(random_shape(rng, n), rng, **deco)
