"""per-property registry: claimed level, explanation and assumptions that go into the evidence"""
COMMON_B = ["bounded part: real functions of VERIF_REPO executed under /venv/bin/python 3.12; the oracle is an executable transcription of the property text and never calls the code under test to compute expectations"]
PROPS = {
 "C16": {"level": "other",
         "explanation": "Gap-degree kernel under contract (pyvc) plus bounded agreement checks.",
         "assumptions": COMMON_B},
}
