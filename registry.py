"""per-property registry: claimed level, explanation and assumptions that go into the evidence and MANIFEST"""
COMMON_B = ("bounded part: real functions of VERIF_REPO executed under /venv/bin/python 3.12; the oracle is an "
            "executable transcription of the property text and never calls the code under test to compute "
            "expectations; bounds are in coverage.bounds")
COMMON_P = ("deductive part: pyvc (our own VC generator over the real ast of VERIF_REPO, re-read on every run) + "
            "z3 5.1 API / z3-new CLI / cvc5 CLI; assumed semantics in DESIGN.md 3.3; soundness of pyvc and the "
            "solvers is trusted (mitigated by selftest/ mutants and the vacuity guards)")

PROPS = {
 "C15": {"level": "exploration",
         "technique": "bounded stand-in: executable contract on get_headpos_by_rule / negra_mark_heads / mark_heads_by_rules, exhaustive small scope",
         "explanation": "Head marking: no function of this property is under a discharged deductive contract yet; "
                        "the executable contract is evaluated on the real functions.",
         "level_text": "bounded exploration only (labelled bounded, nothing proved): all tree shapes n<=4 x all HD/NK/-- "
                       "edge assignments, every parent category of both presets x child sequences with exactly one listed child",
         "assumptions": [COMMON_B], "design_ref": "5 C15"},
 "C16": {"level": "other",
         "technique": "contract-based deductive verification (pyvc VCs from the real AST, z3) of gap_degree_node, has_gaps, gap_type, terminal_blocks + bounded stand-in for gap_degree, tasks, three-way agreement, disco_order",
         "explanation": "Kernel proved for all inputs: gap_degree_node == set-based gap degree, has_gaps, gap_type "
                        "classification, terminal_blocks partitions T(node) into its maximal runs in order with "
                        "|blocks| = gap degree + 1 (loop invariants, no bound). The contracts of trees.terminals / "
                        "trees.children are assumed at call sites (listed in trusted_base). gap_degree over preorder, the "
                        "analysis tasks, the three-way agreement and disco_order are bounded only.",
         "level_text": "proof for the kernel functions (all obligations discharged, unbounded), bounded stand-in for the rest; "
                       "therefore 'other', not 'proof'",
         "assumptions": [COMMON_P, COMMON_B], "design_ref": "5 C16"},
 "C19": {"level": "exploration",
         "technique": "bounded stand-in: navigation API against a set-based model on all shapes n<=5 with permuted child lists",
         "explanation": "Navigation API against a set-based reference model.",
         "level_text": "bounded exploration (deductive contracts for siblings/lca are being added)",
         "assumptions": [COMMON_B], "design_ref": "5 C19"},
 "C20": {"level": "exploration",
         "technique": "bounded stand-in: exhaustive strings up to length 5 over the property's alphabet",
         "explanation": "Label parsing/formatting round trip.",
         "level_text": "bounded exploration, exhaustive up to the stated length",
         "assumptions": [COMMON_B], "design_ref": "5 C20"},
}
