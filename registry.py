"""per-property registry: claimed level, explanation and assumptions that go into the evidence and MANIFEST"""
COMMON_B = ("bounded part: real functions of VERIF_REPO executed under /venv/bin/python 3.12; the oracle is an "
            "executable transcription of the property text and never calls the code under test to compute "
            "expectations; bounds are in coverage.bounds")
COMMON_P = ("deductive part: pyvc (our own VC generator over the real ast of VERIF_REPO, re-read on every run) + "
            "z3 5.1 API / z3-new CLI / cvc5 CLI; assumed semantics in DESIGN.md 3.3; soundness of pyvc and the "
            "solvers is trusted (mitigated by selftest/ mutants and the vacuity guards)")

PROPS = {
 "C15": {"level": "exploration",
         "technique": "bounded stand-in: executable contract on get_headpos_by_rule / negra_mark_heads / mark_heads_by_rules, exhaustive small scope",
         "explanation": "Head marking: no function of this property is under a discharged deductive contract yet; "
                        "the executable contract is evaluated on the real functions.",
         "level_text": "bounded exploration only (labelled bounded, nothing proved): all tree shapes n<=4 x all HD/NK/-- "
                       "edge assignments, every parent category of both presets x child sequences with exactly one listed child",
         "assumptions": [COMMON_B], "design_ref": "5 C15"},
 "C16": {"level": "other",
         "technique": "contract-based deductive verification (pyvc VCs from the real AST, z3) of gap_degree_node, has_gaps, gap_type, terminal_blocks + bounded stand-in for gap_degree, tasks, three-way agreement, disco_order",
         "explanation": "Kernel proved for all inputs: gap_degree_node == set-based gap degree, has_gaps, gap_type "
                        "classification, terminal_blocks partitions T(node) into its maximal runs in order with "
                        "|blocks| = gap degree + 1 (loop invariants, no bound). The contracts of trees.terminals / "
                        "trees.children are assumed at call sites (listed in trusted_base). gap_degree over preorder, the "
                        "analysis tasks, the three-way agreement and disco_order are bounded only.",
         "level_text": "proof for the kernel functions (all obligations discharged, unbounded), bounded stand-in for the rest; "
                       "therefore 'other', not 'proof'",
         "assumptions": [COMMON_P, COMMON_B], "design_ref": "5 C16"},
 "C19": {"level": "exploration",
         "technique": "bounded stand-in: navigation API against a set-based model on all shapes n<=5 with permuted child lists",
         "explanation": "Navigation API against a set-based reference model.",
         "level_text": "bounded exploration (deductive contracts for siblings/lca are being added)",
         "assumptions": [COMMON_B], "design_ref": "5 C19"},
 "C20": {"level": "exploration",
         "technique": "bounded stand-in: exhaustive strings up to length 5 over the property's alphabet",
         "explanation": "Label parsing/formatting round trip.",
         "level_text": "bounded exploration, exhaustive up to the stated length",
         "assumptions": [COMMON_B], "design_ref": "5 C20"},
}

def _b(pid, technique, expl, text, ref):
    PROPS[pid] = {"level": "exploration", "technique": technique, "explanation": expl, "level_text": text,
                  "assumptions": [COMMON_B], "design_ref": ref}


_b("C04", "bounded stand-in: per-transformation executable contract (well-formedness, token sequence, documented constituent change) over all prerequisite-respecting sequences up to length L",
   "Structural transformations keep the sentence and well-formedness.",
   "bounded exploration (labelled bounded): sequences of length <=2 (quick) / <=3 (thorough) over all shapes n<=4/5 with punctuation / unary decorations", "5 C04")
_b("C05", "bounded stand-in: boyd_split+raising against the set-based reference ref_raise on all shapes n<=5 x all head assignments",
   "Crossing-branch removal equals the documented reference; outside the reach of pyvc (generator consumed while the tree is mutated).",
   "bounded exploration; exhaustive over shapes and head assignments up to the bound", "5 C05")
_b("C10", "bounded stand-in: three replay automata that rebuild the tree from (tokens, transitions) only",
   "Transition sequences replay to the input tree.",
   "bounded exploration over head-marked binarized trees n<=5/6", "5 C10")
_b("C11", "bounded stand-in: token-editing transformations against reference semantics on token lists",
   "Token editing changes exactly the targeted tokens.",
   "bounded exploration", "5 C11")
_b("C12", "bounded stand-in: root_attach against the set-based reference fixed in DESIGN 5 C12",
   "root_attach equals the set-based reference; nothing but root children moves.",
   "bounded exploration; shapes n<=6/7 exhaustive", "5 C12")
_b("C13", "bounded stand-in: the three documented postconditions + frame on enumerated trees",
   "Punctuation re-attachment.",
   "bounded exploration", "5 C13")
_b("C14", "bounded stand-in: binarize/unbinarize and collapse/uncollapse round trips on enumerated trees",
   "Binarization and unary-chain collapsing are reversible normal forms.",
   "bounded exploration", "5 C14")
_b("C17", "bounded stand-in: exhaustive split specifications against an exact-integer reference + CLI split runs",
   "Output splitting.",
   "bounded exploration; exhaustive over specifications of <=3 parts and sizes 0..12 (quick)", "5 C17")
_b("C18", "bounded stand-in: concatenation, history and hash-seed experiments through the API and the CLI",
   "Sentence-local, deterministic, history-independent processing.",
   "bounded exploration", "5 C18")

_b("C01", "bounded stand-in: readers against independent reference decoders on corpora rendered by our own encoders; all token-class sequences up to length L for the bracket automaton",
   "Readers decode faithfully; ill-formed bracket groups are rejected.",
   "bounded exploration; bracket token-class sequences exhaustive up to length 7 (quick) / 9 (thorough)", "5 C01")
_b("C02", "bounded stand-in: writer output decoded by independent decoders and compared with the tree spec, all option subsets",
   "Writers encode faithfully.",
   "bounded exploration over shapes n<=4 x all documented option subsets", "5 C02")
_b("C03", "bounded stand-in: the real CLI as a subprocess over all 4x5 format pairs, chains, encodings, gzip, directory mode",
   "Any-to-any conversion through the command line.",
   "bounded exploration (about 190 CLI runs in the quick tier)", "5 C03")
_b("C06", "bounded stand-in: grammar extraction against a spec-based reference and the instantiate-and-compare oracle",
   "Grammar extraction is faithful to the treebank.",
   "bounded exploration", "5 C06")
_b("C07", "bounded stand-in: compose() of binarization chains == original linearization, exhaustive rule space rank<=4 / <=6 variables",
   "Binarization preserves every rule's yield function.",
   "bounded exploration; rule space exhaustive up to the bound in the thorough tier (rank<=5, <=8 variables)", "5 C07")
_b("C08", "bounded stand-in: count conservation equations on enumerated treebanks x all grammar types",
   "Counts are conserved through extraction and binarization.",
   "bounded exploration", "5 C08")
_b("C09", "bounded stand-in: grammar files decoded by the tool's reader / independent decoders; CLI grammar input",
   "Grammar files decode to the grammar in memory.",
   "bounded exploration", "5 C09")

# ---- properties with a deductive part (overrides of the entries above) ----
def _pb(pid, technique, expl, text):
    PROPS[pid].update({"level": "other", "technique": technique, "explanation": expl, "level_text": text,
                       "assumptions": [COMMON_P, COMMON_B]})


_pb("C02", "contract-based deductive verification (pyvc) of export_tabs; bounded stand-in (independent decoders) for the writers",
    "export_tabs proved against the documented tab-stop table for every length (counter-models are replayed on the real "
    "function); everything else of the property is bounded only.",
    "proof for export_tabs, bounded stand-in for the writers; 'other'")
_pb("C17", "contract-based deductive verification (pyvc: loop invariant, raises clauses, ssum lemmas) of parse_split_specification; bounded stand-in for the CLI split branch",
    "parse_split_specification is proved for every specification string and every size: sizes follow the specification "
    "(absolute exact, percentages floor(N*size/100) in integers, remainder to rest / first largest), are non-negative, sum to "
    "size, and ValueError is raised exactly for malformed or over-demanding specifications (str.split/isdigit/int abstracted, "
    "see trusted_base). The split branch of transform.run is bounded only.",
    "proof for the size computation (all obligations discharged, unbounded), bounded stand-in for file splitting; 'other'")
_pb("C18", "frame obligations decided by static analysis of the real AST (one per function: no module-level, class-level or function-attribute state, no use of Tree.id/id()/hash(), no caching decorator) + bounded concatenation/history/hash-seed experiments",
    "Every function of the package has a frame obligation: it touches no state that outlives the call except the three "
    "documented places (Tree.newid, the terminal-file cache of insert_/substitute_terminals). A function that acquires a cache "
    "or counter fails its obligation (reported without a failing input). Observable history independence, concatenation and "
    "hash-seed determinism are bounded only.",
    "frame obligations for all 130 functions (syntactic, conservative) + bounded experiments; 'other'")
_pb("C19", "contract-based deductive verification (pyvc, read-only heap with ghost depth/anc/pos) of right_sibling, left_sibling, dominance, lca + lemmas (siblings inverse, lca lowest); bounded stand-in for children/terminals/preorder/postorder/levels/numbering",
    "right_sibling/left_sibling (neighbours in the ordered child list, mutually inverse), dominance (parent chain to the root, "
    "with termination) and lca (none iff one dominates the other; otherwise the lowest common dominator) are proved for every "
    "well-formed tree of any size, with the contracts of children/terminals assumed (trusted_base). children, terminals, "
    "preorder, postorder, levels and the export numbering are bounded only.",
    "proof for siblings/dominance/lca, bounded stand-in for the rest; 'other'")

_pb("C04", "contract-based deductive verification (pyvc) of add_topnode (with allocation) and of the mover step (detach/attach idiom) as a block contract at every re-attachment site of root_attach, raising, boyd_split and the three punctuation movers; syntactic obligation 'returns the object it was given' for the fourteen in-place transformations; bounded stand-in for whole transformations and sequences",
    "add_topnode is proved to put exactly one new TOP node above the root and to change nothing else. "
    "Every `children.remove(X)` of the six re-attaching transformations is located in the real AST and the surrounding "
    "step is executed symbolically on an arbitrary link-consistent heap: links stay consistent, only X changes parent, the old "
    "parent loses exactly X, the target gains exactly X (or X becomes a detached root). The side condition of the step - "
    "the target is not at or below X, so no cycle arises - is a lemma for raising (target is the grandparent), for the "
    "three punctuation movers (X is a token, the target has children) and for root_attach (C12); 'no childless "
    "constituent' is proved for the guarded moves (C12, C13). Each of the fourteen in-place transformations returns the very "
    "object it was given (decided on the AST: every return returns the never-rebound parameter `tree`; when that is no longer "
    "syntactically evident the obligation is undecided, never a violation). Token sequence, label multisets and the "
    "transformations as wholes are bounded only.",
    "proof of the link-consistency step at 9 sites (block contracts), bounded stand-in for the transformations; 'other'")
_pb("C09", "contract-based deductive verification (pyvc) of grammarconst.label_strip_fanout (loop invariant, variant, raises iff all digits), of grammaranalysis.is_contextfree (nested loops over the keys of a nested dict, early return), of the last statements of fan_out and of the guard of grammaroutput.lopar (block contracts); bounded stand-in for the grammar files",
    "label_strip_fanout removes exactly the maximal trailing digit run and raises IndexError exactly for all-digit "
    "labels (proved, with termination). is_contextfree returns True exactly when every linearization of every rule has at "
    "most one argument (dict iteration = an unknown duplicate-free enumeration of exactly the keys; linearizations are "
    "opaque keys, fan_out is used through 'result[0] is the number of arguments', which is proved on the last two statements "
    "of fan_out); the guard of the LoPar writer raises ValueError exactly for grammars that are not context-free and nothing "
    "is opened before it. The per-symbol fan-outs, file formats and the CLI are bounded only.",
    "proof for label_strip_fanout, is_contextfree and the LoPar guard, bounded stand-in for the writers/readers; 'other'")
_pb("C11", "contract-based deductive verification (pyvc) of filter_by_length and of trees.delete_terminal (three loops: climb to the root, upward pruning with list removal, renumbering) + a lemma over its contract, and of one step of insert_terminals and of substitute_terminals as block contracts (the lookup in the parameter-file table abstracted to an opaque pair); bounded stand-in for the token-editing transformations",
    "filter_by_length drops exactly the trees the operator names. delete_terminal, the kernel of punctuation and trace "
    "deletion, is proved for every well-formed tree and token: it returns the lowest ancestor of the token that keeps a "
    "child (else the root), unlinks the token and exactly the unary ancestors it empties, leaves every other child list "
    "as it was, and moves the number of every later token down by one while all other numbers stay; hence (lemma) tokens "
    "numbered 1..n end up numbered 1..n-1 in the same order. One step of insert_terminals (the real loop body; the two "
    "look-ups in the parameter-file table, a function attribute, replaced by one opaque pair) ignores every index outside "
    "1..n+1 (0 and negatives included) without touching the heap, and otherwise creates one fresh token with that number "
    "and the table's word / tag under the root, moves the tokens numbered >= index up by one and changes nothing else "
    "(lemma: tokens 1..n plus the new one are numbered 1..n+1). One step of substitute_terminals ignores every index outside "
    "1..n and otherwise replaces the word of exactly that token, its tag iff the file gives one, nothing else. Reading the "
    "parameter file, the composition of the steps, the transformations that call delete_terminal repeatedly and trace "
    "handling are bounded only.",
    "proof for filter_by_length, delete_terminal and the two editing steps, bounded stand-in for the rest; 'other'")
_pb("C12", "contract-based deductive verification (pyvc): the right-boundary loop of root_attach as a block contract against the recursively defined walk over the root's children (ghost sequences EDGE / DONE; lemmas walk_step, edge_frozen, first_last_bounds), lemmas over the contracts of lca and terminals (the target exists, is a constituent dominating both neighbours, and does not lie at or below the moved child) + mover step of root_attach; bounded stand-in against the set-based reference",
    "The loop that determines the right neighbour (focus / sibling walk over the root's children in order of their least "
    "token) is proved, for every well-formed tree and root child, to compute exactly the documented walk: a sibling that "
    "starts left of the current right edge is skipped, one that starts more than one token beyond it ends the walk, any other "
    "is absorbed and moves the edge to its last token; t_r is the final edge + 1 (over the contracts of right_sibling and "
    "terminals; terminates). The target selection skips a child only when a neighbour lies beyond the sentence and otherwise "
    "hands lca the tokens numbered t_l and t_r - two distinct tokens of this tree, subscripts in range (tokens numbered 1..n) - "
    "which is what the following lemmas assume. root_attach's target is never None and is a constituent dominating both neighbours (lemma over the proved lca "
    "contract); it is neither the moved child nor below it, so the re-attachment creates no cycle (lemma over the "
    "contracts of terminals - complete and ordered - and lca, with the proved ancestor lemma); the root keeps another child "
    "(the left neighbour hangs below one); and the re-attachment step "
    "keeps links consistent (block contract). That the result equals the documented rule is bounded only (set-based "
    "reference).",
    "lemmas + block contract proved, equality with the reference bounded; 'other'")
_pb("C20", "contract-based deductive verification (pyvc + cvc5 strings) of parse_label, format_label, get_label and the round-trip / completeness lemmas; bounded exhaustive strings as cross-check",
    "parse_label: parts glue back to the input (default literals may be absent), component shapes, trace iff starred, "
    "head mark / co-index / gap index equal spec functions of the input, from which completeness of recognition follows "
    "(lemma chain); format_label: component order and default handling; get_label: category followed by exactly the "
    "requested decorations; round trip and 'emptying removes exactly that component' as lemmas over the contracts. "
    "All obligations discharged for every string (no length bound).",
    "every clause of the property is a discharged obligation or lemma; claimed as 'other' rather than 'proof' because the "
    "evidence also carries the bounded cross-check and the string theory (isdigit uninterpreted, SMT strings) is trusted")
PROPS["C02"]["technique"] = "contract-based deductive verification (pyvc) of export_tabs, export_format (over the contract of get_label), treeoutput.brackets (refusal of discontinuous trees, over the contract of gap_degree) and treeoutput.terminals (loop invariant over the text written so far); bounded stand-in (independent decoders) for the writers"
PROPS["C02"]["explanation"] = ("export_tabs proved against the documented tab-stop table for every length (counter-models are replayed on the "
                               "real function); export_format proved to produce word TABS [lemma TABS] label TAB morph TABS edge TAB parent NEWLINE "
                               "with '--' for absent fields and to store nothing else; treeoutput.brackets raises ValueError exactly when some node of the tree "
                               "has a positive set-based gap degree and brackets_skipdisco is absent, writes nothing when it skips and otherwise "
                               "the text of write_brackets_subtree followed by one newline; treeoutput.terminals raises ValueError exactly for "
                               "terminals_pos + pos_only and otherwise appends, per token in order, the POS tag / the word / word-separator-tag "
                               "followed by a blank (newline with terminals_one), then a newline (streams are modelled as the text written so far); "
                               "tigerxml_end closes body then corpus with only white space around. "
                               "write_brackets_subtree, the export / TIGER-XML / discobrackets writers as a whole are bounded only.")

_pb("C05", "contract-based deductive verification (pyvc) of the grouping loop of boyd_split (loop invariant over a list of lists), of the creation of one block node of boyd_split incl. the head-block recurrence, of the selection loop of raising and of the re-attachment steps of boyd_split and raising, as block contracts; bounded stand-in against the reference ref_raise",
    "The grouping loop of boyd_split is proved, for every well-formed node, to partition the children (ordered by leftmost "
    "token) into consecutive slices such that inside a slice each child starts at most one past the last token of its left "
    "neighbour and between two slices there is a gap - 'one block node per continuous block'. The selection loop of raising "
    "is proved to list exactly the split nodes below the root that are not head blocks, in preorder, each once. One iteration of "
    "the block loop of boyd_split (raw heap in mid-surgery, the block's members distinct children of the constituent; the "
    "statement subtree.children.remove(child) is left to the mover-step contract) creates a fresh copy of the constituent marked "
    "split, with the constituent's head flag and block number i+1, appends it to the old parent, hands it exactly the block's "
    "members in order, and marks it head block iff some member has `head` and is not a split node or is the head block of its "
    "own split - the recurrence behind 'exactly one head block' - touching no other node's flags. The four `children.remove` "
    "steps of boyd_split and raising (detach of the split node, move of each child) keep parent/child links consistent "
    "(block contracts on the real statements). The transformations as a whole are outside the reach of pyvc (lazy generator "
    "consumed while the tree it walks is mutated) and are bounded only.",
    "grouping loop and block contracts proved, the property itself bounded (exhaustive shapes n<=5 x head assignments); 'other'")
_pb("C13", "contract-based deductive verification (pyvc) of the mover steps of the three punctuation transformations and of the guards in front of them (a move never empties a constituent: verylow, root, symetrify); bounded stand-in for the documented postconditions",
    "Each re-attachment step keeps links consistent and moves only the punctuation token, and for all three transformations "
    "the real guard expression in front of the step implies that the parent the token is taken from has at least two "
    "children (so it keeps one). Where the tokens end up (the three documented postconditions) is bounded only.",
    "block contracts and guard lemmas proved, placement postconditions bounded; 'other'")
_pb("C15", "contract-based deductive verification (pyvc) of negra_mark_heads, of transformconst.get_headpos_by_rule (four nested loops over a symbolic rule table, parse_label contract) and of mark_heads_by_rules (preset selection with its ValueError clauses, marking loop over the preorder/children contracts, heap frame on the head flag); bounded cross-check on enumerated trees",
    "negra_mark_heads is proved for every well-formed tree: after the call every constituent below the argument has exactly the "
    "child selected by the NeGra heuristic (leftmost HD, else rightmost NK, else leftmost) marked as head and all other children "
    "marked as non-head, the root is unmarked, and only head flags are written. get_headpos_by_rule is proved for every rule "
    "table, parent label and child label list: categories are compared lower-cased and through parse_label (so without "
    "function, index or head decorations); when exactly one child's category is listed in the head rules of the parent's "
    "category (before a rule with an empty priority list, which ends the search) that child is returned; with several listed "
    "the result is a listed child; with none it is the last / first child as the empty rule says, else the first; an "
    "unknown parent category gives the default. mark_heads_by_rules is proved over that contract: ValueError exactly for "
    "both / neither rule source, an unknown preset or a non-empty rule file name; otherwise the root is unmarked and every "
    "constituent has exactly one child marked as head, all others as non-head, the marked position being one the contract of "
    "get_headpos_by_rule allows for the table the parameters select (negra, ptb, or none). The two preset tables are large "
    "constants and enter the proof as opaque dicts (only 'every rule names a known direction' is used).",
    "every clause of the property is a discharged obligation; claimed as 'other' because the evidence also carries the "
    "bounded cross-check and because str.lower / str.split / the ghost theory of well-formed trees are trusted")

_pb("C01", "contract-based deductive verification (pyvc) of export_parse_line (field map, v3/v4 detection, raises clauses, gf_split over the contract of parse_label), of one step of the bracket automaton (loop body of treeinput.brackets: invariant, safety, unreachable branches, per-sentence reset) and of the sentence-closing block of treeinput.export, as block contracts; bounded stand-in (independent decoders, exhaustive bracket token-class sequences) for the readers",
    "export_parse_line is proved for every line: the six fields are the whitespace-separated columns (dummy lemma inserted for "
    "three-column files), parent_num is the integer of the last column, IndexError iff fewer than five columns, ValueError iff "
    "too few fields / non-integer / out-of-range parent, and with gf_split label and edge are rebuilt from the named result of "
    "parse_label. One step of the bracket automaton (the real body of the lexer loop of treeinput.brackets, for every state, "
    "stack, counter and token class, parameter sets without disco / replace_parens) keeps the invariant state in {0,1,2,3,4,5,9}, "
    "level == len(stack), state == 0 iff level == 0, token counter >= 1, raises only ValueError, never reaches an 'unknown "
    "state' branch, never indexes the stack out of range, yields at most one tree (the bottom of the stack, with the current "
    "sentence id) and then resets stack / state / level / token counter and advances the sentence counter by one. The block "
    "that closes a sentence in treeinput.export sets the sentence id (count with `continuous`, else the #BOS number), yields "
    "exactly that tree and resets the per-sentence state. The lexer, tree building and the readers as generators over files "
    "are bounded only.",
    "proof for the export field map, the automaton step and the two reset blocks, bounded stand-in for the readers; 'other'")
_pb("C07", "contract-based deductive verification (pyvc) of LabelGenerator.next (fresh labels: counter strictly increasing) and of MarkovLabelGenerator.next (two loops, ghost prefix sequences; verified as a block over the whole body); bounded stand-in (compose of binarization chains, exhaustive rule space) for binarization",
    "LabelGenerator.next returns '@' + decimal(counter+1) + 'X' and increments the counter by one (so deterministic "
    "binarization labels are pairwise distinct). MarkovLabelGenerator.next returns '@' + the first min(v, len(vert)) vertical "
    "context entries each behind '^' + the min(h, pos+1) right-hand-side labels walking left from position pos+1, each behind "
    "'-' and followed by its fan-out unless `nofanout` + 'X', without IndexError for the positions binarize_rule passes, and "
    "terminates. That binarization preserves the yield function (linsub, binarize_rule, the reorderings) is bounded only.",
    "proof for the two label generators only, the property itself bounded (rule space exhaustive up to the bound); 'other'")
_pb("C10", "contract-based deductive verification (pyvc) of transitions.topdown (reversed preorder of node actions; ValueError iff not binarized / heads missing) and of _inorder / inorder (recursion: the sequence equals the recursively defined in-order sequence); bounded stand-in: three replay automata",
    "topdown is proved to emit, for every well-formed tree, exactly one action per node in reversed preorder (SHIFT / UNARY-label "
    "/ BINARY-side-label with the side of the head child) and to raise ValueError exactly when some node has more than two "
    "children or a binary node lacks head marks. _inorder is proved, for trees of any arity, to return exactly the sequence "
    "defined by IO(x) = seg(c0) ++ [PJ-label(x)] ++ seg(c1) ++ ... ++ [REDUCE] over the children in order of their leftmost "
    "token (seg = SHIFT for a token, IO(c) for a constituent), and inorder to return it next to one (word, tag) pair per "
    "token. That replaying rebuilds the tree, and the gap system, are bounded only.",
    "proof of the shape of the top-down and in-order sequences, replay soundness bounded; 'other'")

_pb("C06", "contract-based deductive verification (pyvc) of four blocks of grammar.extract as block contracts: the counting block (one occurrence added, nothing else changed), the bare rule + token map, the shape of the linearization (one argument per terminal block), the vertical context; bounded stand-in (instantiate-and-compare oracle, reference grammar) for the extracted rules",
    "The counting block of extract adds exactly one occurrence to the entry (rule, linearization, vertical context) and "
    "changes no other entry (block contract on the real statements over an arbitrary nested dict). For every constituent of "
    "every well-formed tree: the bare rule is the label of the node followed by the labels of its children in order of their "
    "least token, and the token map sends exactly the numbers of the tokens below the k-th child to k (nested loops; lemmas "
    "distinct_numbers, tokens_have_places over the tree theory); the linearization has exactly one argument per terminal block "
    "(= set-based gap degree + 1, over the contract of terminal_blocks), no argument is empty, every element refers to an "
    "existing right-hand-side position, neighbours differ, no KeyError / IndexError; the vertical context has one entry per "
    "dominating node, bottom-up, label followed by the decimal block count. That the linearization instantiates to the yield "
    "of the node (the within-position counters) and extraction over whole treebanks are bounded only. The lexicon block "
    "adds exactly one to the count of the token's (word, tag) - 0 when absent, a fresh table for an unknown word - and changes "
    "no other count (Counter([]) / Counter.update([k]) modelled as a table of counts).",
    "block contracts proved, the yield-instantiation of the extracted rules bounded; 'other'")
_pb("C08", "contract-based deductive verification (pyvc) of the five counting blocks of binarize_rule and extract and of the lexicon block of extract as block contracts (count = previous count + amount, no other entry changes); bounded stand-in for the conservation equations",
    "Each of the four counting blocks of binarize_rule and the one of extract is located in the real AST and proved on an "
    "arbitrary nested dict: afterwards the entry holds its previous count (0 if absent) plus the amount and no other entry "
    "has changed -- the 'sum, never only the last one seen' clause of the property (this obligation fails with a counter-model on "
    "the pre-fix code). The conservation equations over whole grammars are bounded only.",
    "block contracts proved, conservation equations bounded; 'other'")

_pb("C14", "contract-based deductive verification (pyvc) of the loop bodies of _uncollapse_unary_chains, _collapse_unary_chains and _binarize_tree as block contracts (allocation, label split/concatenation/@-label, re-linking, frame); bounded stand-in for the round trips",
    "Uncollapse step: a fresh node is inserted between `tree` and its former parent, label(unary) + '+' + label'(tree) is "
    "the old label and label(unary) has no '+', every other field is copied, nothing else changes, links stay consistent and "
    "`top` stays the first node inserted (so the topmost node is returned). Collapse step: the label becomes "
    "label(tree) + '+' + label(only child), the child's ordered children become tree's children and point to it, a token "
    "child's num/word/lemma are pulled up, nothing else changes. Binarization step: one fresh head-marked node labelled '@' "
    "(bare) or '@' + the parent label without its co-index (over the proved contracts of parse_label/format_label) and the "
    "outermost remaining child on the side away from the head are appended to the current node, the direction turns right at "
    "the head, nothing else changes. All on an arbitrary heap, for every label string. The composition over iterations and "
    "recursion, the final two children of binarization, the rejection of unmarked nodes and the round trips are bounded only.",
    "block contracts proved for one iteration of each of the three loops, the property itself bounded; 'other'")
PROPS["C16"]["technique"] = ("contract-based deductive verification (pyvc VCs from the real AST, z3) of gap_degree_node, has_gaps, gap_type, "
                             "terminal_blocks, gap_degree, SentenceCount.run, PosTags.run, GapDegree.run, disco_order (recursion), lemma three_way "
                             "over the contracts of gap_degree, treeoutput.brackets (C02) and the linearization block of grammar.extract (C06) + bounded "
                             "stand-in for the printed reports and 'identity order for a continuous tree'")
PROPS["C16"]["explanation"] = ("Proved for all inputs: gap_degree_node == set-based gap degree, has_gaps, gap_type classification, "
                               "terminal_blocks partitions T(node) into its maximal runs in order with |blocks| = gap degree + 1, "
                               "gap_degree is the maximum over the nodes in preorder, the counting tasks add exactly one per sentence / "
                               "token tag / gap degree class (loop invariants and recursive count specs, no bound). The contracts of "
                               "trees.preorder, trees.terminals and trees.children used at call sites are verified under C19. disco_order of a binarized tree lists exactly the tokens below the node, each once "
                               "(both modes; recursion with a decreasing rank). Lemma three_way: gap_degree(tree) > 0 iff the bracket writer's refusal "
                               "condition holds iff the linearization block of extract builds more than one argument for some constituent below "
                               "the tree (is_contextfree is under contract in C09 over opaque linearization keys; fan_out only for its first entry). Printed reports and that the reordering "
                               "is the identity on continuous trees are bounded only.")
PROPS["C19"]["technique"] = ("contract-based deductive verification (pyvc, read-only heap with ghost depth/anc/pos/rank) of terminals, children, "
                             "preorder, postorder, levels, right_sibling, left_sibling, dominance, lca + lemmas (siblings inverse, lca lowest; two "
                             "list lemmas in Lean); bounded stand-in for the export numbering and for the ghost theory")
PROPS["C19"]["explanation"] = ("terminals (only tokens below the node, strictly increasing numbers, exactly as many as there are; recursion with a "
                               "decreasing rank; sorted() modelled as an ordered permutation) and children (a permutation of the stored child "
                               "list in strict order of least token) are proved against these characterisations; right_sibling/left_sibling "
                               "(neighbours in the ordered child list, mutually inverse), dominance (parent chain to the root, with termination) "
                               "and lca (none iff one dominates the other; otherwise the lowest common dominator) are proved for every "
                               "well-formed tree of any size over the contracts of children/terminals. preorder and postorder (recursive generators, "
                               "nested loop invariants) are proved to yield the recursively defined lists P / Q: every node below the argument "
                               "exactly once, the argument first / last, ancestors before / after their descendants. levels (three nested loops, two "
                               "dicts) records for exactly the constituents below the argument the longest downward path to a token and lists "
                               "each under that height. terminals is also proved complete (every token below occurs), and the list lemma that "
                               "makes such a strictly ordered enumeration unique is proved in Lean and re-checked on every run. The export "
                               "numbering is bounded only; the ghost theory of well-formed trees is validated on enumerated trees.")
PROPS["C19"]["level_text"] = "proof for terminals/children/preorder/postorder/levels/siblings/dominance/lca, bounded stand-in for the export numbering; 'other'"

PROPS["C10"]["assumptions"] = PROPS["C10"]["assumptions"] + [
    "gap system: the replay automaton puts the deque back onto the stack top-first (the convention of transitions.gap "
    "and of the repository's own golden test TRANS_DISCONT_GAP_TRANSITIONS); this is the reverse of the order in Coavoux "
    "& Crabbe (2017). Under the published order the emitted sequences do not rebuild trees in which two or more items are "
    "gapped at once (e.g. (VROOT (NP (VP 1 4) 2) 3), and the repository's sample sentence): 'the corresponding automaton' "
    "of the property is read as the one the generator is written for (DESIGN 12)"]

_pb("C03", "contract-based deductive verification (pyvc) of treeoutput.export_format for the clause 'absent lemma / morphology / edge can still be written' (contract shared with C02) and of the loop body of misc.options_dict (key:value option parsing) as a block contract; bounded stand-in: the real CLI as a subprocess over all 4x5 format pairs, chains, encodings, gzip, directory mode",
    "The clause that trees without lemma, morphology or edge information can still be written in the formats that have "
    "those fields is, for the export format (v3 and v4), the contract of export_format: '--' is written for each absent "
    "field, no exception is possible, nothing but the three defaults is stored (all obligations discharged, no bound). "
    "The option parser every command-line run goes through is proved per option string: without ':' the option maps to "
    "True, otherwise the stripped option is split at ':' and its first part maps to int(second part) when that is all "
    "digits, else to the second part as a string; exactly one entry is stored and no exception is possible (for ASCII "
    "values). Everything else of the property - conversions through the command line terminate successfully and are "
    "lossless for every format pair, chain, encoding, compression and directory mode - is not a statement about a function "
    "within reach of the verifier (argparse, files, codecs, process exit status) and is decided by the bounded stand-in only.",
    "proof for the absent-field clause of the export writer and for the option parser, the property itself bounded "
    "(about 190 CLI runs in the quick tier); 'other'")
