"""Helpers shared by the C15 / C19 / C20 bounded oracles: spec decoration with
explicit stored child orders and unary chains, and a reference navigation
model computed from the links of a built tree (never through /repo code).
"""
import itertools
from vlib import tg

LABS = ["S", "NP", "VP"]


# ----------------------------------------------------------------------------
# shape -> spec with a chosen stored order of every child list
# ----------------------------------------------------------------------------

def _mk_leaf(num, edge="--"):
    return tg.leaf_spec(num, "w%d" % num, "NN", edge)


def _finish_root(spec):
    spec["e"] = "--"
    spec["sid"] = 1
    return spec


def spec_with_order(shape, order_fn, unary="none"):
    """decorate `shape`; `order_fn(kids, depth, idx)` returns the stored order of
    a child list (kids come in leftmost-token order).  unary: 'none' |
    'leaves' (a unary constituent above every token) | 'inner' (a unary
    constituent above every non-root constituent) | 'chain' (two above every
    token, one above every inner node, and a unary root)."""
    cnt = itertools.count()

    def lab():
        return LABS[next(cnt) % len(LABS)]

    def wrap(spec, times):
        for _ in range(times):
            spec = tg.node_spec(lab(), [spec])
        return spec

    def rec(sh, depth):
        if isinstance(sh, int):
            sp = _mk_leaf(sh)
            k = {"none": 0, "leaves": 1, "inner": 0, "chain": 2}[unary]
            return wrap(sp, k)
        kids = [rec(c, depth + 1) for c in sh]
        kids = list(order_fn(kids, depth, next(cnt)))
        node = tg.node_spec(lab(), kids)
        k = {"none": 0, "leaves": 0, "inner": 1, "chain": 1}[unary]
        return wrap(node, k)

    if isinstance(shape, int):
        top = tg.node_spec("VROOT", [rec(shape, 1)])
    else:
        kids = [rec(c, 1) for c in shape]
        kids = list(order_fn(kids, 0, next(cnt)))
        top = tg.node_spec("VROOT", kids)
        if unary == "chain":
            top["l"] = "S"
            top = tg.node_spec("VROOT", [top])
    return _finish_root(top)


def rot(r):
    def f(kids, depth, idx):
        k = r % len(kids)
        return kids[k:] + kids[:k]
    return f


def rev(kids, depth, idx):
    return kids[::-1]


def shuf(rng):
    def f(kids, depth, idx):
        kids = list(kids)
        rng.shuffle(kids)
        return kids
    return f


def max_arity(shape):
    if isinstance(shape, int):
        return 1
    return max([len(shape)] + [max_arity(c) for c in shape])


def all_stored_orders(shape):
    """every combination of permutations of every child list (plain labels)"""
    cnt = itertools.count()

    def rec(sh):
        if isinstance(sh, int):
            yield _mk_leaf(sh)
            return
        for combo in itertools.product(*[list(rec(c)) for c in sh]):
            for perm in itertools.permutations(combo):
                yield ("N", list(perm))

    def finish(x, top=False):
        if isinstance(x, dict):
            return dict(x)
        kids = [finish(k) for k in x[1]]
        return tg.node_spec("VROOT" if top else LABS[next(cnt) % len(LABS)], kids)

    if isinstance(shape, int):
        yield _finish_root(tg.node_spec("VROOT", [_mk_leaf(shape)]))
        return
    for x in rec(shape):
        yield _finish_root(finish(x, True))


def order_variants(shape, rng, exhaustive_perms):
    """specs for one shape: all permutations (if asked) or every rotation,
    the reversal and one seeded shuffle; plus the unary decorations"""
    seen = set()

    def emit(spec):
        k = tg.spec_str(spec)
        if k in seen:
            return None
        seen.add(k)
        return spec

    out = []
    if exhaustive_perms:
        for spec in all_stored_orders(shape):
            s = emit(spec)
            if s is not None:
                out.append(s)
    else:
        for r in range(max_arity(shape)):
            s = emit(spec_with_order(shape, rot(r)))
            if s is not None:
                out.append(s)
        s = emit(spec_with_order(shape, rev))
        if s is not None:
            out.append(s)
        s = emit(spec_with_order(shape, shuf(rng)))
        if s is not None:
            out.append(s)
    for un in ("leaves", "inner", "chain"):
        s = emit(spec_with_order(shape, rot(1), un))
        if s is not None:
            out.append(s)
    s = emit(spec_with_order(shape, rev, "chain"))
    if s is not None:
        out.append(s)
    return out


# ----------------------------------------------------------------------------
# reference navigation model of a built tree (links only, no /repo functions)
# ----------------------------------------------------------------------------

class Nav(object):
    def __init__(self, root):
        self.root = root
        self.nodes = tg.all_nodes(root)
        self.ys = tg.model(root)["yield"]
        self.lm = dict((id(n), min(self.ys[id(n)])) for n in self.nodes)
        self.byid = dict((id(n), n) for n in self.nodes)
        self.height = {}
        self._h(root)
        self.name = {}
        for n in self.nodes:
            if len(n.children) == 0:
                self.name[id(n)] = "t%d" % n.data["num"]
            else:
                self.name[id(n)] = "%s%s" % (n.data["label"], sorted(self.ys[id(n)]))

    def _h(self, n):
        if len(n.children) == 0:
            self.height[id(n)] = 0
        else:
            self.height[id(n)] = 1 + max(self._h(c) for c in n.children)
        return self.height[id(n)]

    def kids(self, n):
        return sorted(n.children, key=lambda c: self.lm[id(c)])

    def toks(self, n):
        return sorted([x for x in self.sub(n) if len(x.children) == 0],
                      key=lambda x: x.data["num"])

    def sub(self, n):
        """n and everything below it"""
        out, stack = [], [n]
        while stack:
            x = stack.pop()
            out.append(x)
            stack.extend(x.children)
        return out

    def chain(self, n):
        out = [n]
        while out[-1].parent is not None:
            out.append(out[-1].parent)
        return out

    def dominates(self, a, b):
        """reflexive"""
        return any(x is a for x in self.chain(b))

    def nm(self, n):
        if n is None:
            return None
        return self.name.get(id(n), "<foreign node %r>" % (getattr(n, "data", {}).get("label"),))

    def nms(self, seq):
        return [self.nm(x) for x in seq]


def same_seq(a, b):
    return len(a) == len(b) and all(x is y for x, y in zip(a, b))


def stored_order_nontrivial(spec):
    """key when some child list is stored out of token order, some node is
    discontinuous or unary; None for the plain sorted continuous tree"""
    def lm(s):
        return min(l["n"] for l in tg.spec_leaves(s))
    for s, _ in tg.spec_nodes(spec):
        if tg.is_leaf_spec(s):
            continue
        ks = [lm(c) for c in s["c"]]
        if ks != sorted(ks) or len(ks) == 1:
            return tg.spec_str(spec)
        if tg.gap_degree_of_set([l["n"] for l in tg.spec_leaves(s)]) > 0:
            return tg.spec_str(spec)
    return None
