"""C12 bounded stand-in: root_attach against the set-based reference of DESIGN section 5.

Clauses
  matches_reference      root_attach(t) == ref_root_attach(t) up to node identity and stored child order
  only_root_children_move every node that is not a child of the root keeps its parent; tokens, labels,
                         edges unchanged; the node returned is the root that was passed in
  documented_rule        two prose clauses of the property checked on the result without the sequential
                         reference: a root child at the sentence start/end stays; a root child that moved
                         hangs below a constituent that dominates its left neighbour token and a token to
                         its right (the "lowest" part is covered by matches_reference)
"""
from vlib import tg
from bounded import lib_transform as L

RULE = ("all tree shapes with n<=N tokens (every partition of the tokens into root children, every "
        "nesting: adjacent, interleaved, separated root children, root children inside gaps of "
        "discontinuous constituents, at the sentence edges), one random decoration each (unary "
        "wrappers, shuffled stored child order), plus seeded random trees up to n=10 with flat "
        "roots; each (clause, tree) is one evaluation; non-trivial = distinct tree on which the "
        "reference moves at least one root child")


def BOUNDS(ctx):
    return {"exhaustive_shapes_n": 6 if ctx.quick else 7,
            "random_trees": 400 if ctx.quick else 8000, "random_max_n": 10,
            "flat_root_trees": 300 if ctx.quick else 4000}


SITES = {
    "matches_reference": "trees.transform.root_attach",
    "only_root_children_move": "trees.transform.root_attach",
    "documented_rule": "trees.transform.root_attach",
}


def _run(ctx, spec):
    spec = L.uidify(spec)
    trees, tr = ctx.mod("trees"), ctx.mod("transform")
    t = tg.build(spec, trees)
    try:
        res = tr.root_attach(t)
    except Exception as e:
        return spec, t, None, "raised %s: %s" % (type(e).__name__, e)
    return spec, t, res, None


def _basic(spec, t, res, err):
    if err is not None:
        return ("root_attach returns the tree", err)
    if res is not t:
        return ("returns the root that was passed in", "another node (%r)" % (res and res.data.get("label"),))
    errs = tg.wf_errors(res, expect_n=len(L.tokens(spec)))
    if errs:
        return ("a well-formed tree", {"wf_errors": errs[:4]})
    return None


def c_matches_reference(ctx, spec):
    spec, t, res, err = _run(ctx, spec)
    b = _basic(spec, t, res, err)
    if b:
        return b
    exp = L.ref_root_attach(spec)
    got = L.real_spec(res)
    if L.canon(got) != L.canon(exp):
        return ({"tree": L.show(exp)}, {"tree": L.show(got)})
    return None


def c_only_root_children_move(ctx, spec):
    spec, t, res, err = _run(ctx, spec)
    b = _basic(spec, t, res, err)
    if b:
        return b
    got = L.real_spec(res)
    pm0, pm1 = L.parent_map(spec), L.parent_map(got)
    root_uid = L.xget(spec, "uid")
    if sorted(pm0) != sorted(pm1):
        return ("same node set", "nodes %s vs %s" % (sorted(pm0), sorted(pm1)))
    for u in pm0:
        if pm0[u] != root_uid and pm0[u] != pm1[u]:
            return ("node %s (not a root child) keeps parent %s" % (u, pm0[u]), "parent %s" % pm1[u])
    flat0 = sorted((L.xget(s, "uid"), L.canon(dict((k, v) for k, v in s.items() if k != "c")))
                   for s, _ in L.all_specs(spec))
    flat1 = sorted((L.xget(s, "uid"), L.canon(dict((k, v) for k, v in s.items() if k != "c")))
                   for s, _ in L.all_specs(got))
    if flat0 != flat1:
        return ("tokens, labels and edges unchanged", [a for a, b2 in zip(flat0, flat1) if a != b2][:3])
    return None


def c_documented_rule(ctx, spec):
    """the prose clauses, checked on the result without the sequential reference"""
    spec, t, res, err = _run(ctx, spec)
    b = _basic(spec, t, res, err)
    if b:
        return b
    got = L.real_spec(res)
    n = len(L.tokens(spec))
    root_uid = L.xget(spec, "uid")
    pm1 = L.parent_map(got)
    by_uid = {L.xget(s, "uid"): s for s, _ in L.all_specs(got)}
    for c in spec["c"]:
        u = L.xget(c, "uid")
        ys = L.tokset(c)
        moved = pm1[u] != root_uid
        if (min(ys) == 1 or max(ys) == n) and moved:
            return ("root child %s at the sentence start/end stays" % L.show(c), "moved below %s"
                    % by_uid[pm1[u]]["l"])
        if moved:
            tgt = by_uid[pm1[u]]
            rest = L.tokset(tgt) - L.tokset(by_uid[u])
            l = min(ys) - 1
            if l not in rest or not any(x > max(ys) for x in rest):
                return ("the new parent of %s dominates its left neighbour token %d and a token to "
                        "its right" % (L.show(c), l), "new parent %s covers %s" % (tgt["l"], sorted(rest)))
    return None


CLAUSES = {"matches_reference": c_matches_reference,
           "only_root_children_move": c_only_root_children_move,
           "documented_rule": c_documented_rule}


def _nt(spec):
    s = L.uidify(spec)
    return tg.spec_str(spec) if L.canon(L.ref_root_attach(s)) != L.canon(s) else None


def _flat_root_shape(rng, n):
    """a shape whose root has many children: tokens directly below the root next to small
    (possibly discontinuous) constituents"""
    leaves = list(range(1, n + 1))
    k = rng.randint(2, max(2, n - 1))
    while True:
        assign = [rng.randrange(k) for _ in leaves]
        if len(set(assign)) == k:
            break
    blocks = [[l for l, a in zip(leaves, assign) if a == b] for b in range(k)]
    blocks.sort(key=min)

    def sub(ls):
        if len(ls) == 1:
            return ls[0]
        if len(ls) == 2 or rng.random() < 0.5:
            return tuple(ls)
        cut = rng.randint(1, len(ls) - 1)
        parts = [ls[:cut], ls[cut:]]
        return tuple(sorted([sub(p) for p in parts], key=lambda s: min(tg.shape_leaves(s))))
    return tuple(sub(b) for b in blocks)


def generate(ctx):
    b = BOUNDS(ctx)
    rng = ctx.rng
    for n in range(1, b["exhaustive_shapes_n"] + 1):
        for sh in tg.shapes(n):
            spec = L.decorate(sh, rng, "mix", punct_p=0.3, unary_p=0.2)
            k = _nt(spec)
            for c in CLAUSES:
                yield c, spec, k
    for _ in range(b["flat_root_trees"]):
        n = rng.randint(3, b["random_max_n"])
        spec = L.decorate(_flat_root_shape(rng, n), rng, "mix", punct_p=0.3, unary_p=0.15)
        k = _nt(spec)
        for c in CLAUSES:
            yield c, spec, k
    for _ in range(b["random_trees"]):
        n = rng.randint(1, b["random_max_n"])
        spec = L.decorate(tg.random_shape(rng, n, p_flat=0.5), rng, "mix", punct_p=0.3, unary_p=0.2)
        k = _nt(spec)
        for c in CLAUSES:
            yield c, spec, k


def classify(clause, witness, expected, observed):
    return None


def exhaustive(ctx):
    return False   # shapes are exhaustive up to the bound, decorations and the larger trees are samples
