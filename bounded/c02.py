"""C02 bounded stand-in: every writer encodes every tree faithfully.

Contract: for trees built through the Tree API from specs (never through the
readers) and every writer of treeoutput.OUTPUT_FORMATS,

    independent_decode(text written)  ==  the specs seen through the documented option semantics

(sid, tokens, order, labels incl. requested decorations, edges, dominance, as
far as the format carries them), plus the format-specific clauses of the
property.  Clauses named pure_* state "a writer does not change the tree it
writes" (attributed to C18).
"""
import copy
import io
import itertools

from vlib import tg
from bounded.common import Skip
from bounded import lib_formats as lf

RULE = ("trees built with tg.build from all shapes with n<=N tokens (every discontinuous shape included) plus "
        "seeded random trees with unary chains and shuffled child lists, words from a pool with punctuation, "
        "parentheses, XML-special, non-ASCII characters and lengths 7/8/15/16/23/24/25/31/32/40 (lemma likewise, "
        "morph 7/8/15/16/17/24), POS tags with a bracket character ('$(' / '$[') on parenthesis/quote tokens, "
        "head/split marks on random nodes; "
        "(1) every tree x every writer x a rotating option subset, (2) every subset of the output options a "
        "writer looks at x a rotating tree, (3) every way of leaving lemma/morph/edge absent (None); "
        "one evaluation = (corpus of 1..2 trees, writer, option subset); non-trivial = distinct "
        "(writer, options, tree) whose tree is discontinuous or whose options/absent fields are non-empty; "
        "(4) export v3/v4 lines with one field (word, lemma, morph) of every length around and beyond the "
        "tab stops 8/16/24/32/40")


def BOUNDS(ctx):
    return {"exhaustive_shapes_n": 4 if ctx.quick else 5,
            "random_trees": 60 if ctx.quick else 1500, "random_max_n": 9 if ctx.quick else 12,
            "trees_per_option_subset": 3 if ctx.quick else 20,
            "option_subsets": "all (export 2^7, brackets 2^8, discobrackets 2^7, terminals 2^2 + pos_only)"}


SITES = {
    "write_export": "trees.treeoutput.export",
    "export_tabstops": "trees.treeoutput.export_format",
    "write_brackets": "trees.treeoutput.brackets",
    "brackets_refuses_disco": "trees.treeoutput.brackets",
    "write_discobrackets": "trees.treeoutput.discobrackets",
    "write_tigerxml": "trees.treeoutput.tigerxml",
    "write_terminals": "trees.treeoutput.terminals",
    "absent_field_export": "trees.treeoutput.export_format",
    "absent_field_brackets": "trees.trees.get_label",
    "absent_field_discobrackets": "trees.trees.get_label",
    "absent_field_tigerxml": "trees.treeoutput.tigerxml",
    "pure_export": "trees.treeoutput.export",
    "pure_brackets": "trees.treeoutput.write_brackets_subtree",
    "pure_discobrackets": "trees.treeoutput.discobrackets",
    "pure_tigerxml": "trees.treeoutput.tigerxml",
    "pure_terminals": "trees.treeoutput.terminals",
}

OPTS = {
    "export": ["gf", "gf_separator", "gf_terminals", "mark_heads_marking", "boyd_split_marking",
               "boyd_split_numbering", "export_four"],
    "brackets": ["gf", "gf_separator", "gf_terminals", "mark_heads_marking", "boyd_split_marking",
                 "boyd_split_numbering", "brackets_emptyroot", "brackets_skipdisco"],
    "discobrackets": ["gf", "gf_separator", "gf_terminals", "mark_heads_marking", "boyd_split_marking",
                      "boyd_split_numbering", "brackets_emptyroot"],
    "tigerxml": [],
    "terminals": ["terminals_one", "terminals_pos"],
}


def _mk_opts(names):
    return {n: ("#" if n == "gf_separator" else True) for n in names}


def _exc(e):
    return "raised %s: %s" % (type(e).__name__, str(e)[:200])


def run_writer(ctx, fmt, specs, opts):
    """-> (text, exception or None, trees, index of the tree being written when it raised)"""
    to, trees = ctx.mod("treeoutput"), ctx.mod("trees")
    stream = io.StringIO()
    ts = [tg.build(s, trees) for s in specs]
    i = -1
    try:
        getattr(to, fmt + "_begin")(stream, **dict(opts))
        for i, t in enumerate(ts):
            getattr(to, fmt)(t, stream, **dict(opts))
        i = len(ts)
        getattr(to, fmt + "_end")(stream, **dict(opts))
    except Exception as e:
        return stream.getvalue(), e, ts, i
    return stream.getvalue(), None, ts, i


# ----------------------------------------------------------------------------
# expectation
# ----------------------------------------------------------------------------

def deco_parts(s, is_leaf, opts):
    """decorations the options ask for on this node (documented order: function, head mark, split
    mark, split number); any order of the parts is accepted when comparing"""
    parts = []
    x = s.get("x", {})
    edge = s.get("e")
    if "gf" in opts and (not is_leaf or "gf_terminals" in opts) and edge not in (None, lf.EMPTY):
        parts.append(str(opts.get("gf_separator", "-")) + edge)
    if "mark_heads_marking" in opts and x.get("head"):
        parts.append("'")
    if "boyd_split_marking" in opts and x.get("split"):
        parts.append("*")
    if "boyd_split_numbering" in opts and x.get("split"):
        parts.append(str(x.get("block_number")))
    return parts


def expected_specs(fmt, specs, opts):
    out = []
    for spec in specs:
        def leaf_fn(l):
            for f in ("e", "m", "lem"):
                if l.get(f) is None:
                    l[f] = lf.EMPTY
            if fmt in ("brackets", "discobrackets"):
                # "bracket formats map parentheses inside tokens to the documented names": a token is
                # its word and its POS tag (and the function appended to the tag with gf_terminals)
                for f in ("w", "l", "e"):
                    l[f] = lf.ref_replace_parens(l[f])
            if fmt in ("export", "brackets", "discobrackets"):
                parts = deco_parts(l, True, opts)
                l["_accept"] = [l["l"] + "".join(p) for p in itertools.permutations(parts)]
                l["l"] = l["_accept"][0]

        def node_fn(n):
            if n.get("e") is None:
                n["e"] = lf.EMPTY
            if fmt in ("export", "brackets", "discobrackets"):
                parts = deco_parts(n, False, opts)
                n["_accept"] = [n["l"] + "".join(p) for p in itertools.permutations(parts)]
                n["l"] = n["_accept"][0]
        # decorations are computed from the ORIGINAL edge (None = absent = nothing to append)
        s = lf.map_spec(spec, None, None)
        for sub, _ in tg.spec_nodes(s):
            if tg.is_leaf_spec(sub):
                leaf_fn(sub)
            else:
                node_fn(sub)
        if fmt in ("brackets", "discobrackets") and "brackets_emptyroot" in opts:
            s["l"] = ""
            s["_accept"] = [""]
        if fmt == "export":
            s["l"] = spec["l"]       # the virtual root is not written: nothing to decorate
            s["_accept"] = [spec["l"]]
        out.append(s)
    return out


def align_labels(exp, got):
    """where the decoded label is one of the accepted orders of the decorations, take it as the
    canonical one (walks both trees in parallel; any structural difference is left for canon)"""
    if tg.is_leaf_spec(exp) != tg.is_leaf_spec(got):
        return
    if got.get("l") in exp.get("_accept", ()):
        got["l"] = exp["l"]
    if not tg.is_leaf_spec(exp):
        a = sorted(exp["c"], key=lf._minleaf)
        b = sorted(got["c"], key=lf._minleaf)
        if len(a) == len(b):
            for x, y in zip(a, b):
                align_labels(x, y)


def _compare(exp, got, lfld, nfld, sid):
    if len(exp) == len(got):
        for a, b in zip(exp, got):
            align_labels(a, b)
    d = lf.first_diff_t(lf.canon_corpus(exp, lfld, nfld, sid), lf.canon_corpus(got, lfld, nfld, sid))
    if d is not None:
        return ({"at": d[0], "expected": d[1]}, {"kind": "content", "at": d[0], "got": d[2]})
    return None


# ----------------------------------------------------------------------------
# clauses
# ----------------------------------------------------------------------------

def c_write_export(ctx, w):
    specs, opts = w["specs"], w.get("opts", {})
    text, err, _, _ = run_writer(ctx, "export", specs, opts)
    if err is not None:
        return ("export lines for %d trees" % len(specs), {"kind": "exception", "what": _exc(err)})
    try:
        table = lf.dec_export_table(text)
    except lf.DecodeError as e:
        return ("well-formed export text", {"kind": "undecodable", "what": str(e), "text": text[:300]})
    version = 4 if "export_four" in opts else 3
    if len(table) != len(specs):
        return ("%d sentences" % len(specs), {"kind": "count", "got": len(table)})
    for sent, spec in zip(table, specs):
        n = len(tg.spec_leaves(spec))
        rows = sent["rows"]
        if sent["sid"] != spec["sid"] or sent["eos"] != spec["sid"]:
            return ("#BOS/#EOS %d" % spec["sid"], {"kind": "sid", "got": [sent["sid"], sent["eos"]]})
        if any(r["version"] != version for r in rows):
            return ("export v%d lines" % version, {"kind": "version", "text": text[:300]})
        is_ref = [bool(lf._NODE_REF.match(r["word"])) for r in rows]
        if any(is_ref[:n]) or not all(is_ref[n:]):
            return ("the %d tokens first, then the constituents" % n, {"kind": "order", "words": [r["word"] for r in rows]})
        nums = [int(r["word"][1:]) for r in rows[n:]]
        if len(set(nums)) != len(nums) or (nums and (min(nums) != 500 or max(nums) > 999)):
            return ("constituents numbered uniquely from 500", {"kind": "numbering", "nums": nums})
        if nums != sorted(nums):
            return ("constituent lines in ascending order of their number", {"kind": "numbering-order", "nums": nums})
        for r in rows:
            if r["parent"] != 0 and r["parent"] not in nums:
                return ("every parent reference resolves", {"kind": "dangling-parent", "line": r["raw"]})
        for r, num in zip(rows[n:], nums):
            if r["parent"] != 0 and not num < r["parent"]:
                return ("children numbered below their parent", {"kind": "child-above-parent", "line": r["raw"]})
    try:
        got = [lf.export_sentence_to_spec(s) for s in table]
    except lf.DecodeError as e:
        return ("export text that decodes to a tree", {"kind": "undecodable", "what": str(e), "text": text[:300]})
    lfld, nfld, _ = lf.CARRY["export%d" % version]
    return _compare(expected_specs("export", specs, opts), got, lfld, nfld, True)


def c_export_tabstops(ctx, w):
    """Brants' layout: word (and lemma) columns 24 wide, tag 8, morph 16, edge 8, tab stops every 8:
    the number of tabs after a field depends on its length (boundaries 7/8 and 15/16)"""
    specs, opts = w["specs"], w.get("opts", {})
    text, err, _, _ = run_writer(ctx, "export", specs, opts)
    if err is not None:
        raise Skip()          # judged by write_export / absent_field_export
    try:
        table = lf.dec_export_table(text)
    except lf.DecodeError:
        raise Skip()
    for sent in table:
        for r in sent["rows"]:
            f = [r["word"]] + ([r["lemma"]] if r["version"] == 4 else []) + \
                [r["label"], r["morph"], r["edge"], str(r["parent"])]
            want = lf.export_line(f, "aligned")
            if r["raw"] != want:
                return (want, r["raw"])
    return None


def _disc(spec):
    return not lf.spec_is_continuous(spec)


def c_write_brackets(ctx, w):
    specs, opts = w["specs"], w.get("opts", {})
    if any(_disc(s) for s in specs) and "brackets_skipdisco" not in opts:
        raise Skip()
    text, err, _, _ = run_writer(ctx, "brackets", specs, opts)
    if err is not None:
        return ("bracketed trees", {"kind": "exception", "what": _exc(err)})
    keep = [s for s in specs if not _disc(s)]
    try:
        got = lf.dec_brackets(text, empty_root="")
    except lf.DecodeError as e:
        return ("well-formed bracket text", {"kind": "undecodable", "what": str(e), "text": text[:300]})
    if text.count("\n") != len(keep) or not text.endswith("\n") and keep:
        return ("one tree per line", {"kind": "lines", "text": text[:300]})
    lfld, nfld, _ = lf.CARRY["brackets"]
    return _compare(expected_specs("brackets", keep, opts), got, lfld, nfld, False)


def c_brackets_refuses(ctx, w):
    """the bracket writer refuses (ValueError) exactly the discontinuous trees, or skips them
    silently (writes nothing) when asked"""
    spec, opts = w["specs"][0], w.get("opts", {})
    text, err, _, _ = run_writer(ctx, "brackets", [spec], opts)
    disc = _disc(spec)
    if disc and "brackets_skipdisco" not in opts:
        if not isinstance(err, ValueError):
            return ("ValueError for a discontinuous tree", {"kind": "not-refused", "raised": None if err is None else _exc(err), "text": text[:200]})
        if text != "":
            return ("nothing written for a refused tree", {"kind": "partial-output", "text": text[:200]})
        return None
    if err is not None:
        return ("no exception", {"kind": "exception", "what": _exc(err), "discontinuous": disc})
    if disc and text != "":
        return ("nothing written for a skipped tree", {"kind": "skipped-but-written", "text": text[:200]})
    if not disc and text == "":
        return ("continuous tree written", {"kind": "nothing-written"})
    return None


def c_write_disco(ctx, w):
    specs, opts = w["specs"], w.get("opts", {})
    text, err, _, _ = run_writer(ctx, "discobrackets", specs, opts)
    if err is not None:
        return ("discobracket lines", {"kind": "exception", "what": _exc(err)})
    try:
        # documented convention: indices 1..n (docstring of the reader), sentence after a TAB
        got = lf.dec_discobrackets(text, base=1, empty_root="")
    except lf.DecodeError as e:
        return ("well-formed discobracket text", {"kind": "undecodable", "what": str(e), "text": text[:300]})
    if text.count("\n") != len(specs):
        return ("one tree per line", {"kind": "lines", "text": text[:300]})
    lfld, nfld, _ = lf.CARRY["discobrackets"]
    return _compare(expected_specs("discobrackets", specs, opts), got, lfld, nfld, False)


def c_write_tigerxml(ctx, w):
    specs, opts = w["specs"], w.get("opts", {})
    text, err, _, _ = run_writer(ctx, "tigerxml", specs, opts)
    if err is not None:
        return ("TIGER-XML document", {"kind": "exception", "what": _exc(err)})
    try:
        got = lf.dec_tigerxml(text.encode("utf-8"), add_vroot=False)
    except lf.DecodeError as e:
        return ("well-formed TIGER-XML", {"kind": "undecodable", "what": str(e), "text": text[:300]})
    lfld, nfld, _ = lf.CARRY["tigerxml"]
    return _compare(expected_specs("tigerxml", specs, opts), got, lfld, nfld, True)


def c_write_terminals(ctx, w):
    specs, opts = w["specs"], w.get("opts", {})
    text, err, _, _ = run_writer(ctx, "terminals", specs, opts)
    if err is not None:
        return ("the sentences", {"kind": "exception", "what": _exc(err)})
    one, pos, pos_only = "terminals_one" in opts, "terminals_pos" in opts, "pos_only" in opts
    try:
        got = lf.dec_terminals(text, one=one, pos=pos, pos_only=pos_only)
    except lf.DecodeError as e:
        return ("well-formed terminals text", {"kind": "undecodable", "what": str(e), "text": text[:300]})
    exp = []
    for s in specs:
        exp.append([[None if pos_only else l["w"], l["l"] if (pos or pos_only) else None]
                    for l in tg.spec_leaves(s)])
    got = [[list(x) for x in s] for s in got]
    if got != exp:
        return (exp, got)
    return None


_WRITE = {"export": c_write_export, "brackets": c_write_brackets, "discobrackets": c_write_disco,
          "tigerxml": c_write_tigerxml, "terminals": c_write_terminals}


def c_absent(ctx, w):
    return _WRITE[w["fmt"]](ctx, w)


def _snap(root):
    out = []
    for n in tg.all_nodes(root):
        out.append((id(n), copy.deepcopy(n.data), [id(c) for c in n.children],
                    None if n.parent is None else id(n.parent)))
    return out


def c_pure(ctx, w):
    """writing a tree leaves it as it was: same nodes, links and node data"""
    fmt, spec, opts = w["fmt"], w["specs"][0], w.get("opts", {})
    to, trees = ctx.mod("treeoutput"), ctx.mod("trees")
    t = tg.build(spec, trees)
    before = _snap(t)
    stream = io.StringIO()
    try:
        getattr(to, fmt)(t, stream, **dict(opts))
    except Exception:
        pass     # refusal / crash is judged elsewhere; the tree must be untouched all the same
    after = _snap(t)
    diffs = []
    if [x[0] for x in before] != [x[0] for x in after] or \
            [(x[2], x[3]) for x in before] != [(x[2], x[3]) for x in after]:
        diffs.append(["<links>", "structure", None, None])
    else:
        for (i, d0, _, _), (_, d1, _, _) in zip(before, after):
            for k in sorted(set(d0) | set(d1)):
                if d0.get(k, "<absent>") != d1.get(k, "<absent>"):
                    kind = "token" if "num" in d0 and d0.get("word") is not None else "constituent"
                    # Not judged (no later output or computation can observe them, so the property --
                    # which speaks of what is produced -- is not concerned): the writers' bookkeeping
                    # fields (node number of a constituent, parent_num, the '#NNN' pseudo-word of a
                    # constituent) and an absent optional field being filled with its documented default.
                    if k == "parent_num" or (kind == "constituent" and k in ("num", "word")):
                        continue
                    if k in ("edge", "morph", "lemma") and d0.get(k) is None and d1.get(k) == "--":
                        continue
                    diffs.append([kind, k, d0.get(k, "<absent>"), d1.get(k, "<absent>")])
    if diffs:
        return ("node data and links unchanged", {"changed": sorted(set("%s.%s" % (d[0], d[1]) for d in diffs)),
                                                  "first": diffs[:3]})
    return None


CLAUSES = {
    "write_export": c_write_export, "export_tabstops": c_export_tabstops,
    "write_brackets": c_write_brackets, "brackets_refuses_disco": c_brackets_refuses,
    "write_discobrackets": c_write_disco, "write_tigerxml": c_write_tigerxml,
    "write_terminals": c_write_terminals,
    "absent_field_export": c_absent, "absent_field_brackets": c_absent,
    "absent_field_discobrackets": c_absent, "absent_field_tigerxml": c_absent,
    "pure_export": c_pure, "pure_brackets": c_pure, "pure_discobrackets": c_pure,
    "pure_tigerxml": c_pure, "pure_terminals": c_pure,
}


# ----------------------------------------------------------------------------
# defect classes
# ----------------------------------------------------------------------------
PURE_KNOWN = [     # F17: (writer, the fields it is known to overwrite, class)
    ("export", {"constituent.num", "constituent.parent_num", "constituent.word", "token.parent_num"},
     "export-writer-stores-numbering-parent_num-and-#NNN-words-in-the-tree"),
    ("discobrackets", {"token.word"}, "discobrackets-writer-replaces-words-by-indices-in-the-tree"),
    ("tigerxml", {"constituent.num", "token.label", "token.lemma", "token.morph", "token.word"},
     "tigerxml-writer-stores-quoted-attributes-and-numbering-in-the-tree"),
    ("brackets", {"token.word", "token.label", "token.lemma", "token.morph", "token.edge"},
     "brackets-writer-stores-paren-replaced-fields-in-the-tree"),
]

def _words(w):
    return [l["w"] for s in w.get("specs", []) for l in tg.spec_leaves(s)]


def classify(clause, w, expected, observed):
    ob = observed if isinstance(observed, dict) else {}
    kind = ob.get("kind")
    opts = w.get("opts", {})
    if clause.startswith("pure_"):
        changed = set(ob.get("changed", []))
        for fmt, allowed, name in PURE_KNOWN:
            if clause == "pure_" + fmt and changed and changed <= allowed:
                return name
        return "mutates:" + ",".join(sorted(changed))
    if clause.startswith("absent_field_") and kind == "exception":
        what, fmt, absent = ob["what"], w["fmt"], (w.get("absent") or [""])[0]
        if fmt == "export" and "export_four" in opts and "has no len()" in what:
            if absent in ("lem", "node_lemma", "all_lemma"):
                return "export_four-lemma-None-has-no-default"             # F8
            if absent == "m":
                return "export_four-morph-None-default-only-in-v3-branch"
        if fmt == "tigerxml" and "has no attribute 'replace'" in what:
            if absent in ("lem", "all_lemma"):
                return "tigerxml-lemma-None-passed-to-quoteattr"           # F8
            if absent == "m":
                return "tigerxml-morph-None-passed-to-quoteattr"
            if absent in ("e", "node_e"):
                return "tigerxml-edge-None-passed-to-quoteattr"
        if fmt in ("brackets", "discobrackets") and "gf" in opts and "has no attribute 'startswith'" in what \
                and absent in ("e", "node_e", "root_e"):
            return "get_label-edge-None-with-gf"
        return None
    if clause in ("write_discobrackets", "absent_field_discobrackets"):
        if kind == "content" and isinstance(ob.get("got"), str) and lf.has_paren(ob["got"]) \
                and isinstance(expected, dict) and expected.get("expected") == lf.ref_replace_parens(ob["got"]):
            return "discobrackets-writes-tokens-with-raw-parentheses"      # F21
        return None
    return None


# ----------------------------------------------------------------------------
# generation
# ----------------------------------------------------------------------------

def add_marks(spec, rng):
    """head / split flags as mark_heads and boyd_split leave them (on every node)"""
    for s, p in tg.spec_nodes(spec):
        x = dict(s.get("x", {}))
        x["head"] = rng.random() < 0.4
        x["split"] = (not tg.is_leaf_spec(s)) and p is not None and rng.random() < 0.35
        if x["split"]:
            x["block_number"] = rng.randint(1, 3)
        s["x"] = x
    return spec


def _subsets(names):
    for r in range(len(names) + 1):
        for c in itertools.combinations(names, r):
            yield c


ABSENT = ["lem", "m", "e", "node_e", "root_e", "node_lemma", "all_lemma"]


def make_absent(spec, what):
    def lf_(l):
        if what in ("lem", "m", "e"):
            l[what] = None
        if what == "all_lemma":
            l["lem"] = None

    def nf(n):
        if what == "node_e":
            n["e"] = None
        if what in ("node_lemma", "all_lemma"):
            x = dict(n.get("x", {}))
            x["lemma"] = None
            n["x"] = x
    s = lf.map_spec(spec, lf_, nf)
    if what == "node_e":
        s["e"] = "--"
    if what == "root_e":
        s["e"] = None
    return s


WORDS = lf.WORDS_ALL + lf.LONG_FIELDS
MORPHS = lf.MORPHS + lf.LONG_MORPHS
LEMMAS = lf.LEMMAS + lf.LONG_FIELDS[:4]
PAREN_TAGGED = ("(", ")", "\"", "''", "``", "-", "(x)", "[y]", "(()", "a)b)")
POS_PAREN = ["$(", "$(", "$["]


def _specs(ctx, b):
    rng = ctx.rng
    out = list(tg.enum_specs(b["exhaustive_shapes_n"], rng=rng, per_shape=1))
    out += list(tg.random_specs(rng, b["random_trees"], 1, b["random_max_n"], unary_p=0.3, shuffle=True))
    sid = 0
    for s in out:
        lf.decorate(s, rng, words=WORDS, morphs=MORPHS, lemmas=LEMMAS)
        for l in tg.spec_leaves(s):
            # STTS tags parentheses, quotes and dashes "$(": a POS tag with a bracket character
            if (l["w"] in PAREN_TAGGED and rng.random() < 0.7) or rng.random() < 0.05:
                l["l"] = rng.choice(POS_PAREN)
        add_marks(s, rng)
        sid += rng.randint(1, 9)
        s["sid"] = sid
    return out


def _noparen(spec):
    def f(l):
        if lf.has_paren(l["w"]):
            l["w"] = "x" + str(len(l["w"]))
    return lf.map_spec(spec, f)


def _nt(fmt, names, spec, extra=None):
    if names or extra or _disc(spec):
        return (fmt, tuple(names), extra, tg.spec_str(spec))
    return None


def generate(ctx):
    b = BOUNDS(ctx)
    specs = _specs(ctx, b)
    subsets = {f: list(_subsets(OPTS[f])) for f in OPTS}
    subsets["terminals"] = subsets["terminals"] + [("pos_only",), ("pos_only", "terminals_one")]
    # (1) every tree x every writer x rotating option subset (and no option)
    for i, spec in enumerate(specs):
        pair = [spec] if i % 2 == 0 else [spec, specs[i - 1]]
        for fmt in OPTS:
            rot = subsets[fmt][i % len(subsets[fmt])]
            for names in ([(), rot] if rot else [()]):
                w = {"fmt": fmt, "specs": pair, "opts": _mk_opts(names)}
                if fmt == "discobrackets" and i % 3:
                    w["specs"] = [_noparen(x) for x in pair]     # so that F21 does not mask the rest
                if fmt == "brackets":
                    yield "brackets_refuses_disco", {"fmt": fmt, "specs": [spec], "opts": _mk_opts(names)}, _nt(fmt, names, spec)
                    if "brackets_skipdisco" not in names:
                        w["specs"] = [s for s in pair if not _disc(s)]
                        if not w["specs"]:
                            continue
                yield "write_" + fmt, w, _nt(fmt, names, spec)
                if fmt == "export":
                    yield "export_tabstops", w, _nt(fmt, names, spec)
        for fmt in OPTS:
            yield "pure_" + fmt, {"fmt": fmt, "specs": [spec], "opts": {}}, tg.spec_str(spec)
    # (2) every option subset x rotating trees
    k = 0
    for fmt in OPTS:
        for names in subsets[fmt]:
            for _ in range(b["trees_per_option_subset"]):
                k += 1
                spec = specs[(k * 7) % len(specs)]
                if fmt == "brackets":
                    yield "brackets_refuses_disco", {"fmt": fmt, "specs": [spec], "opts": _mk_opts(names)}, _nt(fmt, names, spec)
                    if _disc(spec) and "brackets_skipdisco" not in names:
                        cont = [s for s in specs if not _disc(s)]
                        spec = cont[k % len(cont)]
                if fmt == "discobrackets" and k % 3:
                    spec = _noparen(spec)
                yield "write_" + fmt, {"fmt": fmt, "specs": [spec], "opts": _mk_opts(names)}, _nt(fmt, names, spec)
                if fmt == "export":
                    yield "export_tabstops", {"fmt": fmt, "specs": [spec], "opts": _mk_opts(names)}, _nt(fmt, names, spec)
            if names:
                yield "pure_" + fmt, {"fmt": fmt, "specs": [specs[k % len(specs)]], "opts": _mk_opts(names)}, (names,)
    # (3) absent optional fields
    cont = [s for s in specs if not _disc(s)]
    for j in range(4 if ctx.quick else 40):
        for what in ABSENT:
            for fmt, optsets in (("export", [(), ("export_four",), ("gf",), ("gf", "gf_terminals", "export_four")]),
                                 ("brackets", [(), ("gf",), ("gf", "gf_terminals")]),
                                 ("discobrackets", [(), ("gf",), ("gf", "gf_terminals")]),
                                 ("tigerxml", [()])):
                base = (cont if fmt == "brackets" else specs)[(j * 13 + 5) % (len(cont) if fmt == "brackets" else len(specs))]
                s = make_absent(_noparen(base) if fmt == "discobrackets" else base, what)
                for names in optsets:
                    yield "absent_field_" + fmt, {"fmt": fmt, "specs": [s], "opts": _mk_opts(names), "absent": [what]}, \
                        (fmt, what, names, tg.spec_str(s))


    # (4) export columns: every field length around / beyond the tab stops, one field at a time
    for version_opts in ((), ("export_four",)):
        for field, lengths in (("w", TAB_LENGTHS), ("lem", TAB_LENGTHS), ("m", TAB_MORPH_LENGTHS)):
            for n in lengths:
                if field == "lem" and not version_opts:
                    continue
                a = tg.leaf_spec(1, "x", "NN", "HD", "--", "--")
                a[field] = _FILL[:n]
                bb = tg.leaf_spec(2, "y", "VB", "--", "Nom", "y")
                top = tg.node_spec("VROOT", [tg.node_spec("S", [a, bb], "--")])
                top["sid"] = n
                w = {"fmt": "export", "specs": [top], "opts": _mk_opts(version_opts)}
                yield "write_export", w, ("export", version_opts, field, n)
                yield "export_tabstops", w, ("export", version_opts, field, n)


TAB_LENGTHS = [1, 6, 7, 8, 9, 14, 15, 16, 17, 22, 23, 24, 25, 26, 30, 31, 32, 33, 39, 40, 41, 48, 64]
TAB_MORPH_LENGTHS = [1, 2, 6, 7, 8, 9, 14, 15, 16, 17, 18, 23, 24, 25, 32]
_FILL = "Abcdefgh" * 8


def exhaustive(ctx):
    return False
