"""In-place restructuring of trees, shared by the clauses "analysis / extraction follows the
current structure" of C16 and C06.

A *move* re-attaches one node (a token or a whole constituent) of a tree to another
constituent: {"node": path, "to": path}, paths being lists of child indices in *stored* order
from the root.  The move is carried out
  * on the spec (`move_spec`, a copy: the expectation is computed from it), and
  * on a real tree built from the spec (`move_real`: through the Tree API only -- the
    children lists and the parent pointer -- so that every Tree object stays alive and keeps
    its identity).
`valid_moves` lists exactly the moves that keep the tree well formed: the root stays the root,
the node does not go below itself, the constituent it leaves keeps at least one child, tokens
are untouched.  Nothing here calls the code under test.
"""
import copy

from vlib import tg


def node_at(spec, path):
    for i in path:
        spec = spec["c"][i]
    return spec


def all_paths(spec):
    """preorder list of the paths of all nodes ([] = root)"""
    out = []

    def rec(s, p):
        out.append(p)
        if not tg.is_leaf_spec(s):
            for i, c in enumerate(s["c"]):
                rec(c, p + [i])
    rec(spec, [])
    return out


def _toks(spec):
    return frozenset(l["n"] for l in tg.spec_leaves(spec))


def _is_prefix(p, q):
    return len(p) <= len(q) and q[:len(p)] == p


def valid_moves(spec):
    """every {"node", "to"} that keeps the tree well formed and changes the parent of `node`"""
    paths = all_paths(spec)
    targets = [p for p in paths if not tg.is_leaf_spec(node_at(spec, p))]
    out = []
    for p in paths:
        if not p:
            continue
        parent = p[:-1]
        if len(node_at(spec, parent)["c"]) < 2:
            continue                                   # would leave a childless constituent
        for t in targets:
            if t == parent or _is_prefix(p, t):
                continue                               # no change / below itself
            out.append({"node": p, "to": t})
    return out


def _gap_changes(move, cons, toks):
    p, t = move["node"], move["to"]
    moved = toks[tuple(p)]
    n = 0
    for q in cons:
        if _is_prefix(p, q):
            continue
        loses = _is_prefix(q, p[:-1])                  # q is the old parent or above it
        gains = _is_prefix(q, t)                       # q is the new parent or above it
        if loses == gains:
            continue                                   # same token set as before
        before = toks[tuple(q)]
        after = (before - moved) if loses else (before | moved)
        if tg.gap_degree_of_set(before) != tg.gap_degree_of_set(after):
            n += 1
    return n


def _tables(spec):
    paths = all_paths(spec)
    toks = {tuple(q): _toks(node_at(spec, q)) for q in paths}
    cons = [q for q in paths if not tg.is_leaf_spec(node_at(spec, q))]
    return cons, toks


def gap_changes(spec, move):
    """number of constituents (same node before and after) whose gap degree the move changes"""
    cons, toks = _tables(spec)
    return _gap_changes(move, cons, toks)


def moves_with_changes(spec):
    """[(move, gap_changes(spec, move))] for every valid move"""
    cons, toks = _tables(spec)
    return [(mv, _gap_changes(mv, cons, toks)) for mv in valid_moves(spec)]


def move_spec(spec, move):
    """copy of `spec` with the move carried out (the node becomes the last stored child)"""
    s = copy.deepcopy(spec)
    node = node_at(s, move["node"])
    parent = node_at(s, move["node"][:-1])
    target = node_at(s, move["to"])
    del parent["c"][move["node"][-1]]
    target["c"].append(node)
    return s


def real_at(root, path):
    for i in path:
        root = root.children[i]
    return root


def move_real(root, move):
    """the same move on a real tree built from the spec (stored child order = spec order)"""
    node = real_at(root, move["node"])
    parent = real_at(root, move["node"][:-1])
    target = real_at(root, move["to"])
    assert parent.children[move["node"][-1]] is node and node.parent is parent
    del parent.children[move["node"][-1]]
    target.children.append(node)
    node.parent = target
    return root


def move_str(spec, move):
    return "%s -> below %s" % (tg.spec_str(node_at(spec, move["node"])), node_at(spec, move["to"])["l"]
                               + str(sorted(_toks(node_at(spec, move["to"])))))
