"""C03 bounded stand-in: any-to-any conversion through the command line.

Every evaluation runs the real script as a subprocess

    /venv/bin/python <repo>/treetools transform SRC DEST --src-format F --dest-format G [...]

(cwd = a private temp dir, PYTHONPATH = the repo under test) on a corpus
written by OUR encoders, once or several times in a chain, and compares the
last file -- decoded by OUR decoders -- with the specs the corpus was written
from, projected on what every format of the chain can carry.
"""
import collections
import concurrent.futures
import os
import random
import shutil
import subprocess
import sys
import tempfile

from vlib import tg
from bounded.common import Skip, wkey
from bounded import lib_formats as lf

RULE = ("corpora of 1..3 sentences (all-continuous, with discontinuous trees, one-token/unary trees; words with "
        "punctuation, parentheses, XML-special and non-ASCII characters) written by our encoders in the four "
        "source formats (export v3/v4 alternating, brackets with labelled or PTB-empty root, discobrackets with "
        "documented 1-based and implemented 0-based indices, TIGER-XML with permuted attributes); "
        "convert: all 4x5 (source, destination) pairs x corpora; chains A->B->A for all 4x4 and A->B->C (quick: a "
        "covering sample, thorough: all 4x4x5); self round trip B->B on the tool's own output for the four "
        "readable formats; encodings utf-8/latin-1/utf-16 on either side; gzip source; directory source; "
        "long sentences: corpora of one continuous and one discontinuous sentence of 10..13 tokens (two-digit "
        "token numbers, distinct words) through all 4x5 pairs, the chains A->tigerxml->A and A->tigerxml->C and the "
        "self round trip of every readable format; encoding spellings: the three encodings under alias spellings "
        "that Python's codec registry accepts for --src-enc/--dest-enc (utf8, UTF8, utf_8, UTF-8; latin1, "
        "ISO-8859-1, L1, iso8859_1; UTF-16) with non-ASCII words: every destination format, every spelling for "
        "TIGER-XML, chains A->tigerxml->B and self round trips written and read back under the alias. "
        "One evaluation = one chain of 1..2 subprocess runs; non-trivial = distinct (clause, formats, encodings, corpus)")

PY = "/venv/bin/python" if os.path.exists("/venv/bin/python") else sys.executable
SRC_FORMATS = ["export", "brackets", "discobrackets", "tigerxml"]
DEST_FORMATS = ["export", "brackets", "discobrackets", "tigerxml", "terminals"]
# see c01.DISCO_BASES: 1 = documented index convention (the default of _src), 0 = what the reader
# implemented before F9 was fixed; base-0 sources are in the domain only while the reader accepts
# them (c01.reader_zero_based), else skipped
DISCO_BASES = (0, 1)


# The encodings of the property under other spellings that Python's codec registry (which is what
# --src-enc / --dest-enc are handed to) resolves to the same codec.
# The utf-16 spellings utf16 / UTF16 / utf_16 and the utf-8 spelling U8 as --dest-enc of a TIGER-XML file made the
# writer copy the spelling into the XML declaration, where it is not a name an XML parser knows (a residue of F18;
# repaired in /repo 99165b2, recorded as fixed in known_findings.json).
ENC_SPELLINGS = {
    "utf-8": ("utf8", "UTF8", "utf_8", "UTF-8", "U8"),
    "latin-1": ("latin1", "ISO-8859-1", "L1", "iso8859_1"),
    "utf-16": ("UTF-16", "utf16", "utf_16", "UTF16"),
}
ENC_FAMILY = dict((sp, fam) for fam, sps in ENC_SPELLINGS.items() for sp in sps)
# the name OUR TIGER-XML source files declare for an alias spelling (an IANA name every XML parser knows)
XML_DECLARED = {"utf-8": "UTF-8", "latin-1": "ISO-8859-1", "utf-16": "UTF-16"}


def _in_domain(ctx, w):
    if w["src"]["fmt"] == "discobrackets" and w["src"].get("kw", {}).get("base") == 0:
        from bounded import c01
        return c01.reader_zero_based(ctx)
    return True


def BOUNDS(ctx):
    return {"corpora_per_pair": 3 if ctx.quick else 36, "sentences": "1..3", "max_tokens": 6 if ctx.quick else 9,
            "pairs": "4x5", "chains_aba": "4x4", "chains_abc": 14 if ctx.quick else 80,
            "encoding_cases": 14 if ctx.quick else 60, "disco_bases": list(DISCO_BASES),
            "long_corpora": 1 if ctx.quick else 4, "long_tokens": "10..13" if ctx.quick else "10..16",
            "long_chains_through_tigerxml": 8 if ctx.quick else 20,
            "encoding_spellings": {k: list(v) for k, v in sorted(ENC_SPELLINGS.items())},
            "spelling_cases_per_other_destination": 3 if ctx.quick else 36,
            "parallel_evaluations": WORKERS,
            "subprocess_timeout_s": 60}


SITES = {
    "convert": "trees.transform.run",
    "disco_to_brackets_refused": "trees.treeoutput.brackets",
    "chain_aba": "trees.transform.run",
    "chain_abc": "trees.transform.run",
    "self_roundtrip": "trees.transform.run",
    "encodings": "trees.transform.run",
    "gzip_source": "trees.misc.gunzip",
    "directory_mode": "trees.transform.run",
}


# ----------------------------------------------------------------------------
# running the tool
# ----------------------------------------------------------------------------

def run_cli(ctx, cwd, src, dest, sf, df, src_enc=None, dest_enc=None, src_opts=(), dest_opts=()):
    repo = os.path.abspath(ctx.repo)
    cmd = [PY, os.path.join(repo, "treetools"), "transform", src, dest,
           "--src-format", sf, "--dest-format", df]
    if src_enc:
        cmd += ["--src-enc", src_enc]
    if dest_enc:
        cmd += ["--dest-enc", dest_enc]
    if src_opts:
        cmd += ["--src-opts"] + list(src_opts)
    if dest_opts:
        cmd += ["--dest-opts"] + list(dest_opts)
    env = {"PYTHONPATH": repo, "PATH": os.environ.get("PATH", "/usr/bin:/bin"), "TMPDIR": cwd,
           "PYTHONDONTWRITEBYTECODE": "1", "PYTHONIOENCODING": "utf-8", "HOME": cwd}
    for attempt in (1, 2):
        try:
            p = subprocess.run(cmd, cwd=cwd, env=env, stdout=subprocess.PIPE, stderr=subprocess.PIPE, timeout=60)
        except subprocess.TimeoutExpired:
            return -9, "timeout after 60 s"
        # a failure of the tool always shows a traceback or an argparse "error:"; anything else (killed
        # by a signal, interpreter could not start) is the machine, not the tool: try once more
        if p.returncode == 0 or b"Traceback" in p.stderr or b"error:" in p.stderr:
            break
    err = p.stderr.decode("utf-8", "replace").strip().split("\n")
    return p.returncode, " | ".join(x.strip() for x in err[-2:])[-300:]


class _Scratch(object):
    """private temp dir; unlike lf.scratch it does not touch tempfile.tempdir, so that several
    chains can run in parallel threads (the subprocess gets TMPDIR through its environment)"""

    def __enter__(self):
        self.d = tempfile.mkdtemp(prefix="verif_c03_")
        return self.d

    def __exit__(self, *a):
        shutil.rmtree(self.d, ignore_errors=True)
        return False


SUFFIX = {"export": ".export", "brackets": ".mrg", "discobrackets": ".dbr", "tigerxml": ".xml", "terminals": ".txt"}


def render_src(src, specs, encoding):
    """bytes of the source corpus"""
    fmt, kw = src["fmt"], dict(src.get("kw", {}))
    rng = random.Random(src.get("seed", 0))
    if fmt == "export":
        return lf.enc_export(specs, **kw).encode(encoding)
    if fmt == "brackets":
        return lf.enc_brackets(specs, **kw).encode(encoding)
    if fmt == "discobrackets":
        base = kw.pop("base")
        return lf.enc_brackets(specs, disco_base=base, **kw).encode(encoding)
    if fmt == "tigerxml":
        permute = kw.pop("permute", True)
        # an alias spelling names the same bytes; the declaration of OUR file uses the registered name
        declared = XML_DECLARED[ENC_FAMILY[encoding]] if encoding in ENC_FAMILY else encoding
        return lf.enc_tigerxml(specs, rng=rng if permute else None, encoding=declared, **kw)
    raise ValueError(fmt)


def decode_file(path, fmt, encoding, opts=()):
    with open(path, "rb") as fh:
        data = fh.read()
    if fmt == "tigerxml":
        return lf.dec_tigerxml(data)
    text = data.decode(encoding)
    if fmt == "export":
        return lf.dec_export(text)
    if fmt == "brackets":
        return lf.dec_brackets(text)
    if fmt == "discobrackets":
        return lf.dec_discobrackets(text, base=1)
    if fmt == "terminals":
        return lf.dec_terminals(text)
    raise ValueError(fmt)


# ----------------------------------------------------------------------------
# expectation: what survives a chain of formats
# ----------------------------------------------------------------------------

def carry_key(fmt, opts=(), kw=None):
    if fmt == "export":
        if kw is not None:
            return "export%d" % kw.get("version", 3)
        return "export4" if "export_four" in opts else "export3"
    return fmt


def _escape_pos(spec):
    """a parenthesis in a POS tag (STTS "$(") cannot stand in the tree part of a bracket format:
    our encoder writes it PTB style, as it does for words"""
    def leaf(l):
        if lf.has_paren(l["l"]):
            l["l"] = lf.ptb_escape(l["l"])
    return lf.map_spec(spec, leaf)


def src_specs(w):
    """the specs as the source FILE carries them (bracket sources: tokens -- word and POS tag --
    under their PTB names; discobracket sources: the POS tags, the sentence part carries raw words)"""
    specs = w["specs"]
    if w["src"]["fmt"] == "brackets":
        specs = [_escape_pos(lf.escape_spec_for_brackets(s)) for s in specs]
    elif w["src"]["fmt"] == "discobrackets":
        specs = [_escape_pos(s) for s in specs]
    return specs


def expectation(w):
    """-> dict(refuse_step, specs, leaf_fields, node_fields, sid (bool), mapped (bool))"""
    src, steps = w["src"], w["steps"]
    keys = [carry_key(src["fmt"], kw=src.get("kw", {}))] + [carry_key(s["fmt"], s.get("opts", ())) for s in steps]
    lfld = [f for f in ("w", "l", "e", "m", "lem") if all(f in lf.CARRY[k][0] for k in keys)]
    if src.get("kw", {}).get("omit_lemma") and "lem" in lfld:
        lfld.remove("lem")          # a TIGER-XML source without lemma attributes carries no lemma
    nfld = [f for f in ("l", "e") if all(f in lf.CARRY[k][1] for k in keys)]
    cur = [lf.map_spec(s) for s in src_specs(w)]
    sids = [s["sid"] for s in cur] if lf.CARRY[keys[0]][2] else list(range(1, len(cur) + 1))
    refuse = None
    for i, st in enumerate(steps):
        if st["fmt"] == "brackets" and any(not lf.spec_is_continuous(s) for s in cur):
            if "brackets_skipdisco" in st.get("opts", ()):
                keep = [j for j, s in enumerate(cur) if lf.spec_is_continuous(s)]
                cur = [cur[j] for j in keep]
                sids = [sids[j] for j in keep]
            else:
                refuse = i
                break
        if not lf.CARRY[keys[i + 1]][2]:
            sids = list(range(1, len(cur) + 1))       # the next reader counts
    for s, sid in zip(cur, sids):
        s["sid"] = sid
    mapped = any(st["fmt"] in ("brackets", "discobrackets") for st in steps)
    return {"refuse": refuse, "specs": cur, "lfld": tuple(lfld), "nfld": tuple(nfld),
            "sid": lf.CARRY[keys[-1]][2], "mapped": mapped}


def _norm(specs, mapped):
    def leaf(l):
        for f in ("e", "m", "lem"):
            if l.get(f) is None:
                l[f] = lf.EMPTY
        if mapped:
            # "bracket formats map parentheses inside tokens to the documented names": word and POS tag
            l["w"] = lf.ref_replace_parens(l["w"])
            l["l"] = lf.ref_replace_parens(l["l"])

    def node(n):
        if n.get("e") is None:
            n["e"] = lf.EMPTY
    out = []
    for s in specs:
        c = lf.map_spec(s, leaf, node)
        out.append(c)
    return out


def compare_final(exp, path, fmt, encoding):
    try:
        got = decode_file(path, fmt, encoding)
    except (lf.DecodeError, UnicodeError) as e:
        return ("a well-formed %s file" % fmt, {"kind": "undecodable", "what": "%s: %s" % (type(e).__name__, str(e)[:200])})
    if fmt == "terminals":
        want = [[lf.ref_replace_parens(x) if exp["mapped"] else x for x in lf.spec_words(s)] for s in exp["specs"]]
        have = [[lf.ref_replace_parens(wd) if exp["mapped"] else wd for wd, _ in s] for s in got]
        if want != have:
            return (want, {"kind": "content", "got": have})
        return None
    a = lf.canon_corpus(_norm(exp["specs"], exp["mapped"]), exp["lfld"], exp["nfld"], exp["sid"])
    b = lf.canon_corpus(_norm(got, exp["mapped"]), exp["lfld"], exp["nfld"], exp["sid"])
    d = lf.first_diff_t(a, b)
    if d is not None:
        return ({"at": d[0], "expected": d[1]}, {"kind": "content", "at": d[0], "got": d[2]})
    return None


# ----------------------------------------------------------------------------
# the engine behind all clauses
# ----------------------------------------------------------------------------

def run_chain(ctx, w, d):
    """-> failure tuple or None; leaves the files in d"""
    src, steps = w["src"], w["steps"]
    src_enc = w.get("src_enc", "utf-8")
    exp = expectation(w)
    name = "c0" + SUFFIX[src["fmt"]] + (".gz" if w.get("gz") else "")
    path = os.path.join(d, name)
    lf.write_file(path, render_src(src, src_specs(w), src_enc), gz=bool(w.get("gz")))
    cur_fmt, cur_enc = src["fmt"], src_enc
    for i, st in enumerate(steps):
        dest = os.path.join(d, "c%d%s" % (i + 1, SUFFIX[st["fmt"]]))
        dest_enc = st.get("enc", "utf-8")
        rc, tail = run_cli(ctx, d, path, dest, cur_fmt, st["fmt"],
                           src_enc=cur_enc if (cur_enc != "utf-8" or i == 0) else None,
                           dest_enc=dest_enc if dest_enc != "utf-8" else None,
                           src_opts=w.get("src_opts", ()) if i == 0 else (), dest_opts=st.get("opts", ()))
        if exp["refuse"] == i:
            if rc == 0 or "ValueError" not in tail:
                return ("step %d (%s->brackets) refused with ValueError, non-zero exit" % (i + 1, cur_fmt),
                        {"kind": "not-refused", "step": i + 1, "exit": rc, "stderr": tail})
            return None
        if rc != 0:
            return ("exit status 0 at step %d (%s->%s)" % (i + 1, cur_fmt, st["fmt"]),
                    {"kind": "exit", "step": i + 1, "exit": rc, "stderr": tail, "from": cur_fmt, "to": st["fmt"]})
        path, cur_fmt, cur_enc = dest, st["fmt"], dest_enc
    return compare_final(exp, path, cur_fmt, cur_enc)


def c_chain(ctx, w):
    if not _in_domain(ctx, w):
        raise Skip()
    with _Scratch() as d:
        return run_chain(ctx, w, d)


def c_refused(ctx, w):
    if not _in_domain(ctx, w):
        raise Skip()
    exp = expectation(w)
    if exp["refuse"] is None and not any("brackets_skipdisco" in s.get("opts", ()) for s in w["steps"]):
        raise Skip()
    with _Scratch() as d:
        return run_chain(ctx, w, d)


def c_self(ctx, w):
    """A -> B with the tool, then B -> B: the tool's reader accepts what its writer produced and the
    second file decodes (with OUR decoder) to the same content as the first.  With "enc" in the step,
    both B files are written -- and the first one is read back -- under that encoding name."""
    fmt = w["steps"][0]["fmt"]
    if not _in_domain(ctx, w):
        raise Skip()
    with _Scratch() as d:
        w1 = dict(w)
        w1["steps"] = w["steps"][:1]
        exp = expectation(w1)
        if exp["refuse"] is not None:
            raise Skip()
        src_enc = w.get("src_enc", "utf-8")
        enc = w["steps"][0].get("enc", "utf-8")
        p0 = os.path.join(d, "c0" + SUFFIX[w["src"]["fmt"]])
        lf.write_file(p0, render_src(w["src"], src_specs(w), src_enc))
        p1 = os.path.join(d, "c1" + SUFFIX[fmt])
        p2 = os.path.join(d, "c2" + SUFFIX[fmt])
        opts = w["steps"][0].get("opts", ())
        rc, tail = run_cli(ctx, d, p0, p1, w["src"]["fmt"], fmt, dest_opts=opts,
                           src_enc=src_enc if src_enc != "utf-8" else None, dest_enc=enc if enc != "utf-8" else None)
        if rc != 0:
            raise Skip()        # the first conversion is judged by `convert`
        rc, tail = run_cli(ctx, d, p1, p2, fmt, fmt, dest_opts=opts,
                           src_enc=enc if enc != "utf-8" else None, dest_enc=enc if enc != "utf-8" else None)
        if rc != 0:
            return ("the reader accepts the file its own %s writer produced" % fmt,
                    {"kind": "exit", "step": 2, "exit": rc, "stderr": tail, "from": fmt, "to": fmt})
        try:
            first = decode_file(p1, fmt, enc)
        except (lf.DecodeError, UnicodeError):
            raise Skip()        # the writer's output is judged by `convert` / `encodings`
        lfld, nfld, sid = lf.CARRY[carry_key(fmt, opts)]
        try:
            second = decode_file(p2, fmt, enc)
        except (lf.DecodeError, UnicodeError) as e:
            return ("a well-formed %s file" % fmt, {"kind": "undecodable", "what": str(e)[:200]})
        dd = lf.first_diff_t(lf.canon_corpus(_norm(first, False), lfld, nfld, sid),
                             lf.canon_corpus(_norm(second, False), lfld, nfld, sid))
        if dd is not None:
            return ({"at": dd[0], "first_file": dd[1]}, {"kind": "content", "at": dd[0], "got": dd[2]})
    return None


def c_directory(ctx, w):
    """source is a directory: every file in it is converted to <file>.dest"""
    if not _in_domain(ctx, w):
        raise Skip()
    with _Scratch() as d:
        sub = os.path.join(d, "corpus")
        os.mkdir(sub)
        st = w["steps"][0]
        names = []
        for i, specs in enumerate(w["parts"]):
            name = os.path.join(sub, "part%d%s" % (i, SUFFIX[w["src"]["fmt"]]))
            wi = dict(w)
            wi["specs"] = specs
            lf.write_file(name, render_src(w["src"], src_specs(wi), "utf-8"))
            names.append((name, wi))
        rc, tail = run_cli(ctx, d, sub, os.path.join(d, "unused.out"), w["src"]["fmt"], st["fmt"],
                           dest_opts=st.get("opts", ()))
        if rc != 0:
            return ("exit status 0", {"kind": "exit", "step": 1, "exit": rc, "stderr": tail,
                                      "from": w["src"]["fmt"], "to": st["fmt"]})
        for name, wi in names:
            if not os.path.exists(name + ".dest"):
                return ("%s.dest written" % os.path.basename(name), {"kind": "missing", "files": sorted(os.listdir(sub))})
            r = compare_final(expectation(wi), name + ".dest", st["fmt"], "utf-8")
            if r is not None:
                return r
    return None


_IMPL = {
    "convert": c_chain, "disco_to_brackets_refused": c_refused, "chain_aba": c_chain, "chain_abc": c_chain,
    "self_roundtrip": c_self, "encodings": c_chain, "gzip_source": c_chain, "directory_mode": c_directory,
}

# Each evaluation is independent and spends its time waiting for subprocesses, so generate() starts
# the next few evaluations in worker threads; the clause function picks the finished result up (or
# computes it itself when called directly, e.g. on replay).  Results do not depend on the order.
WORKERS = max(1, min(int(os.environ.get("VERIF_C03_WORKERS", "6")), (os.cpu_count() or 1)))
_POOL = None
_AHEAD = {}


def _cached(clause):
    def fn(ctx, w):
        fut = _AHEAD.pop(wkey([clause, w]), None)
        if fut is not None:
            return fut.result()          # re-raises Skip
        return _IMPL[clause](ctx, w)
    return fn


CLAUSES = {name: _cached(name) for name in _IMPL}


# ----------------------------------------------------------------------------
# defect classes
# ----------------------------------------------------------------------------

def _chain_formats(w):
    return [w["src"]["fmt"]] + [s["fmt"] for s in w.get("steps", [])]


def classify(clause, w, expected, observed):
    try:
        return _classify(clause, w, expected, observed)
    except Exception:        # a classifier must never take the run down
        return None


def _classify(clause, w, expected, observed):
    ob = observed if isinstance(observed, dict) else {}
    kind = ob.get("kind")
    fmts = _chain_formats(w)
    steps = list(w.get("steps", []))
    if clause == "self_roundtrip":        # A -> B -> B
        fmts = fmts + fmts[-1:]
        steps = steps + steps[-1:]
    src = w["src"]
    words = [x for s in (w.get("specs") or [t for p in w.get("parts", []) for t in p]) for x in lf.spec_words(s)]
    stderr = ob.get("stderr", "")
    # which reader read which file, at the failing step (or any, if the content is wrong)
    if clause == "self_roundtrip":
        reading = [(steps[0]["fmt"], "tool")]
    elif kind == "exit":
        k = ob.get("step", 1) - 1
        reading = [(fmts[k], "ours" if k == 0 else "tool")]
    else:
        reading = [(f, "ours" if k == 0 else "tool") for k, f in enumerate(fmts[:-1])]
    if w.get("gz") and src["fmt"] == "tigerxml" and kind == "exit" and "ParseError" in stderr:
        return "tigerxml-reader-does-not-gunzip"
    # F8: trees from a reader that leaves lemma None written by a writer that needs it
    if kind == "exit":
        k = ob.get("step", 1) - 1
        frm, to = fmts[k], fmts[k + 1]
        opts = steps[k].get("opts", ())
        lemma_none = frm in ("brackets", "discobrackets") or (frm == "tigerxml" and k == 0 and src.get("kw", {}).get("omit_lemma"))
        if lemma_none and to == "tigerxml" and "AttributeError" in stderr and "replace" in stderr:
            return "lemma-None-from-reader-crashes-tigerxml-writer"
        if lemma_none and to == "export" and "export_four" in opts and "TypeError" in stderr and "len()" in stderr:
            return "lemma-None-from-reader-crashes-export_four-writer"
    # F18: TIGER-XML written in a non-UTF-8 encoding without saying so
    if kind == "undecodable" and fmts[-1] == "tigerxml" and steps and steps[-1].get("enc", "utf-8") == "latin-1" \
            and any(ord(ch) > 127 for x in words for ch in x):
        return "tigerxml-written-without-encoding-declaration"
    if kind == "exit" and ob.get("from") == "tigerxml" and ob.get("step", 1) > 1 \
            and steps[ob["step"] - 2].get("enc", "utf-8") == "latin-1" and "ParseError" in stderr:
        return "tigerxml-written-without-encoding-declaration"
    # F9 with its own symptom: the token looked up at index n+1 does not exist and comes back as int 0
    for f, who in reading:
        if f == "discobrackets" and (who == "tool" or src.get("kw", {}).get("base") == 1) \
                and "TypeError" in stderr and ("'int'" in stderr or "int found" in stderr):
            return "discobrackets-reader-takes-indices-as-0-based"
    # F21: tool reads discobrackets whose sentence has a token with parentheses
    for f, who in reading:
        if f == "discobrackets" and any(lf.has_paren(x) and len(x) > 1 for x in words):
            return "discobrackets-sentence-token-with-parenthesis-split-by-lexer"
    # F9: a discobrackets file with the documented 1-based indices is read (ours with base 1, or the tool's own)
    for f, who in reading:
        if f == "discobrackets" and (who == "tool" or src.get("kw", {}).get("base") == 1):
            return "discobrackets-reader-takes-indices-as-0-based"
    return None


# ----------------------------------------------------------------------------
# generation
# ----------------------------------------------------------------------------

def _max_gap(spec):
    return max(tg.gap_degree_of_set([l["n"] for l in tg.spec_leaves(s)]) for s, _ in tg.spec_nodes(spec))


PAREN_TAGGED = ("(", ")", "\"", "''", "``", "-", "(x)", "[y]")


def _corpus(rng, kind, max_n, words, gap1=False, pos_paren=True):
    """kind: cont | disc | tiny; gap1: the discontinuous tree has gap degree exactly 1 (the boundary
    of what the bracket writer must refuse)"""
    specs = []
    k = {"cont": 2, "disc": 3, "tiny": 1}[kind]
    while len(specs) < k:
        if kind == "tiny":
            n = rng.randint(1, 2)
        else:
            n = rng.randint(2, max_n)
        s = tg.spec_from_shape(tg.random_shape(rng, n, discont=0.0 if kind != "disc" else 0.7), rng,
                               unary_p=0.3, shuffle=True)
        if kind == "disc" and len(specs) == 1 and (lf.spec_is_continuous(s) or (gap1 and _max_gap(s) != 1)
                                                   or (not gap1 and _max_gap(s) < 2 and n >= 5)):
            continue        # the second tree of a "disc" corpus is discontinuous
        if kind == "disc" and len(specs) != 1 and not lf.spec_is_continuous(s):
            continue        # ... the others are continuous (so that skipping is visible)
        lf.decorate(s, rng, words=words)
        if pos_paren:
            # STTS: parentheses, quotes and dashes are tagged "$(" -- a POS tag with a bracket character
            for l in tg.spec_leaves(s):
                if l["w"] in PAREN_TAGGED and rng.random() < 0.7:
                    l["l"] = "$("
        specs.append(s)
    sids = sorted(rng.sample(range(2, 300), len(specs)))
    return lf.with_sids(specs, sids)


def _long_corpus(rng, lo, hi, words):
    """one continuous and one discontinuous sentence of lo..hi tokens: token numbers (and the ids a
    writer derives from them) have two digits; the words of a sentence are pairwise distinct, so that
    a token in the wrong place always shows"""
    specs = []
    for want_disc in (False, True):
        while True:
            n = rng.randint(lo, hi)
            s = tg.spec_from_shape(tg.random_shape(rng, n, discont=0.4 if want_disc else 0.0), rng,
                                   unary_p=0.2, shuffle=True)
            if lf.spec_is_continuous(s) != want_disc:
                break
        lf.decorate(s, rng, words=words)
        leaves = sorted(tg.spec_leaves(s), key=lambda l: l["n"])
        if len(words) >= len(leaves):
            for l, wd in zip(leaves, rng.sample(list(words), len(leaves))):
                l["w"] = wd
        specs.append(s)
    sids = sorted(rng.sample(range(2, 300), len(specs)))
    return lf.with_sids(specs, sids)


def _for_chain(fmts, specs):
    """the sentences every format of the chain can represent"""
    if "brackets" in fmts:
        return [s for s in specs if lf.spec_is_continuous(s)]
    return specs


def _src(fmt, i, rng, base=None):
    if fmt == "export":
        return {"fmt": fmt, "kw": [{"version": 3, "header": True, "comments": True, "bos_extra": True},
                                   {"version": 4, "layout": "tab", "secedges": True, "tables": True}][i % 2]}
    if fmt == "brackets":
        return {"fmt": fmt, "kw": [{"layout": "pretty", "root": "empty"}, {"layout": "line", "root": "label"},
                                   {"layout": "compact", "root": "label"}][i % 3]}
    if fmt == "discobrackets":
        return {"fmt": fmt, "kw": {"base": 1 if base is None else base, "layout": ["line", "compact"][i % 2]}}
    return {"fmt": fmt, "kw": [{"permute": True}, {"permute": True, "secedges": True, "omit_vroot": True}][i % 2], "seed": i}


def _usable(src_fmt, specs):
    return src_fmt != "brackets" or all(lf.spec_is_continuous(s) for s in specs)


def _key(clause, w, specs):
    return (clause, tuple(_chain_formats(w)), w.get("src_enc", "utf-8"),
            tuple(s.get("enc", "utf-8") for s in w["steps"]), tg.spec_str(specs[0]))


def generate(ctx):
    global _POOL
    if WORKERS <= 1:
        for item in _items(ctx):
            yield item
        return
    from bounded import c01
    c01.reader_zero_based(ctx)       # probe once, in this thread (it uses lf.scratch)
    if _POOL is None:
        _POOL = concurrent.futures.ThreadPoolExecutor(max_workers=WORKERS)
    it = _items(ctx)
    window = collections.deque()

    def fill():
        while len(window) < 2 * WORKERS:
            try:
                item = next(it)
            except StopIteration:
                return
            _AHEAD[wkey([item[0], item[1]])] = _POOL.submit(_IMPL[item[0]], ctx, item[1])
            window.append(item)
    fill()
    while window:
        item = window.popleft()
        yield item
        fill()


def _items(ctx):
    b = BOUNDS(ctx)
    rng = ctx.rng
    kinds = ["cont", "disc", "tiny"]
    corpora = []
    for i in range(b["corpora_per_pair"]):
        kind = kinds[i % 3]
        pool = lf.WORDS_ALL if i % 3 == 0 else lf.WORDS_NOPAREN
        corpora.append((kind, _corpus(rng, kind, b["max_tokens"], pool, gap1=(i % 6 == 1))))
    tg.spec_leaves(corpora[0][1][0])[0]["w"] = "(x)"      # a token with parentheses is always in
    tg.spec_leaves(corpora[0][1][0])[0]["l"] = "$("       # ... and a POS tag with one
    cont = [c for k, c in corpora if k != "disc"]
    tg.spec_leaves(cont[-1][-1])[-1].update(w="``", l="$(")
    n = 0
    # --- all pairs -------------------------------------------------------------------
    for sf in SRC_FORMATS:
        for df in DEST_FORMATS:
            for i, (kind, specs) in enumerate(corpora):
                n += 1
                use = specs if _usable(sf, specs) else [s for s in specs if lf.spec_is_continuous(s)]
                opts = ["export_four"] if (df == "export" and n % 2) else []
                w = {"specs": use, "src": _src(sf, n, rng), "steps": [{"fmt": df, "opts": opts}]}
                if df == "brackets" and any(not lf.spec_is_continuous(s) for s in use):
                    yield "disco_to_brackets_refused", w, _key("refuse", w, use)
                    w2 = dict(w)
                    w2["steps"] = [{"fmt": df, "opts": ["brackets_skipdisco"]}]
                    yield "disco_to_brackets_refused", w2, _key("skip", w2, use)
                else:
                    yield "convert", w, _key("convert", w, use)
            if sf == "discobrackets" and 0 in DISCO_BASES:
                # (in the domain only while the reader takes indices as 0-based, see _in_domain)
                w = {"specs": corpora[0][1], "src": _src(sf, n, rng, base=0), "steps": [{"fmt": df, "opts": []}]}
                yield "convert", w, _key("convert-base0", w, corpora[0][1])
    # --- long sentences: 10 and more tokens, through every reader and every writer -------
    # (its own generator, seeded from the run's seed, so that the cases above and below stay what they are)
    rng2 = random.Random("c03-long-and-spellings/%s" % ctx.seed)
    lo, hi = [int(x) for x in b["long_tokens"].split("..")]
    longs = [_long_corpus(rng2, lo, hi, lf.WORDS_NOPAREN) for _ in range(b["long_corpora"])]
    for i, specs in enumerate(longs):
        for sf in SRC_FORMATS:
            for df in DEST_FORMATS:
                n += 1
                use = _for_chain([sf], specs)
                opts = ["export_four"] if (df == "export" and n % 2) else []
                w = {"specs": use, "src": _src(sf, n, rng, base=1), "steps": [{"fmt": df, "opts": opts}]}
                if df == "brackets" and any(not lf.spec_is_continuous(s) for s in use):
                    yield "disco_to_brackets_refused", w, _key("refuse-long", w, use)
                    w2 = dict(w)
                    w2["steps"] = [{"fmt": df, "opts": ["brackets_skipdisco"]}]
                    yield "disco_to_brackets_refused", w2, _key("skip-long", w2, use)
                else:
                    yield "convert", w, _key("convert-long", w, use)
    # ... the tool's TIGER-XML (token ids 1..n) read back by the tool: A -> tigerxml -> A, A -> tigerxml -> C,
    # and the self round trip of every readable format
    through = [(a, c) for a in SRC_FORMATS for c in DEST_FORMATS]
    if len(through) > b["long_chains_through_tigerxml"]:
        through = [(a, a) for a in SRC_FORMATS] + \
                  [(a, DEST_FORMATS[(j + 1) % len(DEST_FORMATS)]) for j, a in enumerate(SRC_FORMATS)]
    for j, (a, c) in enumerate(through):
        specs = _for_chain([a, c], longs[j % len(longs)])
        w = {"specs": specs, "src": _src(a, j, rng, base=1),
             "steps": [{"fmt": "tigerxml", "opts": []}, {"fmt": c, "opts": []}]}
        clause = "chain_aba" if a == c else "chain_abc"
        yield clause, w, _key("long-through-tigerxml", w, specs)
    for j, bf in enumerate(SRC_FORMATS):
        for sf in (["export"] if ctx.quick else SRC_FORMATS):
            specs = _for_chain([sf, bf], longs[j % len(longs)])
            w = {"specs": specs, "src": _src(sf, j, rng, base=1), "steps": [{"fmt": bf, "opts": []}]}
            yield "self_roundtrip", w, _key("self-long", w, specs)
    # --- a TIGER-XML source without lemma attributes (absent optional field) ----------------
    for df, opts in (("tigerxml", []), ("export", ["export_four"]), ("export", [])):
        src = {"fmt": "tigerxml", "kw": {"permute": True, "omit_lemma": True}, "seed": 5}
        w = {"specs": cont[1 % len(cont)], "src": src, "steps": [{"fmt": df, "opts": opts}]}
        yield "convert", w, _key("convert-nolemma", w, w["specs"]) + (tuple(opts),)
    # --- the tool reads what it wrote ----------------------------------------------------
    for j, bf in enumerate(SRC_FORMATS):
        for sf in (["export", "tigerxml"] if ctx.quick else SRC_FORMATS):
            specs = cont[j % len(cont)]
            w = {"specs": specs, "src": _src(sf, j, rng), "steps": [{"fmt": bf, "opts": []}]}
            yield "self_roundtrip", w, _key("self", w, specs)
        if bf == "export":
            w = {"specs": cont[0], "src": _src("tigerxml", 1, rng), "steps": [{"fmt": bf, "opts": ["export_four"]}]}
            yield "self_roundtrip", w, _key("self4", w, cont[0])
    # --- chains ------------------------------------------------------------------------
    for a in SRC_FORMATS:
        for j, bf in enumerate(SRC_FORMATS):
            specs = cont[(j + len(a)) % len(cont)]
            w = {"specs": specs, "src": _src(a, j, rng), "steps": [{"fmt": bf, "opts": []}, {"fmt": a, "opts": []}]}
            yield "chain_aba", w, _key("aba", w, specs)
    abc = [(a, bf, c) for a in SRC_FORMATS for bf in SRC_FORMATS for c in DEST_FORMATS]
    if len(abc) > b["chains_abc"]:
        rng.shuffle(abc)
        # keep a sample that still has every B and every C
        abc = sorted(abc[:b["chains_abc"]])
    for j, (a, bf, c) in enumerate(abc):
        specs = cont[j % len(cont)]
        w = {"specs": specs, "src": _src(a, j, rng), "steps": [{"fmt": bf, "opts": []}, {"fmt": c, "opts": []}]}
        yield "chain_abc", w, _key("abc", w, specs)
    # --- encodings ------------------------------------------------------------------------
    encs = [("latin-1", "utf-8"), ("utf-8", "latin-1"), ("utf-16", "utf-16"), ("utf-8", "utf-16"),
            ("utf-16", "utf-8"), ("latin-1", "latin-1")]
    cases = [(sf, df, e) for sf in SRC_FORMATS for df in DEST_FORMATS for e in encs]
    rng.shuffle(cases)
    lat = _corpus(rng, "cont", b["max_tokens"], [x for x in lf.WORDS_LATIN1 if not lf.has_paren(x)])
    for s in lat:      # make sure a non-ASCII word is in
        tg.spec_leaves(s)[0]["w"] = "äpfel"
    for j, (sf, df, (se, de)) in enumerate(cases[:b["encoding_cases"]]):
        src = _src(sf, j, rng)
        if sf == "export":
            src["kw"] = {"version": 4}
        w = {"specs": lat, "src": src, "src_enc": se, "steps": [{"fmt": df, "opts": [], "enc": de}]}
        yield "encodings", w, _key("enc", w, lat)
    # --- the same encodings under other spellings of their names -----------------------------
    spellings = [sp for fam in ("utf-8", "latin-1", "utf-16") for sp in ENC_SPELLINGS[fam]]
    firsts = [ENC_SPELLINGS[fam][0] for fam in ("utf-8", "latin-1", "utf-16")]

    def enc_case(sf, j, se, steps):
        src = _src(sf, j, rng, base=1)
        if sf == "export":
            src["kw"] = {"version": 4}
        return {"specs": _for_chain([sf] + [st["fmt"] for st in steps], lat), "src": src, "src_enc": se, "steps": steps}
    j = 0
    for df in DEST_FORMATS:
        # every spelling for TIGER-XML (the one format that names its encoding inside the file)
        sfs = SRC_FORMATS if not ctx.quick else None
        for k, de in enumerate(spellings if (df == "tigerxml" or not ctx.quick) else firsts):
            for sf in (sfs or [SRC_FORMATS[(j + k) % len(SRC_FORMATS)]]):
                j += 1
                se = spellings[j % len(spellings)]
                w = enc_case(sf, j, se, [{"fmt": df, "opts": [], "enc": de}])
                yield "encodings", w, _key("enc-spelling", w, w["specs"])
    # ... and the tool reads the file it wrote under that name: A -> tigerxml -> B, B -> B
    for k, de in enumerate(spellings):
        for a in (SRC_FORMATS if not ctx.quick else [SRC_FORMATS[k % len(SRC_FORMATS)]]):
            j += 1
            c = DEST_FORMATS[(j + k) % len(DEST_FORMATS)]
            w = enc_case(a, j, spellings[(j + 1) % len(spellings)],
                         [{"fmt": "tigerxml", "opts": [], "enc": de},
                          {"fmt": c, "opts": [], "enc": spellings[(j + 2) % len(spellings)]}])
            yield "encodings", w, _key("enc-spelling-chain", w, w["specs"])
    for k, bf in enumerate(SRC_FORMATS):
        for m, de in enumerate(spellings if (bf == "tigerxml" or not ctx.quick) else firsts[k % 3:][:1]):
            j += 1
            w = enc_case(["export", "tigerxml"][(k + m) % 2], j, "utf-8", [{"fmt": bf, "opts": [], "enc": de}])
            yield "self_roundtrip", w, _key("self-spelling", w, w["specs"])
    # --- gzip source, directory source --------------------------------------------------
    for j, sf in enumerate(SRC_FORMATS):
        specs = cont[(j + 1) % len(cont)]
        w = {"specs": specs, "src": _src(sf, j, rng), "gz": True, "steps": [{"fmt": "export", "opts": []}]}
        yield "gzip_source", w, _key("gz", w, specs)
    # gzip x source encoding: the archive holds the bytes of the file, in whatever encoding it is
    # (--src-enc for export / brackets / discobrackets, the XML declaration for TIGER-XML)
    for j, sf in enumerate(SRC_FORMATS):
        for se in ("latin-1", "utf-16"):
            src = _src(sf, j, rng, base=1)        # discobrackets: the documented index convention
            w = {"specs": lat, "src": src, "src_enc": se, "gz": True,
                 "steps": [{"fmt": ["export", "tigerxml"][j % 2], "opts": []}]}
            yield "gzip_source", w, _key("gz-enc", w, lat)
    for j, (sf, df) in enumerate([("export", "discobrackets"), ("brackets", "export"), ("tigerxml", "terminals")]):
        parts = [c for c in cont[:3]]
        w = {"parts": parts, "specs": None, "src": _src(sf, j, rng), "steps": [{"fmt": df, "opts": []}]}
        yield "directory_mode", w, ("dir", sf, df)


def exhaustive(ctx):
    return False
