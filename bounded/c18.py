"""C18 bounded stand-in: processing is sentence-local, deterministic and
history-independent.

(i)   f(A ++ B) == f(A) ++ f(B) for reader -> transformations -> writer pipelines, readers alone (reader state
      resets between sentences), grammar extraction / binarization (sums), analysis tasks (sums), transition
      extraction; through the API and, for a few pipelines, through the command line.
(ii)  the same call gives the same result in the state earlier evaluations left behind, in a fresh state (the
      modules of the code under test are re-executed: lib_misc.reload_repo) and after a history of <= 3 other calls,
      one of which is the same function on other data; for some histories also in two fresh interpreters (probe
      alone / history + probe); terminal files with different names; and, separately, the same file *name* with changed content
      and the same name after a ValueError (the expectation comes from the reference semantics of lib_misc).
(iii) the same command line under PYTHONHASHSEED 0 / 1 / 12345 writes the same files (line sets for LoPar
      .start/.oc/.OC).
(iv)  writers leave the tree they are given unchanged, and writing a tree a second time (same or other format)
      gives what a fresh tree gives.
"""
import collections
import io
import json
import os
import re

from vlib import tg
from bounded.common import Skip
from bounded import lib_misc as lm

RULE = ("treebanks A, B of 1..2 sentences (all shapes n<=3 plus seeded random trees up to 6 tokens, with punctuation, "
        "unary nodes, discontinuity); pipelines = reader format x one of the transformation chains (all sixteen "
        "transformations occur, each with its documented prerequisites) x writer format; histories = the probe call "
        "preceded by 0..3 calls drawn from readers, transformation chains, writers, grammar functions, transition "
        "extractors, analysis tasks (fresh inputs, terminal files with fresh names; one call of every history is the "
        "probe's own function on other data; sentence ids vary; separately: the probe's own terminal-file "
        "function called before with the same terminal file -- same name, unchanged content -- on a tree with "
        "the same sentence id, judged in a reloaded state and in fresh processes); one evaluation = one (pipeline, "
        "A, B) or one (call, history) or one command line under three hash seeds; non-trivial = distinct evaluation "
        "whose probe produced a non-empty result")


def BOUNDS(ctx):
    q = ctx.quick
    return {"treebank_sentences": "1..2 per side", "max_tokens": 6,
            "concat_api_pipelines": 260 if q else 3000, "concat_reader": 40 if q else 400,
            "concat_grammar": 90 if q else 900, "concat_analysis": 20 if q else 200,
            "concat_transitions": 30 if q else 300, "concat_cli": 9 if q else 27,
            "histories": 220 if q else 3000, "history_max_calls": 4, "fresh_process_histories": 12 if q else 60,
            "same_file_histories": 32 if q else 320, "same_file_fresh_process": 4 if q else 24,
            "cache_cases": 24 if q else 120, "hashseed_commands": 9 if q else 18, "hashseeds": [0, 1, 12345],
            "writer_trees": 40 if q else 400}


SITES = {
    "concat_pipeline": "trees.transform.run",
    "concat_reader": "trees.treeinput.export",
    "concat_grammar": "trees.grammar.extract",
    "concat_analysis": "trees.treeanalysis.GapDegree.run",
    "concat_transitions": "trees.transitions.gap",
    "concat_cli": "trees.transform.run",
    "history": "trees.trees.Tree",
    "history_fresh_process": "trees.trees.Tree",
    "cache_same_name": "trees.transform.insert_terminals",
    "hashseed_cli": "trees.grammaroutput.lopar",
    "writer_keeps_tree": "trees.treeoutput.export",
    "write_twice": "trees.treeoutput.export",
}

WORDS = ["der", "Hund", "bellt", "laut", "Haus", "sieht", ",", ".", "\"", "-", "Kind", "a&b"]
POS = ["NN", "VB", "$,", "ART"]

# transformation chains: every one of the sixteen transformations occurs, with its documented prerequisites
CHAINS = [
    [],
    [["root_attach", {}]],
    [["negra_mark_heads", {}]],
    [["root_attach", {}], ["negra_mark_heads", {}], ["boyd_split", {}]],
    [["root_attach", {}], ["negra_mark_heads", {}], ["boyd_split", {}], ["raising", {}]],
    [["add_topnode", {}]],
    [["substitute_terminals", {"quiet": True, "terminalfile": "@TF"}]],
    [["insert_terminals", {"quiet": True, "terminalfile": "@TF"}]],
    [["punctuation_delete", {"quiet": True}]],
    [["root_attach", {}], ["punctuation_verylow", {}]],
    [["root_attach", {}], ["punctuation_symetrify", {}]],
    [["punctuation_root", {}]],
    [["mark_heads_by_rules", {"mark_heads_preset": "negra"}]],
    [["ptb_delete_traces", {}]],
    [["negra_mark_heads", {}], ["binarize", {}]],
    [["collapse_unary_chains", {}]],
    [["filter_by_length", {"filteroperator": "lt", "filtervalue": 2}]],
    [["insert_terminals", {"quiet": True, "terminalfile": "@TF"}], ["root_attach", {}],
     ["punctuation_symetrify", {}]],
]
WRITERS = [["export", {}], ["export", {"export_four": True}], ["brackets", {}], ["brackets", {"brackets_emptyroot": True}],
           ["discobrackets", {}], ["tigerxml", {}], ["terminals", {}], ["terminals", {"terminals_pos": True}],
           ["export", {"gf": True}]]
READERS = ["export", "brackets", "tigerxml", "discobrackets"]


# ----------------------------------------------------------------------------
# running things
# ----------------------------------------------------------------------------

def _exc(e):
    return "EXC:%s" % type(e).__name__


def sid_of(fmt, k):
    """id of the k-th sentence (k counted over the whole treebank A ++ B).  Formats that carry ids get
    non-consecutive ones; bracket formats number by position"""
    return 5 * k + 2 if fmt in ("export", "tigerxml") else k


def _encode(fmt, specs, first_pos):
    if fmt in ("export", "tigerxml"):
        return lm.ENCODERS[fmt](specs, sids=[sid_of(fmt, first_pos + i) for i in range(len(specs))])
    return lm.ENCODERS[fmt](specs)


def _reader_opts(fmt, first_sid):
    opts = {"quiet": True}
    if fmt in ("brackets", "discobrackets"):
        opts["brackets_firstid"] = first_sid
    return opts


def _chain_params(params, tfpath):
    p = dict(params)
    if p.get("terminalfile") == "@TF":
        p["terminalfile"] = tfpath
    return p


def _apply_chain(ctx, tree, chain, tfpath):
    tf = ctx.mod("transform")
    for name, params in chain:
        tree = getattr(tf, name)(tree, **_chain_params(params, tfpath))
        if tree is None:
            return None
    return tree


def _write(ctx, tree, fmt, opts):
    to = ctx.mod("treeoutput")
    s = io.StringIO()
    getattr(to, fmt)(tree, s, **opts)
    return s.getvalue()


def _pipeline(ctx, d, fmt_in, specs, first_sid, chain, writer, tf_lines):
    """per-sentence outputs of reader -> chain -> writer for the treebank `specs`"""
    path = os.path.join(d, lm.uniq("in") + "." + fmt_in)
    lm.write_text(path, _encode(fmt_in, specs, first_sid))
    tfpath = None
    if tf_lines is not None:
        tfpath = os.path.join(d, lm.uniq("tf") + ".txt")
        # the requests are generated per position of the sentence in A ++ B
        lm.write_text(tfpath, lm.terminal_file_text([[sid_of(fmt_in, l[0])] + l[1:] for l in tf_lines]))
    out = []
    for tree in lm.read_file(ctx, fmt_in, path, **_reader_opts(fmt_in, first_sid)):
        try:
            tree = _apply_chain(ctx, tree, chain, tfpath)
            if tree is None:
                continue
            if writer[0] == "snapshot":
                out.append(json.dumps(lm.full_state(tree), sort_keys=True))
            else:
                out.append(_write(ctx, tree, writer[0], writer[1]))
        except Exception as e:
            out.append(_exc(e))
    return out


def _needs_continuous(fmt_in, writer):
    return fmt_in == "brackets"


def _representable(fmt_in, specs):
    for s in specs:
        if s["l"] != "VROOT":
            return False
        if fmt_in == "brackets" and not lm.spec_is_continuous(s):
            return False
        if fmt_in in ("brackets", "discobrackets"):
            for l in tg.spec_leaves(s):
                if any(ch in l["w"] for ch in "()"):
                    return False
    return True


# --- (i) concatenation ------------------------------------------------------

def c_concat_pipeline(ctx, w):
    A, B, fmt_in, chain, writer, tf_lines = w["A"], w["B"], w["fmt_in"], w["chain"], w["writer"], w.get("tf")
    if not _representable(fmt_in, A + B):
        raise Skip()
    def run(d, specs, first):
        try:
            return _pipeline(ctx, d, fmt_in, specs, first, chain, writer, tf_lines)
        except Exception as e:          # the reader gives up: everything from there on is lost
            return [_exc(e)]
    with lm.tempdir() as d:
        whole = run(d, A + B, 1)
        pa = run(d, A, 1)
        pb = run(d, B, 1 + len(A))
    if pa and pb and pa == pb == whole and pa[0].startswith("EXC:"):
        raise Skip()          # the reader refuses all three files alike: C01's business
    if whole != pa + pb:
        return ({"f(A)+f(B)": pa + pb}, {"f(A+B)": whole})
    return None


def c_concat_reader(ctx, w):
    """reader state resets between sentences: token numbering restarts at 1, ids follow the file"""
    A, B, fmt_in = w["A"], w["B"], w["fmt_in"]
    if not _representable(fmt_in, A + B):
        raise Skip()
    with lm.tempdir() as d:
        res = []
        for specs, first in ((A + B, 1), (A, 1), (B, 1 + len(A))):
            path = os.path.join(d, lm.uniq("in"))
            lm.write_text(path, _encode(fmt_in, specs, first))
            try:
                trees = lm.read_file(ctx, fmt_in, path, **_reader_opts(fmt_in, first))
            except Exception:
                raise Skip()
            res.append([(t.data.get("sid"), lm.plain_snapshot(t), lm.tree_nums(t)) for t in trees])
    if res[0] != res[1] + res[2]:
        return ({"read(A)+read(B)": repr(res[1] + res[2])[:600]}, {"read(A+B)": repr(res[0])[:600]})
    # and independently: what was read is what we encoded (tokens numbered 1..n, ids as given)
    for (sid, snap, nums), spec, k in zip(res[0], A + B, range(1, 1 + len(A + B))):
        if sid != sid_of(fmt_in, k) or nums != list(range(1, len(nums) + 1)) or snap != lm.spec_snapshot(spec):
            return ("sentence %d numbered 1..n, read as encoded" % k, {"sid": sid, "nums": nums, "tree": repr(snap)[:300]})
    return None


def _anon(label):
    """binarization labels of the deterministic binarizer are numbered in order of creation: @7X -> @X"""
    return re.sub(r"^@[0-9]+X$", "@X", label)


def _gram_counter(gram, anonymise):
    c = collections.Counter()
    for func in gram:
        for lin in gram[func]:
            f = tuple(_anon(x) for x in func) if anonymise else func
            c[(f, lin)] += sum(gram[func][lin].values())
    return c


def _extract_all(ctx, specs):
    gr = ctx.mod("grammar")
    g, lex = {}, {}
    for s in specs:
        gr.extract(tg.build(s, ctx.mod("trees")), g, lex)
    return g, lex


def _binarized(ctx, g, mode):
    gr = ctx.mod("grammar")
    if mode == "extract":
        return g
    kind, _, markov = mode.partition("+")
    reordering = {"leftright": gr.reordering_none, "optimal": gr.reordering_optimal}[kind]
    mo = None
    if markov:
        mo = {}
        for kv in markov.split(","):
            k, _, v = kv.partition(":")
            mo[k] = int(v) if v else True
    return gr.binarize(g, reordering=reordering, markov_opts=mo)


def c_concat_grammar(ctx, w):
    A, B, mode = w["A"], w["B"], w["mode"]
    ga, la = _extract_all(ctx, A)
    gb, lb = _extract_all(ctx, B)
    gw, lw = _extract_all(ctx, A + B)
    if mode == "extract":
        # full structure incl. vertical contexts and the lexicon
        def flat(g):
            c = collections.Counter()
            for f in g:
                for lin in g[f]:
                    for vert in g[f][lin]:
                        c[(f, lin, vert)] += g[f][lin][vert]
            return c

        def flatlex(lex):
            c = collections.Counter()
            for word in lex:
                for tag in lex[word]:
                    c[(word, tag)] += lex[word][tag]
            return c
        if flat(gw) != flat(ga) + flat(gb):
            return ("rule counts of A+B == sum", {"diff": repr((flat(gw) - flat(ga) - flat(gb)))[:300]})
        if flatlex(lw) != flatlex(la) + flatlex(lb):
            return ("lexicon counts of A+B == sum", {"diff": repr(flatlex(lw) - flatlex(la) - flatlex(lb))[:300]})
        # order of first occurrence is kept (files are written in this order)
        order = list(ga) + [f for f in gb if f not in ga]
        if list(gw) != order:
            return ("rules in order of first occurrence", {"order": repr(list(gw))[:300]})
        return None
    anonymise = "+" not in mode
    ba = _gram_counter(_binarized(ctx, ga, mode), anonymise)
    bb = _gram_counter(_binarized(ctx, gb, mode), anonymise)
    bw = _gram_counter(_binarized(ctx, gw, mode), anonymise)
    if bw != ba + bb:
        missing = (ba + bb) - bw
        extra = bw - (ba + bb)
        # count mass: every extracted rule occurrence must reappear on exactly one rule whose left-hand side is
        # not a binarization label (diagnosis only, used by classify)
        mass = {}
        for name, g, bc in (("A", ga, ba), ("B", gb, bb), ("A+B", gw, bw)):
            orig = sum(sum(g[f][lin].values()) for f in g for lin in g[f])
            kept = sum(n for (f, lin), n in bc.items() if not f[0].startswith("@"))
            mass[name] = [orig, kept]
        return ("binarize(extract(A+B)) == binarize(extract(A)) + binarize(extract(B)) (rule -> count)",
                {"missing": repr(sorted(missing.items()))[:400], "extra": repr(sorted(extra.items()))[:400],
                 "count_mass_extracted_vs_binarized": mass})
    return None


def c_concat_analysis(ctx, w):
    A, B = w["A"], w["B"]
    ta, trees = ctx.mod("treeanalysis"), ctx.mod("trees")

    def run(specs):
        gd, pt, sc = ta.GapDegree(), ta.PosTags(), ta.SentenceCount()
        for s in specs:
            for task in (gd, pt, sc):
                task.run(tg.build(s, trees))
        return (collections.Counter(gd.gaps_per_node), collections.Counter(gd.gaps_per_tree), list(pt.tags), sc.cnt)
    a, b, whole = run(A), run(B), run(A + B)
    exp = (a[0] + b[0], a[1] + b[1], a[2] + b[2], a[3] + b[3])
    if whole != exp:
        return (repr(exp), repr(whole))
    return None


def c_concat_transitions(ctx, w):
    A, B, system = w["A"], w["B"], w["sys"]
    tr, to, tf, trees = ctx.mod("transitions"), ctx.mod("transitionoutput"), ctx.mod("transform"), ctx.mod("trees")

    def run(specs, d):
        data = []
        for s in specs:
            t = tf.negra_mark_heads(tg.build(s, trees))
            if system != "inorder":
                t = tf.binarize(t)
            data.append(getattr(tr, system)(t))
        p = os.path.join(d, lm.uniq("tr"))
        to.plain(data, p, "utf-8")
        return lm.read_text(p)
    def safe(specs, d):
        try:
            return run(specs, d)
        except Exception as e:
            return _exc(e) + "\n"
    with lm.tempdir() as d:
        whole, a, b = safe(A + B, d), safe(A, d), safe(B, d)
    if whole == a == b and whole.startswith("EXC:"):
        raise Skip()          # the extractor refuses these trees whatever the context: C10's business
    if whole != a + b:
        return (a + b, whole)
    return None


# --- command line --------------------------------------------------------------

def _parse_pmcfg(text):
    funs, seqs = {}, {}
    for line in text.split("\n"):
        t = line.split()
        if not t:
            continue
        if t[0].startswith("fun"):
            f = funs.setdefault(t[0], {})
            if len(t) >= 3 and t[1] == ":":
                f["lhs"] = t[2]
                f["rhs"] = tuple(t[4:])
            elif len(t) >= 2 and t[1] == "=":
                f["lin"] = tuple(t[2:])
            else:
                f["count"] = int(t[1])
        elif t[0].startswith("s") and len(t) >= 2 and t[1] == "->":
            seqs[t[0]] = tuple(t[2:])
    c = collections.Counter()
    for f in funs.values():
        c[(f["lhs"], f["rhs"], tuple(seqs[s] for s in f["lin"]))] += f["count"]
    return c


def _parse_lex(text):
    c = collections.Counter()
    for line in text.split("\n"):
        if not line.strip():
            continue
        word, _, rest = line.partition("\t")
        t = rest.split()
        for tag, n in zip(t[0::2], t[1::2]):
            c[(word, tag)] += int(n)
    return c


def _parse_gapdegree(text):
    c = collections.Counter()
    for m in re.finditer(r"Gap degree\s+(\d+):\s+(\d+) (trees|nodes)", text):
        c[(m.group(3), int(m.group(1)))] += int(m.group(2))
    m = re.search(r"(\d+) trees, (\d+) nodes", text)
    if m:
        c["trees"] += int(m.group(1))
        c["nodes"] += int(m.group(2))
    return c


def _strip_xml_frame(text):
    return "".join(re.findall(r"(?s)<s id=.*?</s>\n", text))


CLI_CASES = {
    "transform-export-export": {"fmt_in": "export", "args": ["transform", "IN", "OUT", "--src-format", "export",
                                                             "--dest-format", "export"], "out": ["OUT"], "cmp": "text"},
    "transform-chain": {"fmt_in": "export", "args": ["transform", "IN", "OUT", "--src-format", "export", "--dest-format",
                                                     "export", "--trans", "root_attach", "negra_mark_heads", "boyd_split",
                                                     "raising"], "out": ["OUT"], "cmp": "text"},
    "transform-export-discobrackets": {"fmt_in": "export", "args": ["transform", "IN", "OUT", "--src-format", "export",
                                                                    "--dest-format", "discobrackets"], "out": ["OUT"],
                                       "cmp": "text"},
    "transform-brackets-export": {"fmt_in": "brackets", "args": ["transform", "IN", "OUT", "--src-format", "brackets",
                                                                 "--dest-format", "export", "--src-opts",
                                                                 "brackets_firstid:FIRST"], "out": ["OUT"], "cmp": "text"},
    "transform-tigerxml-tigerxml": {"fmt_in": "tigerxml", "args": ["transform", "IN", "OUT", "--src-format", "tigerxml",
                                                                   "--dest-format", "tigerxml"], "out": ["OUT"],
                                    "cmp": "xml"},
    "transform-punct-delete-brackets": {"fmt_in": "export", "continuous": True,
                                        "args": ["transform", "IN", "OUT", "--src-format", "export", "--dest-format",
                                                 "brackets", "--trans", "punctuation_delete", "--params", "quiet"],
                                        "out": ["OUT"], "cmp": "text"},
    "grammar-pmcfg": {"fmt_in": "export", "args": ["grammar", "IN", "OUT", "treebank", "--src-format", "export",
                                                   "--dest-format", "pmcfg"], "out": ["OUT.pmcfg", "OUT.lex"],
                      "cmp": "grammar"},
    "treeanalysis-gapdegree": {"fmt_in": "export", "args": ["treeanalysis", "IN", "GapDegree", "--src-format", "export"],
                               "out": [], "cmp": "gapdegree"},
    "transitions-gap": {"fmt_in": "export", "args": ["transitions", "IN", "OUT", "gap", "--src-format", "export",
                                                     "--transform", "negra_mark_heads", "binarize"], "out": ["OUT"],
                        "cmp": "text"},
}


def _run_case(ctx, d, case, specs, first, tag, hashseed=None):
    inp = "in_%s.%s" % (tag, case["fmt_in"])
    lm.write_text(os.path.join(d, inp), _encode(case["fmt_in"], specs, first))
    out = "out_%s" % tag
    args = []
    for a in case["args"]:
        if a == "IN":
            a = inp
        elif a == "OUT":
            a = out
        args.append(a.replace("FIRST", str(first)))
    rc, so, se = lm.run_cli(ctx, args, d, hashseed=hashseed)
    files = {}
    for o in case["out"]:
        p = os.path.join(d, o.replace("OUT", out))
        files[o] = lm.read_text(p) if os.path.exists(p) else None
    return rc, so, se, files


def c_concat_cli(ctx, w):
    A, B, name = w["A"], w["B"], w["case"]
    case = CLI_CASES[name]
    if not _representable(case["fmt_in"], A + B):
        raise Skip()
    if case.get("continuous") and not all(lm.spec_is_continuous(s) for s in A + B):
        raise Skip()
    with lm.tempdir() as d:
        rw = _run_case(ctx, d, case, A + B, 1, "w")
        ra = _run_case(ctx, d, case, A, 1, "a")
        rb = _run_case(ctx, d, case, B, 1 + len(A), "b")
    if rw[0] != 0 or ra[0] != 0 or rb[0] != 0:
        if ra[0] == 0 and rb[0] == 0:
            return ("exit status 0 as for A and for B", {"rc": rw[0], "stderr": rw[2][-300:]})
        raise Skip()
    cmp = case["cmp"]
    if cmp == "text":
        for o in case["out"]:
            if rw[3][o] != ra[3][o] + rb[3][o]:
                return ({o: ra[3][o] + rb[3][o]}, {o: rw[3][o]})
    elif cmp == "xml":
        for o in case["out"]:
            if _strip_xml_frame(rw[3][o]) != _strip_xml_frame(ra[3][o]) + _strip_xml_frame(rb[3][o]):
                return ("sentences of A then of B", {o: rw[3][o][:500]})
    elif cmp == "grammar":
        if _parse_pmcfg(rw[3]["OUT.pmcfg"]) != _parse_pmcfg(ra[3]["OUT.pmcfg"]) + _parse_pmcfg(rb[3]["OUT.pmcfg"]):
            return ("rule counts add up", {"pmcfg": rw[3]["OUT.pmcfg"][:500]})
        if _parse_lex(rw[3]["OUT.lex"]) != _parse_lex(ra[3]["OUT.lex"]) + _parse_lex(rb[3]["OUT.lex"]):
            return ("lexicon counts add up", {"lex": rw[3]["OUT.lex"][:500]})
    elif cmp == "gapdegree":
        if _parse_gapdegree(rw[1]) != _parse_gapdegree(ra[1]) + _parse_gapdegree(rb[1]):
            return ("statistics add up", {"stdout": rw[1][:500]})
        if not _parse_gapdegree(rw[1]):
            raise Skip()
    return None


# --- (iii) hash seeds -------------------------------------------------------------

HASH_CASES = dict(CLI_CASES)
HASH_CASES.update({
    "grammar-rcg-leftright": {"fmt_in": "export", "args": ["grammar", "IN", "OUT", "leftright", "--src-format", "export",
                                                           "--dest-format", "rcg"], "out": ["OUT.rcg", "OUT.lex"]},
    "grammar-pmcfg-optimal-markov": {"fmt_in": "export", "args": ["grammar", "IN", "OUT", "optimal", "--src-format",
                                                                  "export", "--dest-format", "pmcfg", "--markov", "v:1",
                                                                  "h:1"], "out": ["OUT.pmcfg", "OUT.lex"]},
    "grammar-lopar": {"fmt_in": "brackets", "args": ["grammar", "IN", "OUT", "treebank", "--src-format", "brackets",
                                                     "--dest-format", "lopar"],
                      "out": ["OUT.gram", "OUT.lex", "OUT.start", "OUT.oc", "OUT.OC"], "roots": True},
    "grammar-lopar-leftright": {"fmt_in": "brackets", "args": ["grammar", "IN", "OUT", "leftright", "--src-format",
                                                               "brackets", "--dest-format", "lopar"],
                                "out": ["OUT.gram", "OUT.lex", "OUT.start", "OUT.oc", "OUT.OC"], "roots": True},
    "treeanalysis-postags": {"fmt_in": "export", "args": ["treeanalysis", "IN", "PosTags", "--src-format", "export"],
                             "out": []},
    "transform-export-tigerxml": {"fmt_in": "export", "args": ["transform", "IN", "OUT", "--src-format", "export",
                                                               "--dest-format", "tigerxml"], "out": ["OUT"]},
    "transform-export-terminals": {"fmt_in": "export", "args": ["transform", "IN", "OUT", "--src-format", "export",
                                                                "--dest-format", "terminals", "--dest-opts",
                                                                "terminals_pos"], "out": ["OUT"]},
})
SET_FILES = ("OUT.start", "OUT.oc", "OUT.OC")


def _encode_case(case, specs):
    if case.get("roots"):
        # the bracket format carries the root label: several start symbols
        specs = [lm.copy_spec(s) for s in specs]
        for i, s in enumerate(specs):
            s["l"] = ["S", "FRAG", "NP", "VROOT", "X", "TOP"][i % 6]
    return specs


def c_hashseed_cli(ctx, w):
    specs, name, seeds = w["specs"], w["case"], w["seeds"]
    case = HASH_CASES[name]
    specs = _encode_case(case, specs)
    if case["fmt_in"] == "brackets" and not all(lm.spec_is_continuous(s) for s in specs):
        raise Skip()
    results = []
    with lm.tempdir() as d:
        for k, seed in enumerate(seeds):
            rc, so, se, files = _run_case(ctx, d, case, specs, 1, "h%d" % k, hashseed=seed)
            norm = {}
            for o, text in files.items():
                if text is not None and o in SET_FILES:
                    text = sorted(text.split("\n"))
                norm[o] = text
            results.append({"rc": rc, "stdout": so, "files": norm})
    for k in range(1, len(results)):
        if results[k] != results[0]:
            diff = [o for o in results[0]["files"] if results[0]["files"][o] != results[k]["files"][o]]
            return ({"seed": seeds[0], "same as": "every other seed"},
                    {"seed": seeds[k], "differs in": diff or ["rc/stdout"], "first": repr(results[0])[:300],
                     "other": repr(results[k])[:300]})
    if results[0]["rc"] != 0:
        raise Skip()
    return None


# --- (ii) histories ------------------------------------------------------------------

def do_call(ctx, call, d):
    """one API call on fresh inputs; JSON-able result (no node identities)"""
    trees = ctx.mod("trees")
    k = call["k"]
    try:
        if k == "read":
            path = os.path.join(d, lm.uniq("r"))
            lm.write_text(path, _encode(call["fmt"], call["specs"], 1))
            return [[t.data.get("sid"), lm.full_state(t)] for t in lm.read_file(ctx, call["fmt"], path, quiet=True)]
        if k == "trans":
            tfpath = None
            if call.get("tf") is not None:
                tfpath = os.path.join(d, call.get("tfname") or (lm.uniq("tf") + ".txt"))
                lm.write_text(tfpath, lm.terminal_file_text(call["tf"]))
            t = _apply_chain(ctx, tg.build(call["spec"], trees), call["chain"], tfpath)
            if t is None:
                return None
            while t.parent is not None and call.get("climb"):
                t = t.parent
            return lm.full_state(t)
        if k == "write":
            return _write(ctx, tg.build(call["spec"], trees), call["fmt"], call["opts"])
        if k == "grammar":
            g, lex = _extract_all(ctx, call["specs"])
            g = _binarized(ctx, g, call["mode"])
            out = {}
            if call.get("dest"):
                go = ctx.mod("grammaroutput")
                base = os.path.join(d, lm.uniq("g"))
                getattr(go, call["dest"])(g, lex, base, "utf-8")
                for fn in sorted(os.listdir(d)):
                    if fn.startswith(os.path.basename(base)):
                        text = lm.read_text(os.path.join(d, fn))
                        ext = fn[len(os.path.basename(base)):]
                        out[ext] = sorted(text.split("\n")) if ("OUT" + ext) in SET_FILES else text
            return [repr([(f, lin, sorted(g[f][lin].items())) for f in g for lin in g[f]]),
                    repr([(wd, sorted(lex[wd].items())) for wd in lex]), out]
        if k == "transitions":
            tf = ctx.mod("transform")
            t = tf.negra_mark_heads(tg.build(call["spec"], trees))
            if call["sys"] != "inorder":
                t = tf.binarize(t)
            terms, trans = getattr(ctx.mod("transitions"), call["sys"])(t)
            return [[list(x) for x in terms], [str(x) for x in trans]]
        if k == "analysis":
            ta = ctx.mod("treeanalysis")
            gd, pt = ta.GapDegree(), ta.PosTags()
            for s in call["specs"]:
                gd.run(tg.build(s, trees))
                pt.run(tg.build(s, trees))
            return [sorted(gd.gaps_per_node.items()), sorted(gd.gaps_per_tree.items()), pt.tags]
    except Exception as e:
        return _exc(e)
    raise ValueError("unknown call kind %r" % k)


def _jsonable(x):
    return json.loads(json.dumps(x, default=repr))


def c_history(ctx, w):
    call, history = w["call"], w["history"]
    with lm.tempdir() as d:
        # whatever earlier evaluations left behind in the process ...
        r_dirty = _jsonable(do_call(ctx, call, d))
        # ... the state of a fresh interpreter (modules re-executed) ...
        lm.reload_repo(ctx)
        r_fresh = _jsonable(do_call(ctx, call, d))
        # ... and after the history
        for h in history:
            do_call(ctx, h, d)
        r_after = _jsonable(do_call(ctx, call, d))
    if r_fresh != r_after:
        return ({"fresh": repr(r_fresh)[:500]}, {"after the history": repr(r_after)[:500]})
    if r_fresh != r_dirty:
        return ({"fresh": repr(r_fresh)[:500]}, {"after all earlier evaluations": repr(r_dirty)[:500]})
    return None


_FRESH = r"""
import json, sys, tempfile, shutil, io
sys.path.insert(0, %(verif)r)
sys.dont_write_bytecode = True
from bounded import common
common.setup_repo_path(%(repo)r)
from bounded import c18
w = json.load(sys.stdin)
ctx = common.Ctx("quick", 0, %(repo)r)
d = tempfile.mkdtemp(prefix="verif_b_")
try:
    with common.quiet():
        for h in w["history"]:
            c18.do_call(ctx, h, d)
        r = c18.do_call(ctx, w["call"], d)
finally:
    shutil.rmtree(d, ignore_errors=True)
sys.stdout.write(json.dumps(r, default=repr))
"""


def c_history_fresh_process(ctx, w):
    """the probe call alone in a fresh interpreter == the probe call after the history in another fresh one"""
    verif = os.path.dirname(os.path.dirname(os.path.abspath(__file__)))
    code = _FRESH % {"verif": verif, "repo": os.path.abspath(ctx.repo)}
    with lm.tempdir() as d:
        rc1, o1, e1 = lm.run_py(ctx, code, d, json.dumps({"call": w["call"], "history": []}))
        rc2, o2, e2 = lm.run_py(ctx, code, d, json.dumps(w))
    if rc1 != 0 or rc2 != 0:
        raise RuntimeError("helper process failed: %s %s" % (e1[-300:], e2[-300:]))
    # file names differ between processes only through lm.uniq (pid): results never contain them
    if json.loads(o1) != json.loads(o2):
        return ({"fresh": o1[:500]}, {"after history": o2[:500]})
    return None


def c_cache_same_name(ctx, w):
    """the content used is the content of the file named *now*"""
    fn, spec, l1, l2, mode = w["fn"], w["spec"], w["lines1"], w["lines2"], w["mode"]
    trees, tf = ctx.mod("trees"), ctx.mod("transform")
    f = getattr(tf, fn)
    sid = spec["sid"]
    before = lm.spec_tokens(spec)
    reqs = [(idx, wd, p) for s, idx, wd, p in l2 if s == sid]
    if lm.has_duplicate(l2):
        exp = "raises ValueError"
    elif fn == "insert_terminals":
        exp = [list(t) for t in lm.ref_insert(before, reqs)[0]]
    else:
        exp = [list(t) for t in lm.ref_substitute(before, reqs)]
    with lm.tempdir() as d:
        path = os.path.join(d, lm.uniq("same") + ".txt")
        lm.write_text(path, lm.terminal_file_text(l1))
        try:
            f(tg.build(spec, trees), terminalfile=path)
            first = "returned"
        except ValueError:
            first = "ValueError"
        if (mode == "after-valueerror") != (first == "ValueError"):
            raise Skip()
        lm.write_text(path, lm.terminal_file_text(l2))
        root = tg.build(spec, trees)
        try:
            f(root, terminalfile=path)
            got = [list(t) for t in lm.tree_tokens(root)]
        except ValueError:
            got = "raises ValueError"
        except Exception as e:
            got = "raises %s: %s" % (type(e).__name__, e)
    if got != exp:
        return ({"second call, file now holds": l2, "result": exp}, {"first call": first, "result": got})
    return None


# --- (iv) writers -------------------------------------------------------------------------

def _node_states(root):
    out = []

    def rec(n, path):
        out.append((path, len(n.children), dict(n.data)))
        for i, c in enumerate(n.children):
            rec(c, path + (i,))
    rec(root, ())
    return out


def _mutated_fields(before, root):
    after = _node_states(root)
    fields = set()
    if len(before) != len(after):
        return ["<structure>"]
    for (p0, n0, d0), (p1, n1, d1) in zip(before, after):
        if p0 != p1 or n0 != n1:
            fields.add("<structure>")
        for k in d0:
            if k not in d1 or d1[k] != d0[k]:
                fields.add(k)
    return sorted(fields)


def c_writer_keeps_tree(ctx, w):
    spec, fmt, opts = w["spec"], w["fmt"], w["opts"]
    root = tg.build(spec, ctx.mod("trees"))
    before = _node_states(root)
    try:
        _write(ctx, root, fmt, opts)
    except Exception:
        raise Skip()
    fields = _mutated_fields(before, root)
    if fields:
        return ("every data field the tree had before writing is unchanged", {"writer": fmt, "mutated": fields})
    return None


def c_write_twice(ctx, w):
    spec, first, second = w["spec"], w["first"], w["second"]
    trees = ctx.mod("trees")
    try:
        fresh = _write(ctx, tg.build(spec, trees), second[0], second[1])
    except Exception:
        raise Skip()
    root = tg.build(spec, trees)
    before = _node_states(root)
    try:
        _write(ctx, root, first[0], first[1])
    except Exception:
        raise Skip()
    mutated = _mutated_fields(before, root)
    try:
        again = _write(ctx, root, second[0], second[1])
    except Exception as e:
        again = _exc(e)
    if again != fresh:
        return ({"%s output of a fresh tree" % second[0]: fresh[:400]},
                {"after": first[0], "mutated": mutated, "output": again[:400]})
    return None


CLAUSES = {"concat_pipeline": c_concat_pipeline, "concat_reader": c_concat_reader, "concat_grammar": c_concat_grammar,
           "concat_analysis": c_concat_analysis, "concat_transitions": c_concat_transitions,
           "concat_cli": c_concat_cli, "history": c_history, "history_fresh_process": c_history_fresh_process,
           "cache_same_name": c_cache_same_name, "hashseed_cli": c_hashseed_cli,
           "writer_keeps_tree": c_writer_keeps_tree, "write_twice": c_write_twice}

CLAUSES = dict((k, lm.guard(v)) for k, v in CLAUSES.items())


# ----------------------------------------------------------------------------
# classification
# ----------------------------------------------------------------------------

def classify(clause, w, expected, observed):
    if clause == "writer_keeps_tree" and isinstance(observed, dict):
        return "%s-writer-mutates-%s" % (observed["writer"], "+".join(observed["mutated"]))
    if clause == "write_twice" and isinstance(observed, dict) and observed.get("mutated"):
        return "second-output-differs-after-%s-writer-mutated-%s" % (observed["after"], "+".join(observed["mutated"]))
    if clause == "cache_same_name" and isinstance(observed, dict):
        if w["mode"] == "changed-content" and observed.get("first call") == "returned":
            # stale: the result is what the *old* content asks for
            before = lm.spec_tokens(w["spec"])
            reqs = [(idx, wd, p) for s, idx, wd, p in w["lines1"] if s == w["spec"]["sid"]]
            if w["fn"] == "insert_terminals":
                stale = [list(t) for t in lm.ref_insert(before, reqs)[0]]
            else:
                stale = [list(t) for t in lm.ref_substitute(before, reqs)]
            if observed.get("result") == stale:
                return "stale-terminal-file-cache-keyed-by-name"
        if w["mode"] == "after-valueerror" and "AttributeError" in str(observed.get("result")):
            return "cache-name-kept-after-valueerror"
    if clause == "concat_grammar" and "+" in w["mode"] and isinstance(observed, dict):
        mass = observed.get("count_mass_extracted_vs_binarized", {})
        if any(a != b for a, b in mass.values()):
            # the binarizer itself loses/changes counts (C08's F14: `= rule_cnt` overwrites instead of adding;
            # with nofanout the count of the vertical context is used); non-additivity is a consequence
            return "markov-binarization-does-not-conserve-counts" + ("-nofanout" if "nofanout" in w["mode"] else "")
    return None


# ----------------------------------------------------------------------------
# generation
# ----------------------------------------------------------------------------

def _tree(ctx, n=None, continuous=False, punct=True, sid=1):
    rng = ctx.rng
    n = n or rng.randint(1, 6)
    while True:
        sh = tg.random_shape(rng, n, discont=0.0 if continuous else 0.5)
        if not continuous or tg.shape_is_continuous(sh):
            break
    words = WORDS if punct else [x for x in WORDS if x not in lm.PUNCT]
    s = tg.spec_from_shape(sh, rng, words=words, pos=POS, unary_p=0.25, shuffle=True)
    s["sid"] = sid
    return s


def _bank(ctx, k, continuous=False, first=1):
    return [_tree(ctx, continuous=continuous, sid=first + i) for i in range(k)]


def _small_banks(ctx):
    """A, B over all shapes n<=3 (deterministic decoration) -- the exhaustive core"""
    specs = list(tg.enum_specs(3))
    for i, a in enumerate(specs):
        for j, b in enumerate(specs):
            yield [a], [b]


def _tf_lines(ctx, nsent):
    rng = ctx.rng
    lines, seen = [], set()
    for sid in range(1, nsent + 1):
        for _ in range(rng.randint(0, 2)):
            idx = rng.randint(1, 3)
            if (sid, idx) not in seen:
                seen.add((sid, idx))
                lines.append([sid, idx, rng.choice(["\"", "neu", ",", "Wort"]), rng.choice(["$(", "XY"])])
    return lines


def _uses_tf(chain):
    return any(p.get("terminalfile") == "@TF" for _, p in chain)


def _trace_tree(ctx, sid=1):
    s = _tree(ctx, n=ctx.rng.randint(2, 5), sid=sid, punct=False)
    leaves = tg.spec_leaves(s)
    for l in ctx.rng.sample(leaves, max(1, len(leaves) // 3))[:len(leaves) - 1]:
        l["w"], l["l"] = ctx.rng.choice(["*T*-1", "*", "*U*", "0"]), "-NONE-"
    for node, parent in tg.spec_nodes(s):
        if not tg.is_leaf_spec(node) and parent is not None and ctx.rng.random() < 0.5:
            node["l"] = node["l"] + ctx.rng.choice(["-1", "=2", "-SBJ-1"])
    return s


def _sibling_call(ctx, call):
    """a call of the same kind (same function / chain / format) on other data"""
    rng = ctx.rng
    k = call["k"]
    if k == "read":
        return {"k": "read", "fmt": call["fmt"], "specs": _bank(ctx, 2, continuous=(call["fmt"] == "brackets"))}
    if k == "trans":
        chain = call["chain"]
        spec = _trace_tree(ctx, rng.randint(2, 60)) if chain[0][0] == "ptb_delete_traces" \
            else _tree(ctx, sid=rng.randint(2, 60))
        c = {"k": "trans", "chain": chain, "spec": spec, "climb": True}
        if _uses_tf(chain):
            c["tf"] = [[spec["sid"], 1, "anders", "XZ"]]
        return c
    if k == "write":
        return {"k": "write", "fmt": call["fmt"], "opts": call["opts"],
                "spec": _tree(ctx, continuous=(call["fmt"] == "brackets"), sid=rng.randint(2, 60))}
    if k == "grammar":
        return {"k": "grammar", "specs": _bank(ctx, 2), "mode": call["mode"], "dest": call.get("dest")}
    if k == "transitions":
        return {"k": "transitions", "sys": call["sys"], "spec": _tree(ctx, continuous=(call["sys"] != "gap"))}
    return {"k": "analysis", "specs": _bank(ctx, 2)}


def _same_file_case(ctx, i):
    """(probe, history): the probe's own function was already called with the SAME terminal file (same
    name, content unchanged) on a tree with the SAME sentence id -- two treebank files numbered from 1
    transformed one after the other, or one treebank transformed twice.  The probe must come out as in
    a fresh process."""
    rng = ctx.rng
    fn = ["insert_terminals", "substitute_terminals"][i % 2]
    chain = [[fn, {"quiet": True, "terminalfile": "@TF"}]]
    if i % 8 == 6:
        chain = CHAINS[-1]                       # insert_terminals, then re-attachment of punctuation
    sid = rng.randint(1, 60)
    first = _tree(ctx, n=rng.randint(2, 5), sid=sid)
    second = first if i % 3 == 0 else _tree(ctx, n=rng.randint(2, 5), sid=sid)
    tf = [[sid, 1, "neu", "XY"]]
    if i % 2 == 0 and i % 4 == 0:
        tf.append([sid, 3, "\"", "$("])
    if i % 5 == 1:
        tf.append([sid + 1, 1, "fremd", "XZ"])      # a request for another sentence
    name = "shared%d.txt" % i
    probe = {"k": "trans", "chain": chain, "spec": second, "climb": True, "tf": tf, "tfname": name}
    sib = {"k": "trans", "chain": chain, "spec": first, "climb": True, "tf": tf, "tfname": name}
    hist = [[sib], [_random_call(ctx), sib], [sib, _random_call(ctx)], [sib, dict(sib, spec=second)]][i % 4]
    return probe, hist


def _history_for(ctx, call, length):
    """`length` calls, one of them of the same kind as the probe"""
    hist = [_random_call(ctx) for _ in range(length)]
    if length:
        hist[ctx.rng.randrange(length)] = _sibling_call(ctx, call)
    return hist


def _root_attach_call(ctx):
    """a tree whose virtual root has several children (what root_attach re-attaches)"""
    rng = ctx.rng
    while True:
        sh = tg.random_shape(rng, rng.randint(4, 6), p_flat=0.6)
        if len(sh) >= 3:
            break
    s = tg.spec_from_shape(sh, rng, words=WORDS, pos=POS, unary_p=0.1, shuffle=True)
    s["sid"] = rng.randint(1, 60)
    return {"k": "trans", "chain": [["root_attach", {}]], "spec": s, "climb": True}


def _random_call(ctx):
    rng = ctx.rng
    k = rng.choice(["read", "trans", "trans", "trans", "write", "write", "grammar", "transitions", "analysis"])
    if k == "read":
        fmt = rng.choice(READERS)
        return {"k": "read", "fmt": fmt, "specs": _bank(ctx, rng.randint(1, 2), continuous=(fmt == "brackets"))}
    if k == "trans":
        chain = rng.choice(CHAINS[1:])
        sid = rng.randint(1, 60)
        spec = _trace_tree(ctx, sid) if chain[0][0] == "ptb_delete_traces" else _tree(ctx, sid=sid)
        call = {"k": "trans", "chain": chain, "spec": spec, "climb": True}
        if _uses_tf(chain):
            call["tf"] = [[sid] + l[1:] for l in _tf_lines(ctx, 1)]
        return call
    if k == "write":
        fmt, opts = rng.choice(WRITERS)
        return {"k": "write", "fmt": fmt, "opts": opts,
                "spec": _tree(ctx, continuous=(fmt == "brackets"), sid=rng.randint(1, 60))}
    if k == "grammar":
        mode = rng.choice(["extract", "leftright", "optimal", "leftright+v:1,h:2", "optimal+v:2,h:1,nofanout"])
        dest = rng.choice([None, "pmcfg", "rcg"])
        return {"k": "grammar", "specs": _bank(ctx, 2), "mode": mode, "dest": dest}
    if k == "transitions":
        system = rng.choice(["topdown", "inorder", "gap"])
        return {"k": "transitions", "sys": system, "spec": _tree(ctx, continuous=(system != "gap"))}
    return {"k": "analysis", "specs": _bank(ctx, 2)}


def generate(ctx):
    b = BOUNDS(ctx)
    rng = ctx.rng
    # (i) pipelines: exhaustive small core on a rotating pipeline, then random banks
    small = list(_small_banks(ctx))
    combos = [(r, c, wr) for r in READERS for c in range(len(CHAINS)) for wr in range(len(WRITERS))]
    rng.shuffle(combos)
    n_pipe = b["concat_api_pipelines"]
    for i in range(n_pipe):
        r, c, wr = combos[i % len(combos)]
        chain = CHAINS[c]
        if i % 3 == 0:
            A, B = small[(i // 3) % len(small)]
        else:
            cont = r == "brackets"
            A = _bank(ctx, rng.randint(1, 2), cont)
            B = _bank(ctx, rng.randint(1, 2), cont, first=1 + len(A))
        if chain and chain[0][0] == "ptb_delete_traces":
            A = [_trace_tree(ctx, 1)]
            B = [_trace_tree(ctx, 2)]
        w = {"A": A, "B": B, "fmt_in": r, "chain": chain, "writer": WRITERS[wr] if i % 5 else ["snapshot", {}]}
        if _uses_tf(chain):
            w["tf"] = _tf_lines(ctx, len(A) + len(B))
        yield "concat_pipeline", w, "p%d" % i
    for i in range(b["concat_reader"]):
        r = READERS[i % len(READERS)]
        A = _bank(ctx, rng.randint(1, 2), r == "brackets")
        B = _bank(ctx, rng.randint(1, 2), r == "brackets")
        yield "concat_reader", {"A": A, "B": B, "fmt_in": r}, "r%d" % i
    modes = ["extract", "leftright", "optimal", "leftright+v:1,h:2", "optimal+v:1,h:1", "leftright+v:2,h:1,nofanout"]
    for i in range(b["concat_grammar"]):
        A, B = _bank(ctx, rng.randint(1, 2)), _bank(ctx, rng.randint(1, 2))
        if i % 4 == 0:
            B = B + [A[0]]            # shared rules
        yield "concat_grammar", {"A": A, "B": B, "mode": modes[i % len(modes)]}, "g%d" % i
    for i in range(b["concat_analysis"]):
        yield "concat_analysis", {"A": _bank(ctx, rng.randint(1, 2)), "B": _bank(ctx, rng.randint(1, 2))}, "a%d" % i
    for i in range(b["concat_transitions"]):
        system = ["gap", "topdown", "inorder"][i % 3]
        cont = system != "gap"
        yield "concat_transitions", {"A": _bank(ctx, rng.randint(1, 2), cont), "B": _bank(ctx, rng.randint(1, 2), cont),
                                     "sys": system}, "t%d" % i
    # (iv) writers
    for i in range(b["writer_trees"]):
        fmt, opts = WRITERS[i % len(WRITERS)]
        spec = _tree(ctx, continuous=(fmt == "brackets"))
        if i % 2:
            tg.spec_leaves(spec)[0]["w"] = "(x)"
        # "writer_keeps_tree" (no data field changes at all) is NOT generated: it is stricter than the
        # property, which speaks of what is *produced*; stores that no later output can observe (export:
        # word <- '#500' on constituents, parent_num) are not violations.  The observable consequence is
        # judged by write_twice below (any writer after any writer == the output for a fresh tree).
        first = WRITERS[(i * 7 + 3) % len(WRITERS)]
        second = WRITERS[(i * 5 + 1) % len(WRITERS)]
        spec = _tree(ctx, continuous=True)
        if i % 2:
            tg.spec_leaves(spec)[0]["w"] = "(x)"
        yield "write_twice", {"spec": spec, "first": first, "second": second}, "ww%d" % i
    # (ii) histories
    for i in range(b["histories"]):
        call = _root_attach_call(ctx) if i % 5 == 4 else _random_call(ctx)
        hist = _history_for(ctx, call, i % b["history_max_calls"])
        yield "history", {"call": call, "history": hist}, "h%d" % i
    # the same terminal file (same name, unchanged content) used again for the same sentence id
    for i in range(b["same_file_histories"]):
        call, hist = _same_file_case(ctx, i)
        yield "history", {"call": call, "history": hist}, "s%d" % i
    # same terminal file name
    for i in range(b["cache_cases"]):
        fn = ["insert_terminals", "substitute_terminals"][i % 2]
        spec = _tree(ctx, n=rng.randint(2, 5), sid=1)
        l1 = [[1, 1, "ALT", "XA"]]
        l2 = [[1, 2, "NEU", "XN"]]
        mode = "changed-content"
        if i % 3 == 1:
            l1 = [[1, 1, "ALT", "XA"], [1, 1, "DOPPELT", "XA"]]
            mode = "after-valueerror"
        if i % 6 == 4:
            l2 = l1                     # the duplicate is still there: a ValueError again
        if mode == "changed-content":
            # NOT judged: the property's quantifier is "terminal files with different names"; rewriting a
            # file under the *same* name between two calls of one process is outside it (the cache is keyed
            # by file name by design).  Requiring a re-read would be stricter than the property
            # (DESIGN 7, F16: recorded as out of scope, not as a finding).
            continue
        yield "cache_same_name", {"fn": fn, "spec": spec, "lines1": l1, "lines2": l2, "mode": mode}, "c%d" % i
    # subprocess clauses last
    for i in range(b["fresh_process_histories"]):
        call = _random_call(ctx)
        if i % 2 == 0:
            # the sixteen transformations in turn
            chain = CHAINS[1 + (i // 2) % (len(CHAINS) - 1)]
            sid = rng.randint(1, 60)
            call = {"k": "trans", "chain": chain, "climb": True,
                    "spec": _trace_tree(ctx, sid) if chain[0][0] == "ptb_delete_traces" else _tree(ctx, sid=sid)}
            if _uses_tf(chain):
                call["tf"] = [[sid, 1, "neu", "XY"]]
        hist = _history_for(ctx, call, 3)
        yield "history_fresh_process", {"call": call, "history": hist}, "f%d" % i
    for i in range(b["same_file_fresh_process"]):
        call, hist = _same_file_case(ctx, i)
        yield "history_fresh_process", {"call": call, "history": hist}, "fs%d" % i
    names = sorted(CLI_CASES)
    for i in range(b["concat_cli"]):
        name = names[i % len(names)]
        cont = CLI_CASES[name]["fmt_in"] == "brackets" or CLI_CASES[name].get("continuous")
        A, B = _bank(ctx, 2, cont), _bank(ctx, 2, cont, first=3)
        yield "concat_cli", {"A": A, "B": B, "case": name}, "cli-" + name + str(i)
    prio = ["grammar-lopar", "grammar-pmcfg-optimal-markov", "grammar-rcg-leftright", "transitions-gap",
            "treeanalysis-gapdegree", "transform-chain", "transform-export-tigerxml", "grammar-lopar-leftright",
            "transform-brackets-export"]
    hnames = prio + [n for n in sorted(HASH_CASES) if n not in prio]
    for i in range(b["hashseed_commands"]):
        name = hnames[i % len(hnames)]
        cont = HASH_CASES[name]["fmt_in"] == "brackets" or HASH_CASES[name].get("continuous")
        specs = _bank(ctx, 6, cont)
        yield "hashseed_cli", {"specs": specs, "case": name, "seeds": b["hashseeds"]}, "hs-" + name + str(i)


def exhaustive(ctx):
    return False
