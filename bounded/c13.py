"""C13 bounded stand-in: the three punctuation movers put punctuation where documented and move
nothing else.  Parent identity is compared through a stable key (spec x.uid) attached to every node.

Witness: {"spec": tree spec, "ra": bool (root_attach first), "relc": bool} (relc only for symetrify;
ra is always true for verylow and symetrify, whose docstrings name root_attach as prerequisite).

Clauses (the property text, executable)
  verylow_placement      after punctuation_verylow every non-initial punctuation token is a sister of its
                         left neighbour token unless it sits in a constituent consisting only of punctuation
  verylow_frame          no non-punctuation token, not the sentence-initial token and no constituent
                         changes its parent; tokens/labels unchanged
  root_placement         after punctuation_root every punctuation token is a child of the root unless it
                         is the only child of its parent
  root_frame             no non-punctuation token and no constituent changes its parent
  symetrify_moves        punctuation_symetrify moves only paired-punctuation tokens, and only into a
                         constituent that directly contains another paired-punctuation token (or, with
                         relc, the token preceding a designated relative pronoun)
  symetrify_frame        no constituent changes its parent; tokens/labels unchanged
A transformation that raises on a tree of the domain violates every clause about its result.
"""
from vlib import tg
from bounded.common import Skip
from bounded import lib_transform as L

RULE = ("all tree shapes with n<=N tokens, D random decorations each: every token is punctuation "
        "with p=0.5 (half of those paired punctuation), unary wrappers (also over punctuation), "
        "shuffled stored child order, punctuation-only decorations, relative-pronoun POS for relc; "
        "hand-made families (consecutive punctuation, punctuation-only constituents, unary nodes "
        "over punctuation); seeded random trees to n=10; punctuation_root (documented "
        "'Prerequisite: none') with and without root_attach first, verylow and symetrify (documented "
        "prerequisite root_attach) after root_attach, symetrify with and without relc.  Non-trivial = distinct tree with "
        "both punctuation and non-punctuation tokens")


def BOUNDS(ctx):
    return {"exhaustive_shapes_n": 4 if ctx.quick else 5,
            "decorations_per_shape": 8,
            "random_trees": 1500 if ctx.quick else 10000, "random_max_n": 10}


SITES = {
    "verylow_placement": "trees.transform.punctuation_verylow",
    "verylow_frame": "trees.transform.punctuation_verylow",
    "root_placement": "trees.transform.punctuation_root",
    "root_frame": "trees.transform.punctuation_root",
    "symetrify_moves": "trees.transform.punctuation_symetrify",
    "symetrify_frame": "trees.transform.punctuation_symetrify",
}

def _run(ctx, w, step):
    """returns (pre spec, post spec) or a violation tuple"""
    trees = ctx.mod("trees")
    t = tg.build(L.uidify(w["spec"]), trees)
    if w.get("ra"):
        t = L.apply_step(ctx, "root_attach", t)
        if tg.wf_errors(t):
            raise Skip()
    pre = L.real_spec(t)
    kids_before = L.child_counts(t)
    try:
        r = L.apply_step(ctx, step, t)
    except Exception as e:
        return None, ("%s returns the tree" % step,
                      {"raised": "%s: %s" % (type(e).__name__, e), "wf_errors": L.describe_wreck(t),
                       "emptied_had_children": L.emptied_info(kids_before, L.top_of(t))})
    if r is not t:
        return None, ("returns the root that was passed in", "another node")
    # structural sanity needed to read parents off the result (links consistent, nothing lost);
    # childless constituents are C04's business and do not stop the comparison here
    errs = [e for e in tg.wf_errors(r) if not e.startswith("childless constituent")]
    if errs:
        return None, ("consistent parent/child links", {"wf_errors": errs[:4]})
    post = L.real_spec(r)
    return (pre, post), None


def _index(spec):
    """uid -> (spec, parent spec)"""
    return {L.xget(s, "uid"): (s, p) for s, p in L.all_specs(spec)}


def _is_token(s):
    return L.is_leaf(s) and s.get("n") is not None


def _frame(pre, post, may_move):
    """every node not allowed to move keeps its parent; node set, words, labels, edges unchanged"""
    i0, i1 = _index(pre), _index(post)
    if sorted(i0) != sorted(i1):
        return ("same nodes", "nodes %s -> %s" % (sorted(i0), sorted(i1)))
    for u, (s, p) in i0.items():
        s1, p1 = i1[u]
        a = {k: v for k, v in s.items() if k not in ("c", "x")}
        b = {k: v for k, v in s1.items() if k not in ("c", "x")}
        if "c" in s and "c" not in s1:
            b = {k: b.get(k) for k in a}      # emptied constituent: compare label/edge only
        if a != b:
            return ("node %s unchanged: %s" % (u, a), b)
        pu = None if p is None else L.xget(p, "uid")
        pu1 = None if p1 is None else L.xget(p1, "uid")
        if pu != pu1 and not may_move(s):
            what = "token %s" % L.show(s) if L.is_leaf(s) else "constituent %s" % s["l"]
            return ("%s keeps its parent %s" % (what, p and p["l"]), "now below %s" % (p1 and p1["l"]))
    return None


def c_verylow_placement(ctx, w):
    res, bad = _run(ctx, w, "punctuation_verylow")
    if bad:
        return bad
    pre, post = res
    i1 = _index(post)
    by_num = {s["n"]: (s, p) for s, p in i1.values() if _is_token(s)}
    for num in sorted(by_num):
        s, p = by_num[num]
        if num == 1 or s["w"] not in L.PUNCT:
            continue
        left_parent = by_num[num - 1][1]
        if p is left_parent:
            continue
        if all(wd in L.PUNCT for _, wd, _ in L.tokens(p)):
            continue
        return ("token %d %r is a sister of token %d (or sits in a punctuation-only constituent)"
                % (num, s["w"], num - 1), "tree %s" % L.show(post))
    return None


def c_verylow_frame(ctx, w):
    res, bad = _run(ctx, w, "punctuation_verylow")
    if bad:
        return bad
    pre, post = res
    return _frame(pre, post, lambda s: _is_token(s) and s["w"] in L.PUNCT and s["n"] != 1)


def c_root_placement(ctx, w):
    res, bad = _run(ctx, w, "punctuation_root")
    if bad:
        return bad
    pre, post = res
    for s, p in L.all_specs(post):
        if _is_token(s) and s["w"] in L.PUNCT:
            if p is post or len(p["c"]) == 1:
                continue
            return ("punctuation token %s is a child of the root (or the only child of its parent)"
                    % L.show(s), "below %s in %s" % (p["l"], L.show(post)))
    return None


def c_root_frame(ctx, w):
    res, bad = _run(ctx, w, "punctuation_root")
    if bad:
        return bad
    pre, post = res
    return _frame(pre, post, lambda s: _is_token(s) and s["w"] in L.PUNCT)


def _sym_step(w):
    return "punctuation_symetrify:relc" if w.get("relc") else "punctuation_symetrify"


def c_symetrify_moves(ctx, w):
    res, bad = _run(ctx, w, _sym_step(w))
    if bad:
        return bad
    pre, post = res
    i0, i1 = _index(pre), _index(post)
    toks = {s["n"]: s for s, _ in i1.values() if _is_token(s)}
    for u, (s, p) in i0.items():
        if u not in i1:
            return ("same nodes", "node %s lost" % u)
        s1, p1 = i1[u]
        pu = None if p is None else L.xget(p, "uid")
        pu1 = None if p1 is None else L.xget(p1, "uid")
        if pu == pu1 or not _is_token(s):
            continue                      # constituents: symetrify_frame
        if s["w"] not in L.PAIRPUNCT:
            return ("only paired punctuation moves", "token %s moved below %s" % (L.show(s), p1["l"]))
        ok = False
        for k in p1["c"]:
            if not _is_token(k) or k is s1:
                continue
            if k["w"] in L.PAIRPUNCT:
                ok = True
            nxt = toks.get(k["n"] + 1)
            if w.get("relc") and nxt is not None and nxt["l"] == L.RELC:
                ok = True
        if not ok:
            return ("token %s moved into a constituent that directly contains another paired "
                    "punctuation token%s" % (L.show(s), " or the token before a %s" % L.RELC
                                              if w.get("relc") else ""),
                    "new parent %s" % L.show(p1))
    return None


def c_symetrify_frame(ctx, w):
    res, bad = _run(ctx, w, _sym_step(w))
    if bad:
        return bad
    pre, post = res
    return _frame(pre, post, lambda s: _is_token(s))


CLAUSES = {"verylow_placement": c_verylow_placement, "verylow_frame": c_verylow_frame,
           "root_placement": c_root_placement, "root_frame": c_root_frame,
           "symetrify_moves": c_symetrify_moves, "symetrify_frame": c_symetrify_frame}


# ----------------------------------------------------------------------------
# generation
# ----------------------------------------------------------------------------
def _witnesses(spec):
    """punctuation_root is documented with 'Prerequisite: none': with and without root_attach;
    verylow and symetrify document root_attach as prerequisite: only after it (Appendix A)"""
    for ra in (False, True):
        for cl in ("root_placement", "root_frame"):
            yield cl, {"spec": spec, "ra": ra}
    for cl in ("verylow_placement", "verylow_frame"):
        yield cl, {"spec": spec, "ra": True}
    for relc in (False, True):
        for cl in ("symetrify_moves", "symetrify_frame"):
            yield cl, {"spec": spec, "ra": True, "relc": relc}


def _nt(spec):
    ws = [w for _, w, _ in L.tokens(spec)]
    return tg.spec_str(spec) if any(x in L.PUNCT for x in ws) and not all(x in L.PUNCT for x in ws) else None


def generate(ctx):
    b = BOUNDS(ctx)
    rng = ctx.rng
    for spec in L.handmade():
        for cl, w in _witnesses(spec):
            yield cl, w, _nt(spec)
    modes = ["mix", "mix", "mix", "allpunct", "mix", "mix", "mix", "mix"]
    for n in range(1, b["exhaustive_shapes_n"] + 1):
        for sh in tg.shapes(n):
            for d in range(b["decorations_per_shape"]):
                spec = L.decorate(sh, rng, modes[d % len(modes)], punct_p=0.5,
                                  unary_p=0.25 if d % 2 else 0.0, shuffle=bool(d % 2))
                for cl, w in _witnesses(spec):
                    yield cl, w, _nt(spec)
    for _ in range(b["random_trees"]):
        n = rng.randint(2, b["random_max_n"])
        spec = L.decorate(tg.random_shape(rng, n, p_flat=0.4, discont=0.3), rng, "mix",
                          punct_p=0.45, unary_p=0.2)
        for cl, w in _witnesses(spec):
            yield cl, w, _nt(spec)


def classify(clause, witness, expected, observed):
    """known defect (DESIGN F7): symetrify moved a candidate that was the only child of its
    parent and then trips over the emptied constituent"""
    if isinstance(observed, dict) and "raised" in observed:
        errs = observed.get("wf_errors") or []
        had = observed.get("emptied_had_children") or []
        if clause.startswith("symetrify") and errs and all("childless constituent" in e for e in errs) \
                and had and all(isinstance(k, int) and k >= 1 for k in had):
            return "raises-after-emptying-a-constituent"
        return "raises"
    return None


def exhaustive(ctx):
    return False
