"""C05 bounded stand-in: crossing-branch removal (head marking -> boyd_split -> raising).

Witness: {"spec": tree spec, "ra": bool (root_attach first), "marker": step name of the head marker}.
The head flags that boyd_split relies on are read from the head-marked tree (they are the *input*
of the clauses matches_ref_raise and split_blocks; head marking itself is property C15).  The
clauses continuous, tokens_labels and continuous_unchanged are statements about the whole
documented pipeline "head marking, boyd_split, raising" and are judged for whatever the head
marker produced.

Clauses
  continuous            after the pipeline every node covers a contiguous token span
  tokens_labels         token sequence and multiset of constituent labels unchanged, tree well formed,
                        the root passed in is returned
  continuous_unchanged  a tree that is continuous when it enters boyd_split comes back unchanged
  matches_ref_raise     result == ref_raise(head-marked input) (DESIGN section 5 C05)
  split_blocks          after boyd_split alone: a constituent with k token blocks <-> exactly k
                        same-labelled continuous nodes, one per block in order (block_number 1..k),
                        exactly one of them head block, visible through get_label(boyd_split_marking,
                        boyd_split_numbering)
"""
from vlib import tg
from bounded.common import Skip
from bounded import lib_transform as L

RULE = ("all tree shapes with n<=N tokens x every head assignment (one HD child per constituent, "
        "all other edges '--') for the NeGra heuristic, each with and without root_attach; the same "
        "shapes with one label decoration for the two rule presets; for each rule preset every "
        "category of the preset (priority-list rules, empty left-to-right and empty right-to-left "
        "rules, one category without rule) as the label of all discontinuous constituents of every "
        "discontinuous shape with n<=C tokens (a sample of K categories per shape for n=C+1), "
        "children labelled with categories / POS tags the rules mention; a second edge encoding of the "
        "heads (rightmost NK / leftmost default) on a sample; seeded random trees to n=10 with unary "
        "nodes, random HD/NK/-- edges and shuffled stored child order.  Non-trivial = distinct "
        "(tree, heads) whose input to boyd_split is discontinuous")


def BOUNDS(ctx):
    return {"exhaustive_shapes_n": 5 if ctx.quick else 6,
            "head_assignments": "all (HD encoding)",
            "nk_encoding_sample_p": 0.15 if ctx.quick else 0.1,
            "preset_categories_shapes_n": 4 if ctx.quick else 5,
            "preset_categories_sampled_n": 5,
            "preset_categories_sample_k": 3 if ctx.quick else 0,
            "random_trees": 150 if ctx.quick else 2500, "random_max_n": 10}


SITES = {
    "continuous": "trees.transform.raising",
    "tokens_labels": "trees.transform.raising",
    "continuous_unchanged": "trees.transform.boyd_split",
    "matches_ref_raise": "trees.transform.raising",
    "split_blocks": "trees.transform.boyd_split",
}


def _prepare(ctx, w, need_heads=True):
    """build, [root_attach], head marking.  Returns (tree, spec of the head-marked tree).
    need_heads: the clause takes the head flags as its input (one head child per constituent)"""
    trees = ctx.mod("trees")
    spec = L.uidify(w["spec"])
    t = tg.build(spec, trees)
    if w.get("ra"):
        t = L.apply_step(ctx, "root_attach", t)
    t = L.apply_step(ctx, w["marker"], t)
    marked = L.real_spec(t)
    if tg.wf_errors(t):
        raise Skip()        # C12 is judged elsewhere; here it only provides the input
    if need_heads and not L.head_children_ok(marked):
        raise Skip()        # C15 is judged elsewhere; here it only provides the input
    return t, marked


def _pipeline(ctx, w, need_heads=True):
    t, marked = _prepare(ctx, w, need_heads)
    try:
        r = L.apply_step(ctx, "boyd_split", t)
        r = L.apply_step(ctx, "raising", r)
    except Skip:
        raise
    except Exception as e:
        return t, marked, None, "raised %s: %s" % (type(e).__name__, e)
    return t, marked, r, None


def _wf(t, marked, r, err):
    if err:
        return ("the pipeline returns the tree", err)
    if r is not t:
        return ("returns the root that was passed in", "another node")
    errs = tg.wf_errors(r, expect_n=len(L.tokens(marked)))
    if errs:
        return ("a well-formed tree", {"wf_errors": errs[:4]})
    return None


def c_continuous(ctx, w):
    t, marked, r, err = _pipeline(ctx, w, need_heads=False)
    b = _wf(t, marked, r, err)
    if b:
        return b
    got = L.real_spec(r)
    for c in L.constituents(got):
        if tg.gap_degree_of_set(L.tokset(c)) != 0:
            return ("every node continuous", "%s covers %s in %s" % (c["l"], sorted(L.tokset(c)), L.show(got)))
    return None


def c_tokens_labels(ctx, w):
    t, marked, r, err = _pipeline(ctx, w, need_heads=False)
    b = _wf(t, marked, r, err)
    if b:
        return b
    got = L.real_spec(r)
    if L.tokens(got) != L.tokens(marked):
        return ({"tokens": L.tokens(marked)}, {"tokens": L.tokens(got)})
    if L.label_bag(got) != L.label_bag(marked):
        return ({"constituents": [l for _, l in L.label_bag(marked)]},
                {"constituents": [l for _, l in L.label_bag(got)], "tree": L.show(got)})
    return None


def c_continuous_unchanged(ctx, w):
    t, marked, r, err = _pipeline(ctx, w, need_heads=False)
    if not L.is_continuous(marked):
        raise Skip()
    b = _wf(t, marked, r, err)
    if b:
        return b
    got = L.real_spec(r)
    if L.canon(got) != L.canon(marked):
        return ({"tree": L.show(marked)}, {"tree": L.show(got)})
    return None


def c_matches_ref_raise(ctx, w):
    t, marked, r, err = _pipeline(ctx, w)
    b = _wf(t, marked, r, err)
    if b:
        return b
    exp = L.ref_raise(marked)
    got = L.real_spec(r)
    if L.canon(got) != L.canon(exp):
        return ({"tree": L.show(exp)}, {"tree": L.show(got)})
    return None


def c_split_blocks(ctx, w):
    trees = ctx.mod("trees")
    t, marked = _prepare(ctx, w)
    exp = L.expected_split(marked)
    try:
        r = L.apply_step(ctx, "boyd_split", t)
    except Exception as e:
        return ("boyd_split returns the tree", "raised %s: %s" % (type(e).__name__, e))
    b = _wf(t, marked, r, None)
    if b:
        return b
    ys = tg.model(r)["yield"]
    got = []
    for n in tg.all_nodes(r):
        if not n.children:
            continue
        y = sorted(ys[id(n)])
        d = n.data
        split = d.get("split")
        num = d.get("block_number") if split else None
        got.append((d.get("uid"), d.get("label"), tuple(y), num, d.get("head_block")))
        lab = trees.get_label(n, boyd_split_marking=True, boyd_split_numbering=True)
        want = d.get("label") + ("*%d" % num if split else "")
        if lab != want:
            return ("get_label shows %r" % want, lab)
        if tg.gap_degree_of_set(y) != 0:
            return ("every node continuous after boyd_split", "%s covers %s" % (d.get("label"), y))
    got.sort(key=repr)
    if got != exp:
        return ({"(uid,label,tokens,block_number,head_block)": [e for e in exp if e not in got][:4]},
                {"(uid,label,tokens,block_number,head_block)": [g for g in got if g not in exp][:4]})
    if L.tokens(L.real_spec(r)) != L.tokens(marked):
        return ({"tokens": L.tokens(marked)}, {"tokens": L.tokens(L.real_spec(r))})
    return None


CLAUSES = {"continuous": c_continuous, "tokens_labels": c_tokens_labels,
           "continuous_unchanged": c_continuous_unchanged,
           "matches_ref_raise": c_matches_ref_raise, "split_blocks": c_split_blocks}


# ----------------------------------------------------------------------------
# generation
# ----------------------------------------------------------------------------
RULE_LABELS = ["S", "VP", "NP", "PP", "AP"]
RULE_POS = ["NN", "VVFIN", "VVPP", "ART", "APPR", "ADJA", "VB", "IN", "$,"]


def _plain_spec(shape, rng):
    """labels/POS that the rule presets know, no unary nodes, edges all '--'"""
    def build(sh):
        if isinstance(sh, int):
            return tg.leaf_spec(sh, rng.choice(L.WORDS_PLAIN + [","]), rng.choice(RULE_POS))
        return tg.node_spec(rng.choice(RULE_LABELS), [build(c) for c in sh])
    kids = [build(shape)] if isinstance(shape, int) else [build(c) for c in shape]
    top = tg.node_spec("VROOT", kids)
    top["sid"] = 1
    return top


# categories of the two documented rule presets (trees/transformconst.py; own copy: they are the
# input domain "head assignments via the rule presets", not an expectation) + one without a rule
PRESET_CATS = {
    "negra": ["S", "VP", "VZ", "NP", "AP", "PP", "CO", "AVP", "AA", "CNP", "CAP", "CPP", "CS", "CVP",
              "CVZ", "CAVP", "MPN", "NM", "CAC", "CH", "MTA", "CCP", "DL", "ISU", "QL", "CD", "NN",
              "NR", "XY"],
    "ptb": ["ADJP", "ADVP", "CONJP", "FRAG", "INTJ", "LST", "NAC", "PP", "PRN", "PRT", "QP", "RRC",
            "S", "SBAR", "SBARQ", "SINV", "SQ", "UCP", "VP", "WHADJP", "WHADVP", "WHNP", "WHPP", "XY"],
}
PRESET_POS = {
    "negra": ["NN", "NE", "VVFIN", "VVPP", "VVINF", "VAFIN", "ART", "APPR", "ADJA", "ADJD", "ADV",
              "CARD", "PTKZU", "PROAV", "$,"],
    "ptb": ["NN", "NNS", "NNP", "VB", "VBD", "VBN", "MD", "IN", "TO", "DT", "JJ", "RB", "CC", "CD",
            "WDT", "RP", ","],
}


def _category_spec(shape, rng, preset, cat):
    """every discontinuous constituent is labelled `cat`, the others with categories of the
    preset, tokens with POS tags its rules mention; edges all '--', no unary nodes"""
    def build(sh):
        if isinstance(sh, int):
            return tg.leaf_spec(sh, rng.choice(L.WORDS_PLAIN + [","]), rng.choice(PRESET_POS[preset]))
        disc = len(tg.runs_of_set(tg.shape_leaves(sh))) > 1
        return tg.node_spec(cat if disc else rng.choice(PRESET_CATS[preset]), [build(c) for c in sh])
    top = tg.node_spec("VROOT", [build(c) for c in shape])
    top["sid"] = 1
    return top


def _category_specs(rng, full_n, sampled_n, sample_k):
    for n in range(3, sampled_n + 1):
        for sh in tg.shapes(n):
            if tg.shape_is_continuous(sh):
                continue
            for preset in ("negra", "ptb"):
                cats = PRESET_CATS[preset] if n <= full_n else rng.sample(PRESET_CATS[preset], sample_k)
                for cat in cats:
                    yield preset, _category_spec(sh, rng, preset, cat)


def _head_assignments(spec):
    """every choice of one head child per constituent (lists of child indices in preorder)"""
    import itertools
    cons = L.constituents(spec)
    for choice in itertools.product(*[range(len(c["c"])) for c in cons]):
        yield list(choice)


def _with_heads(spec, choice, encoding):
    """encode a head choice through edge labels.  Children are addressed in token order (the
    order the head markers see).  'HD': the head child gets HD.  'NK': if the head child is the
    leftmost, no marked edge at all (default leftmost); else it gets NK and so may children to
    its left (rightmost NK wins)."""
    import copy
    spec = copy.deepcopy(spec)
    for c, h in zip(L.constituents(spec), choice):
        kids = sorted(c["c"], key=L.minleaf)
        for i, k in enumerate(kids):
            if encoding == "HD":
                k["e"] = "HD" if i == h else ("NK" if i % 2 else "--")
            else:
                if h == 0:
                    k["e"] = "--"
                else:
                    k["e"] = "NK" if (i == h or (i < h and i % 2 == 0)) else "--"
    return spec


def _nt(w, spec_for_key):
    # non-trivial iff discontinuous before root_attach moves anything (cheap, spec based)
    return (tg.spec_str(spec_for_key), w["ra"], w["marker"]) if not L.is_continuous(spec_for_key) else None


def generate(ctx):
    b = BOUNDS(ctx)
    rng = ctx.rng
    for n in range(1, b["exhaustive_shapes_n"] + 1):
        for sh in tg.shapes(n):
            base = _plain_spec(sh, rng)
            for choice in _head_assignments(base):
                encs = ["HD"] + (["NK"] if rng.random() < b["nk_encoding_sample_p"] else [])
                for enc in encs:
                    spec = _with_heads(base, choice, enc)
                    for ra in (False, True):
                        w = {"spec": spec, "ra": ra, "marker": "negra_mark_heads"}
                        k = _nt(w, spec)
                        for c in CLAUSES:
                            yield c, w, k
            for marker in ("mark_heads_by_rules:negra", "mark_heads_by_rules:ptb"):
                for ra in (False, True):
                    w = {"spec": base, "ra": ra, "marker": marker}
                    k = _nt(w, base)
                    for c in CLAUSES:
                        yield c, w, k
    for preset, spec in _category_specs(rng, b["preset_categories_shapes_n"],
                                        b["preset_categories_sampled_n"], b["preset_categories_sample_k"]):
        for ra in (False, True):
            w = {"spec": spec, "ra": ra, "marker": "mark_heads_by_rules:" + preset}
            k = _nt(w, spec)
            for c in CLAUSES:
                yield c, w, k
    for _ in range(b["random_trees"]):
        n = rng.randint(2, b["random_max_n"])
        spec = L.decorate(tg.random_shape(rng, n, discont=0.7), rng, "mix", punct_p=0.2, unary_p=0.25)
        for marker in L.HEAD_MARKERS:
            for ra in (False, True):
                w = {"spec": spec, "ra": ra, "marker": marker}
                k = _nt(w, spec)
                for c in CLAUSES:
                    yield c, w, k


def classify(clause, witness, expected, observed):
    return None


def exhaustive(ctx):
    return False
