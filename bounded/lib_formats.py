"""Our own encoders and INDEPENDENT reference decoders for the treebank file
formats that treetools reads and writes (export v3/v4, brackets,
discobrackets, TIGER-XML, terminals).

Nothing in here imports or calls the code under test.  Encoders render
`vlib.tg` tree specs to text; decoders turn text back into tree specs, written
from the format definitions (Brants 1997 for export, the TIGER-XML DTD, the
docstrings of treeinput.brackets / discobrackets):

  leaf : {"n", "w", "l", "e", "m", "lem"}      node : {"l", "e", "c"}  root also {"sid"}

A field a format cannot carry is decoded as None.  `canon` turns a spec into a
nested list (children ordered by least token) restricted to the fields that
are to be compared, so that `canon(decode(text)) == canon(spec)` is the
comparison of sid / tokens / order / labels / edges / dominance.
"""
import contextlib
import gzip
import io
import os
import re
import shutil
import tempfile
import xml.etree.ElementTree as ET

from vlib import tg

# ----------------------------------------------------------------------------
# constants taken from the documentation of the package (hard-coded here on
# purpose: the oracle must not read them from the code under test)
# ----------------------------------------------------------------------------
ROOT_LABEL = "VROOT"       # label of the virtual root
EMPTY = "--"               # documented default of lemma / morph / edge
EMPTY_POS = "EMPTY"        # documented default label (used for an empty POS tag)
PAREN_NAMES = {"(": "LRB", ")": "RRB", "[": "LSB", "]": "RSB", "{": "LCB", "}": "RCB"}
PTB_NAMES = {"-LRB-": "LRB", "-RRB-": "RRB", "-LSB-": "LSB", "-RSB-": "RSB",
             "-LCB-": "LCB", "-RCB-": "RCB"}
WS_CHARS = " \t\n\r\x0b\x0c"


class DecodeError(Exception):
    """the text is not a well-formed file of the format"""


class Unterminated(DecodeError):
    """input ends inside a bracket group"""


def ref_replace_parens(s):
    """documented name mapping for parentheses inside tokens"""
    if s is None:
        return None
    for k, v in PTB_NAMES.items():
        s = s.replace(k, v)
    for k, v in PAREN_NAMES.items():
        s = s.replace(k, v)
    return s


def ptb_escape(s):
    """how OUR bracket encoder has to write a parenthesis inside a token
    (the file format has no other way): PTB style -LRB- ..."""
    for k, v in PAREN_NAMES.items():
        s = s.replace(k, "-" + v + "-")
    return s


def has_paren(s):
    return s is not None and any(ch in s for ch in PAREN_NAMES)


def ref_split_gf(label, sep="-"):
    """Reference for the gf_split reader option, from the label grammar in the
    docstring of parse_label:
        LABEL (GF_SEP GF)? (= GAPINDEX)? (- COINDEX)? HEADMARKER?
    Returns (label without the function, function or "--").  Only called on
    labels where the grammar is unambiguous (at most one GF_SEP inside)."""
    head = ""
    if label.endswith("'"):
        head, label = "'", label[:-1]
    co = ""
    m = re.search(r"-(\d+)$", label)
    if m:
        co, label = m.group(1), label[:m.start()]
    gap = ""
    m = re.search(r"=(\d+)$", label)
    if m:
        gap, label = m.group(1), label[:m.start()]
    gf = EMPTY
    pos = label.find(sep)
    if 0 < pos < len(label) - len(sep):
        gf, label = label[pos + len(sep):], label[:pos]
    out = label + ("=" + gap if gap else "") + ("-" + co if co else "") + head
    return out, gf


# ----------------------------------------------------------------------------
# spec helpers
# ----------------------------------------------------------------------------

def map_spec(spec, leaf_fn=None, node_fn=None):
    """deep copy of a spec with leaf_fn(leaf_copy) / node_fn(node_copy) applied"""
    def rec(s):
        if tg.is_leaf_spec(s):
            c = dict(s)
            if leaf_fn:
                leaf_fn(c)
            return c
        c = dict(s)
        c["c"] = [rec(k) for k in s["c"]]
        if node_fn:
            node_fn(c)
        return c
    return rec(spec)


def _minleaf(spec):
    if tg.is_leaf_spec(spec):
        return spec["n"] if spec["n"] is not None else 10 ** 9
    return min([_minleaf(c) for c in spec["c"]] or [10 ** 9])


def canon(spec, leaf_fields=("w", "l", "e", "m", "lem"), node_fields=("l", "e")):
    """nested-list canonical form, children ordered by least token number"""
    def rec(s):
        if tg.is_leaf_spec(s):
            return ["T", s.get("n")] + [s.get(f) for f in leaf_fields]
        kids = sorted(s["c"], key=_minleaf)
        return ["N"] + [s.get(f) for f in node_fields] + [[rec(k) for k in kids]]
    return rec(spec)


def canon_corpus(specs, leaf_fields, node_fields, sid=True):
    return [{"sid": s.get("sid") if sid else None, "tree": canon(s, leaf_fields, node_fields)}
            for s in specs]


def spec_is_continuous(spec):
    for s, _ in tg.spec_nodes(spec):
        if tg.gap_degree_of_set([l["n"] for l in tg.spec_leaves(s)]) > 0:
            return False
    return True


def spec_words(spec):
    return [l["w"] for l in tg.spec_leaves(spec)]


def first_diff_t(a, b, path="$"):
    """first difference between two canon structures as (path, a_value, b_value) or None"""
    if type(a) != type(b):
        return (path, a, b)
    if isinstance(a, list):
        if len(a) != len(b):
            return (path + ".len", _short(a), _short(b))
        for i, (x, y) in enumerate(zip(a, b)):
            d = first_diff_t(x, y, "%s[%d]" % (path, i))
            if d:
                return d
        return None
    if isinstance(a, dict):
        for k in sorted(set(a) | set(b)):
            if k not in a or k not in b:
                return (path + "." + k, a.get(k, "<missing>"), b.get(k, "<missing>"))
            d = first_diff_t(a[k], b[k], "%s.%s" % (path, k))
            if d:
                return d
        return None
    return None if a == b else (path, a, b)


def first_diff(a, b):
    d = first_diff_t(a, b)
    return None if d is None else "%s: %r != %r" % d


def _short(x):
    s = repr(x)
    return s if len(s) < 160 else s[:157] + "..."


@contextlib.contextmanager
def scratch():
    """a private temp dir; while inside, tempfile's default dir points into it
    as well, so that temp files the code under test forgets (misc.gunzip) do
    not stay behind in /tmp"""
    d = tempfile.mkdtemp(prefix="verif_b_")
    old = tempfile.tempdir
    tempfile.tempdir = d
    try:
        yield d
    finally:
        tempfile.tempdir = old
        shutil.rmtree(d, ignore_errors=True)


def write_file(path, text, encoding="utf-8", gz=False):
    data = text if isinstance(text, bytes) else text.encode(encoding)
    if gz:
        with gzip.open(path, "wb") as fh:
            fh.write(data)
    else:
        with open(path, "wb") as fh:
            fh.write(data)
    return path


# ----------------------------------------------------------------------------
# ENCODERS
# ----------------------------------------------------------------------------

def _d(v):
    return EMPTY if v is None else v


def _tabs(field, width):
    """tabs that bring a field of the given length to the next column of a
    `width`-wide (multiple of 8) column, tab stops every 8; at least one"""
    return "\t" * max(1, (width - (len(field) // 8) * 8 + 7) // 8)


def export_line(fields, layout="aligned"):
    """fields: [word, (lemma,) label, morph, edge, parent] as strings"""
    if layout == "tab":
        return "\t".join(fields)
    if layout == "space":
        return "  ".join(fields)
    widths = [24, 24, 8, 16, 8] if len(fields) == 6 else [24, 8, 16, 8]
    out = ""
    for f, w in zip(fields[:-1], widths):
        out += f + _tabs(f, w)
    return out + fields[-1]


def export_numbering(spec, scheme="level"):
    """numbers >= 500 for every constituent below the root; children always
    numbered below their parent.  Returns {id(node_spec): num}"""
    nodes = [s for s, p in tg.spec_nodes(spec) if p is not None and not tg.is_leaf_spec(s)]
    if scheme == "post":
        order = []

        def rec(s):
            if tg.is_leaf_spec(s):
                return
            for c in sorted(s["c"], key=_minleaf):
                rec(c)
            order.append(s)
        for c in sorted(spec["c"], key=_minleaf):
            rec(c)
    else:
        def height(s):
            return 0 if tg.is_leaf_spec(s) else 1 + max(height(c) for c in s["c"])
        order = sorted(nodes, key=lambda s: (height(s), _minleaf(s)))
    return {id(s): 500 + i for i, s in enumerate(order)}


def enc_export(specs, version=3, layout="aligned", header=False, tables=False,
               comments=False, secedges=False, scheme="level", bos_extra=False,
               gf_decorate=False, blank_lines=False):
    """Brants (1997) export format.  The root of each spec is the virtual root
    (node 0) and is not written."""
    out = []
    if header:
        out.append("%% a comment line before the header")
        out.append("#FORMAT %d" % version)
    if tables:
        out += ["#BOT ORIGIN", "0\tour own encoder", "#EOT ORIGIN",
                "#BOT EDITOR", "0\tverif", "#EOT EDITOR",
                "#BOT WORDTAG", "0\tNN\tN\tnoun", "1\tVB\tN\tverb", "#EOT WORDTAG",
                "#BOT SECEDGETAG", "0\tRE\trepeated element", "#EOT SECEDGETAG"]
    for spec in specs:
        if spec["l"] != ROOT_LABEL:
            raise ValueError("export cannot carry a root label other than VROOT")
        nums = export_numbering(spec, scheme)
        nums[id(spec)] = 0
        sid = spec["sid"]
        bos = "#BOS %d" % sid
        if bos_extra:
            bos += " 2 1098876543 1"
            if comments:
                bos += " %% sentence " + str(sid) + " (a comment)"
        out.append(bos)
        rows = []
        k = 0
        parent_of = {id(s): p for s, p in tg.spec_nodes(spec)}
        for leaf in tg.spec_leaves(spec):
            lab = leaf["l"]
            if gf_decorate and leaf.get("e") not in (None, EMPTY):
                lab = lab + "-" + leaf["e"]
            f = [leaf["w"]] + ([_d(leaf.get("lem"))] if version == 4 else []) + \
                [lab, _d(leaf.get("m")), _d(leaf.get("e")), str(nums[id(parent_of[id(leaf)])])]
            rows.append(f)
        cons = [s for s, p in tg.spec_nodes(spec) if p is not None and not tg.is_leaf_spec(s)]
        for s in sorted(cons, key=lambda s: nums[id(s)]):
            lab = s["l"]
            if gf_decorate and s.get("e") not in (None, EMPTY):
                lab = lab + "-" + s["e"]
            f = ["#%d" % nums[id(s)]] + ([EMPTY] if version == 4 else []) + \
                [lab, EMPTY, _d(s.get("e")), str(nums[id(parent_of[id(s)])])]
            rows.append(f)
        for f in rows:
            line = export_line(f, layout)
            if secedges and k % 3 == 1 and cons:
                line += "\tRE\t%d" % nums[id(cons[0])]
            if comments and k % 2 == 0:
                line += " %% remark no " + str(k)
            k += 1
            out.append(line)
        out.append("#EOS %d" % sid)
        if blank_lines:
            out.append("")
    return "\n".join(out) + "\n"


def enc_brackets(specs, layout="line", root="label", disco_base=None, gf_decorate=False,
                 final_newline=True, emptypos_every=0, shuffle_rng=None, between=""):
    """Bracketed trees.  layout: line | compact | pretty | spacey | twolines.
    root: "label" (root label written) | "empty" (PTB style: no root label).
    disco_base None: ordinary brackets (tree must be continuous, tokens in
    order); 0 / 1: discobrackets -- tokens replaced by indices starting at the
    base, then TAB and the space separated sentence (one tree per line).
    emptypos_every k>0: every k-th token is written without POS tag "(word)"."""
    out = []
    for spec in specs:
        disco = disco_base is not None
        if not disco and not spec_is_continuous(spec):
            raise ValueError("brackets cannot carry a discontinuous tree")
        counter = [0]

        def lab_of(s):
            lab = s["l"]
            if gf_decorate and s.get("e") not in (None, EMPTY):
                lab = lab + "-" + s["e"]
            if has_paren(lab):
                raise ValueError("labels must not contain parentheses in bracket formats")
            return lab

        def rec(s, depth, is_root):
            if tg.is_leaf_spec(s):
                counter[0] += 1
                if disco:
                    w = str(s["n"] - 1 + disco_base)
                else:
                    w = s["w"]
                    if has_paren(w):
                        raise ValueError("token with parenthesis cannot be written: escape it first")
                if emptypos_every and counter[0] % emptypos_every == 0:
                    return "(%s)" % w
                if layout == "spacey":
                    return ("( %s   %s )" if disco else "( %s \t %s )") % (lab_of(s), w)
                if layout == "twolines":
                    return "(%s\n%s)" % (lab_of(s), w)
                return "(%s %s)" % (lab_of(s), w)
            kids = list(s["c"])
            if shuffle_rng is not None and disco:
                shuffle_rng.shuffle(kids)
            else:
                kids = sorted(kids, key=_minleaf)
            lab = "" if (is_root and root == "empty") else lab_of(s)
            parts = [rec(k, depth + 1, False) for k in kids]
            if layout == "compact":
                return "(" + lab + "".join(parts) + ")"
            if layout == "pretty":
                ind = "\n" + "  " * (depth + 1)
                return "(" + lab + ind + ind.join(parts) + ")"
            if layout == "spacey":
                return "( " + lab + "  " + "   ".join(parts) + " )"
            if layout == "twolines":
                return "(" + lab + "\n" + "\n".join(parts) + "\n)"
            return "(" + lab + " " + " ".join(parts) + ")"
        if root == "empty" and spec["l"] != ROOT_LABEL:
            raise ValueError("an empty root label stands for VROOT")
        if disco and layout in ("pretty", "twolines"):
            raise ValueError("discobrackets is one tree per line")
        text = rec(spec, 0, True)
        if disco:
            text += "\t" + " ".join(spec_words(spec))
        out.append(text)
    sep = "\n" + between
    text = sep.join(out)
    if final_newline:
        text += "\n"
    return text


def xml_attr(v):
    return '"' + v.replace("&", "&amp;").replace("<", "&lt;").replace(">", "&gt;") \
        .replace('"', "&quot;") + '"'


def enc_tigerxml(specs, rng=None, encoding="utf-8", omit_vroot=False, secedges=False,
                 header=True, gf_decorate=False, id_style="s%d_%d", omit_lemma=False, sid_style="s%d"):
    """TIGER-XML.  With rng: attribute order, order of <nt> elements and of the
    <edge> elements inside an <nt> are permuted (the order of <t> elements IS the
    sentence order and stays).  omit_vroot: the VROOT node is not written when
    it has exactly one child (the reader is documented to add it).  The sentence
    number is the LAST number in the id of <s> (sid_style may contain others)."""
    def attrs(pairs):
        pairs = list(pairs)
        if rng is not None:
            rng.shuffle(pairs)
        return " ".join("%s=%s" % (k, xml_attr(v)) for k, v in pairs)
    out = ['<?xml version="1.0" encoding="%s" standalone="yes"?>' % encoding, "<corpus id=\"verif\">"]
    if header:
        out += ["<head>", "<meta><name>verif &amp; co</name></meta>", "<annotation>",
                '<feature name="word" domain="T" />', '<feature name="pos" domain="T" />',
                "</annotation>", "</head>"]
    out.append("<body>")
    for spec in specs:
        sid = spec["sid"]
        top = spec
        if omit_vroot and spec["l"] == ROOT_LABEL and len(spec["c"]) == 1 \
                and not tg.is_leaf_spec(spec["c"][0]) and spec["c"][0].get("e") in (None, EMPTY):
            top = spec["c"][0]
        nums = export_numbering(spec, "post")
        nums[id(spec)] = 0

        def nid(s):
            return id_style % (sid, s["n"] if tg.is_leaf_spec(s) else nums[id(s)])
        out.append("<s %s>" % attrs([("id", sid_style % sid)]))
        out.append("<graph %s>" % attrs([("root", nid(top)), ("discontinuous", "true")]))
        out.append("<terminals>")
        for leaf in tg.spec_leaves(spec):
            lab = leaf["l"]
            if gf_decorate and leaf.get("e") not in (None, EMPTY):
                lab = lab + "-" + leaf["e"]
            pairs = [("id", nid(leaf)), ("word", leaf["w"]), ("pos", lab), ("morph", _d(leaf.get("m")))]
            if not omit_lemma:
                pairs.append(("lemma", _d(leaf.get("lem"))))
            out.append("<t %s />" % attrs(pairs))
        out.append("</terminals>")
        out.append("<nonterminals>")
        cons = [s for s, p in tg.spec_nodes(top) if not tg.is_leaf_spec(s)]
        if rng is not None:
            rng.shuffle(cons)
        for s in cons:
            lab = s["l"]
            if gf_decorate and s.get("e") not in (None, EMPTY):
                lab = lab + "-" + s["e"]
            out.append("<nt %s>" % attrs([("id", nid(s)), ("cat", lab)]))
            kids = list(s["c"])
            if rng is not None:
                rng.shuffle(kids)
            for i, c in enumerate(kids):
                out.append("  <edge %s />" % attrs([("label", _d(c.get("e"))), ("idref", nid(c))]))
                if secedges and i == 0 and len(cons) > 1:
                    out.append("  <secedge %s />" % attrs([("label", "RE"), ("idref", nid(cons[0]))]))
            out.append("</nt>")
        out.append("</nonterminals>")
        out.append("</graph>")
        out.append("</s>")
    out += ["</body>", "</corpus>"]
    return ("\n".join(out) + "\n").encode(encoding)


# ----------------------------------------------------------------------------
# REFERENCE DECODERS
# ----------------------------------------------------------------------------

def lex_brackets(text):
    """(class, text) pairs: "(" | ")" | "ws" | "tok" -- from the format
    definition: parentheses are structural, whitespace separates"""
    out = []
    i, n = 0, len(text)
    while i < n:
        ch = text[i]
        if ch in "()":
            out.append((ch, ch))
            i += 1
        elif ch in WS_CHARS:
            j = i
            while j < n and text[j] in WS_CHARS:
                j += 1
            out.append(("ws", text[i:j]))
            i = j
        else:
            j = i
            while j < n and text[j] not in WS_CHARS and text[j] not in "()":
                j += 1
            out.append(("tok", text[i:j]))
            i = j
    return out


class _BracketParser(object):
    """recursive descent over the token list for the grammar

        group      := "(" ws* ( label body | children )  ")"      -- the second
                      alternative (empty label) only for the outermost group
        body       := children                  -- "(" directly after the label
                    | ws+ word ws*              -- a token
                    | ws+ children
                    | <nothing>                 -- only with emptypos: "(word)"
        children   := group ( ws* group )* ws*
    """

    def __init__(self, toks, emptypos=False):
        self.toks = toks
        self.i = 0
        self.emptypos = emptypos
        self.leafno = 0

    def peek(self):
        return self.toks[self.i][0] if self.i < len(self.toks) else None

    def skip_ws(self):
        while self.peek() == "ws":
            self.i += 1

    def group(self, is_root):
        assert self.peek() == "("
        self.i += 1
        self.skip_ws()
        k = self.peek()
        if k is None:
            raise Unterminated("input ends after (")
        if k == ")":
            raise DecodeError("empty group")
        if k == "(":
            if not is_root:
                raise DecodeError("label missing")
            node = {"l": None, "e": None, "c": []}
            self.children(node)
            return node
        label = self.toks[self.i][1]
        self.i += 1
        k = self.peek()
        if k is None:
            raise Unterminated("input ends after label")
        if k == ")":
            if not self.emptypos:
                raise DecodeError("group with a label only")
            self.i += 1
            self.leafno += 1
            return {"n": self.leafno, "w": label, "l": EMPTY_POS, "e": None, "m": None, "lem": None}
        if k == "(":
            node = {"l": label, "e": None, "c": []}
            self.children(node)
            return node
        assert k == "ws"
        self.skip_ws()
        k = self.peek()
        if k is None:
            raise Unterminated("input ends after label")
        if k == ")":
            raise DecodeError("label followed by whitespace and )")
        if k == "tok":
            word = self.toks[self.i][1]
            self.i += 1
            self.skip_ws()
            k = self.peek()
            if k is None:
                raise Unterminated("input ends after word")
            if k != ")":
                raise DecodeError("expected ) after word")
            self.i += 1
            self.leafno += 1
            return {"n": self.leafno, "w": word, "l": label, "e": None, "m": None, "lem": None}
        node = {"l": label, "e": None, "c": []}
        self.children(node)
        return node

    def children(self, node):
        while True:
            node["c"].append(self.group(False))
            self.skip_ws()
            k = self.peek()
            if k is None:
                raise Unterminated("input ends inside group")
            if k == "(":
                continue
            if k == ")":
                self.i += 1
                return
            raise DecodeError("token between groups inside a group")


def bracket_groups(text, emptypos=False, empty_root=ROOT_LABEL):
    """Scan a text for bracket groups (a group starts at a "(" at depth 0;
    anything else at depth 0 is not a group and is skipped).  Returns
    (specs, error): specs of the well-formed groups before the first
    ill-formed one, error None | "ill-formed: ..." | "unterminated: ..."."""
    toks = lex_brackets(text)
    p = _BracketParser(toks, emptypos)
    specs = []
    while p.i < len(toks):
        if p.peek() != "(":
            p.i += 1
            continue
        p.leafno = 0
        try:
            s = p.group(True)
        except Unterminated as e:
            return specs, "unterminated: %s" % e
        except DecodeError as e:
            return specs, "ill-formed: %s" % e
        if s["l"] is None:
            s["l"] = empty_root
        specs.append(s)
    return specs, None


def dec_brackets(text, emptypos=False, first_id=1, empty_root=ROOT_LABEL):
    """well-formed bracket corpus -> specs (sid counted from first_id)"""
    specs, err = bracket_groups(text, emptypos, empty_root)
    if err:
        raise DecodeError(err)
    for i, s in enumerate(specs):
        s["sid"] = first_id + i
    return specs


def dec_discobrackets(text, base=1, first_id=1, split_sentence=None, empty_root=ROOT_LABEL):
    """one tree per line, TAB, space separated sentence; terminals are indices
    starting at `base`"""
    specs = []
    for line in text.split("\n"):
        if line.strip() == "":
            continue
        depth, end = 0, None
        for i, ch in enumerate(line):
            if ch == "(":
                depth += 1
            elif ch == ")":
                depth -= 1
                if depth == 0:
                    end = i + 1
                    break
        if end is None or line[end:end + 1] != "\t":
            raise DecodeError("no TAB separated sentence after the tree")
        tree_part, sent_part = line[:end], line[end + 1:]
        got, err = bracket_groups(tree_part, False, empty_root)
        if err or len(got) != 1:
            raise DecodeError("tree part: %s / %d groups" % (err, len(got)))
        spec = got[0]
        words = sent_part.split(" ") if split_sentence is None else split_sentence(sent_part)
        leaves = []
        for s, _ in tg.spec_nodes(spec):
            if tg.is_leaf_spec(s):
                leaves.append(s)
        seen = set()
        for l in leaves:
            if not re.match(r"^\d+$", l["w"]):
                raise DecodeError("terminal %r is not an index" % l["w"])
            n = int(l["w"]) - base + 1
            if not 1 <= n <= len(words) or n in seen:
                raise DecodeError("index %s outside the sentence or repeated (base %d, %d words)"
                                  % (l["w"], base, len(words)))
            seen.add(n)
            l["n"] = n
            l["w"] = words[n - 1]
        if len(seen) != len(words):
            raise DecodeError("%d indices for %d words" % (len(seen), len(words)))
        spec["sid"] = first_id + len(specs)
        specs.append(spec)
    return specs


_NODE_REF = re.compile(r"^#\d{3}$")


def dec_export_table(text):
    """line-table decoder: list of sentences {"sid","eos","version","rows"};
    a row is {"word","lemma","label","morph","edge","parent","raw","rest"}.
    Everything outside #BOS..#EOS is ignored (headers, tables, comments)."""
    sents = []
    cur = None
    fmt = None
    for raw in text.split("\n"):
        line = raw.strip()
        if cur is None:
            if line.startswith("#FORMAT"):
                fmt = int(line.split()[1])
            if line.startswith("#BOS"):
                cur = {"sid": int(line.split()[1]), "rows": [], "version": fmt}
            continue
        if line.startswith("#EOS"):
            cur["eos"] = int(line.split()[1])
            sents.append(cur)
            cur = None
            continue
        if line == "":
            raise DecodeError("empty line inside a sentence")
        f = line.split()
        if len(f) < 5:
            raise DecodeError("node line with fewer than five fields: %r" % line)
        # v3: word tag morph edge parent ...   v4: word lemma tag morph edge parent ...
        version = cur["version"]
        if version is None:
            version = 3 if re.match(r"^\d+$", f[4]) else 4
        if version == 3:
            word, lemma, label, morph, edge, parent = f[0], None, f[1], f[2], f[3], f[4]
            rest = f[5:]
        else:
            if len(f) < 6:
                raise DecodeError("v4 node line with fewer than six fields: %r" % line)
            word, lemma, label, morph, edge, parent = f[:6]
            rest = f[6:]
        if not re.match(r"^\d+$", parent):
            raise DecodeError("parent field %r is not a number in %r" % (parent, line))
        cur["rows"].append({"word": word, "lemma": lemma, "label": label, "morph": morph,
                            "edge": edge, "parent": int(parent), "raw": raw, "rest": rest,
                            "version": version})
    if cur is not None:
        raise DecodeError("#EOS missing")
    return sents


def export_sentence_to_spec(sent):
    nodes = {0: {"l": ROOT_LABEL, "e": EMPTY, "c": []}}
    order = []
    n = 0
    for r in sent["rows"]:
        if _NODE_REF.match(r["word"]):
            num = int(r["word"][1:])
            if num in nodes:
                raise DecodeError("node number %d used twice" % num)
            nodes[num] = {"l": r["label"], "e": r["edge"], "c": []}
        else:
            n += 1
            num = n
            nodes[num] = {"n": n, "w": r["word"], "l": r["label"], "e": r["edge"],
                          "m": r["morph"], "lem": r["lemma"]}
        order.append((num, r["parent"]))
    for num, par in order:
        if par not in nodes or tg.is_leaf_spec(nodes[par]):
            raise DecodeError("parent %d of node %d does not exist" % (par, num))
        nodes[par]["c"].append(nodes[num])
    spec = nodes[0]
    # everything must hang below node 0 exactly once, no childless constituent
    seen = set()

    def rec(s):
        if id(s) in seen:
            raise DecodeError("cycle")
        seen.add(id(s))
        if not tg.is_leaf_spec(s):
            if not s["c"]:
                raise DecodeError("constituent %s without children" % s["l"])
            for c in s["c"]:
                rec(c)
    rec(spec)
    if len(seen) != len(nodes):
        raise DecodeError("%d nodes not connected to the root" % (len(nodes) - len(seen)))
    spec["sid"] = sent["sid"]
    return spec


def dec_export(text):
    return [export_sentence_to_spec(s) for s in dec_export_table(text)]


def dec_tigerxml(data, add_vroot=True):
    """TIGER-XML via ElementTree.  `data` bytes (as any XML consumer would get
    them) or str.  Token order = order of the <t> elements; the root is the
    node without incoming edge; if its label is not VROOT a unary VROOT is put
    on top (documented behaviour of the reader) when add_vroot."""
    try:
        root = ET.fromstring(data)
    except ET.ParseError as e:
        raise DecodeError("not well-formed XML: %s" % e)
    body = root.find("body") if root.tag != "body" else root
    if body is None:
        raise DecodeError("no <body>")
    specs = []
    for s_el in body.findall("s"):
        digits = re.findall(r"\d+", s_el.get("id") or "")
        if not digits:
            raise DecodeError("sentence id without number")
        sid = int(digits[-1])
        graph = s_el.find("graph")
        nodes = {}
        n = 0
        for t in graph.find("terminals").findall("t"):
            n += 1
            if t.get("id") in nodes:
                raise DecodeError("duplicate id")
            nodes[t.get("id")] = {"n": n, "w": t.get("word"), "l": t.get("pos"), "e": EMPTY,
                                  "m": t.get("morph"), "lem": t.get("lemma")}
        nts = graph.find("nonterminals")
        nt_list = nts.findall("nt") if nts is not None else []
        for nt in nt_list:
            if nt.get("id") in nodes:
                raise DecodeError("duplicate id")
            nodes[nt.get("id")] = {"l": nt.get("cat"), "e": EMPTY, "c": []}
        has_parent = set()
        for nt in nt_list:
            me = nodes[nt.get("id")]
            for e in nt.findall("edge"):
                ref = e.get("idref")
                if ref not in nodes:
                    raise DecodeError("idref %r does not resolve" % ref)
                if ref in has_parent:
                    raise DecodeError("two incoming edges for %r" % ref)
                has_parent.add(ref)
                nodes[ref]["e"] = e.get("label")
                me["c"].append(nodes[ref])
        roots = [k for k in nodes if k not in has_parent]
        if len(roots) != 1:
            raise DecodeError("%d roots" % len(roots))
        top = nodes[roots[0]]
        seen = set()

        def rec(s):
            if id(s) in seen:
                raise DecodeError("cycle")
            seen.add(id(s))
            if not tg.is_leaf_spec(s):
                if not s["c"]:
                    raise DecodeError("constituent without children")
                for c in s["c"]:
                    rec(c)
        rec(top)
        if len(seen) != len(nodes):
            raise DecodeError("unconnected nodes")
        if add_vroot and top["l"] != ROOT_LABEL:
            top = {"l": ROOT_LABEL, "e": EMPTY, "c": [top]}
        top["sid"] = sid
        specs.append(top)
    return specs


def dec_terminals(text, one=False, pos=False, pos_only=False):
    """terminals format -> list of sentences, each a list of (word, pos)
    (None for what is not written).  Default: one sentence per line, tokens
    separated by whitespace; `one`: one token per line, sentences separated
    by an empty line; `pos`: word/POS (word TAB POS with `one`)."""
    sents = []
    if one:
        cur = []
        lines = text.split("\n")
        if lines and lines[-1] == "":
            lines.pop()
        for line in lines:
            if line.strip() == "":
                sents.append(cur)
                cur = []
                continue
            if pos:
                if "\t" not in line:
                    raise DecodeError("word TAB pos expected: %r" % line)
                w, p = line.split("\t", 1)
                cur.append((w, p))
            elif pos_only:
                cur.append((None, line))
            else:
                cur.append((line, None))
        if cur:
            raise DecodeError("last sentence not terminated by an empty line")
        return sents
    lines = text.split("\n")
    if lines and lines[-1] == "":
        lines.pop()
    else:
        raise DecodeError("last line not terminated")
    for line in lines:
        cur = []
        for item in line.split():
            if pos:
                if "/" not in item:
                    raise DecodeError("word/pos expected: %r" % item)
                w, p = item.rsplit("/", 1)
                cur.append((w, p))
            elif pos_only:
                cur.append((None, item))
            else:
                cur.append((item, None))
        sents.append(cur)
    return sents


# ----------------------------------------------------------------------------
# what each format carries (fields of tokens, fields of constituents, sid)
# ----------------------------------------------------------------------------
CARRY = {
    "export3": (("w", "l", "m", "e"), ("l", "e"), True),
    "export4": (("w", "l", "m", "e", "lem"), ("l", "e"), True),
    "brackets": (("w", "l"), ("l",), False),
    "discobrackets": (("w", "l"), ("l",), False),
    "tigerxml": (("w", "l", "m", "e", "lem"), ("l", "e"), True),
    "terminals": (("w",), (), False),
}


# ----------------------------------------------------------------------------
# corpus generation shared by c01 / c02 / c03
# ----------------------------------------------------------------------------
MORPHS = ["--", "Nom.Sg.Masc", "3.Sg.Pres.Ind", "Dat.Pl", "Nom.Sg.", "Nom.Sg.M"]      # lengths 2,11,13,6,7,8
LEMMAS = ["--", "der", "Hund", "bellen", "äußern", "1234567", "12345678", "123456789012345", "1234567890123456"]
# fields at and beyond the width of their export column (word / lemma 24, morph 16): one tab, never none
LONG_LENGTHS = [23, 24, 25, 31, 32, 40]
LONG_MORPH_LENGTHS = [15, 16, 17, 24]
LONG_FIELDS = ["ABCDEFGHIJKLMNOPQRSTUVWXYZabcdefghijklmnopqrstuvwxyz"[:n] for n in LONG_LENGTHS]
LONG_MORPHS = ["3.Sg.Pres.Ind.Akt.Nom.Sg.Masc"[:n] for n in LONG_MORPH_LENGTHS]
WORDS_ALL = tg.WORDS_PLAIN + tg.WORDS_PUNCT + tg.WORDS_SPECIAL + ["(()", "a)b)"]   # repeated parentheses
WORDS_NOPAREN = [w for w in WORDS_ALL if not has_paren(w)]
# Characters that str.isspace() / str.split() treat as space but that are NOT whitespace of the
# bracket formats (whose whitespace is the ASCII set WS_CHARS = string.whitespace): inside a word
# or a label they are ordinary token characters.  The export format (fields split at any
# whitespace) cannot carry such words; XML 1.0 can carry those >= U+0080 (USPACE_XML).
USPACE_CHARS = ["\u00a0", "\u3000", "\u0085", "\u2028", "\x1c", "\x1d", "\x1e", "\x1f"]
WORDS_USPACE = ["10\u00a0000", "\u3000", "x\u0085y", "p\u2028", "\x1cf", "g\x1dh", "i\x1e\x1fj", "\u00a0k"]
WORDS_USPACE_XML = [w for w in WORDS_USPACE if all(ord(ch) >= 0x80 or ch.isalnum() for ch in w)]
POS_USPACE = ["N\u00a0N", "$\x1f", "A\u2028"]


def _encodable(s, enc):
    try:
        s.encode(enc)
        return True
    except UnicodeError:
        return False


WORDS_LATIN1 = [w for w in WORDS_ALL if _encodable(w, "latin-1")]


def decorate(spec, rng, words=None, morph=True, lemma=True, pos=None, morphs=None, lemmas=None):
    """fill in words / morph / lemma from the pools (in place), returns spec"""
    for leaf in tg.spec_leaves(spec):
        if words is not None:
            leaf["w"] = rng.choice(words)
        if pos is not None:
            leaf["l"] = rng.choice(pos)
        if morph:
            leaf["m"] = rng.choice(morphs or MORPHS)
        if lemma:
            leaf["lem"] = rng.choice(lemmas or LEMMAS)
    return spec


def escape_spec_for_brackets(spec):
    def lf(l):
        l["w"] = ptb_escape(l["w"])
    return map_spec(spec, lf)


def with_sids(specs, sids):
    out = []
    for s, i in zip(specs, sids):
        s = dict(s)
        s["sid"] = i
        out.append(s)
    return out
