"""C17 bounded stand-in: output splitting.

Clause `spec_sizes`: parse_split_specification against the reference
`lib_misc.ref_split` (exact integer arithmetic, written from the docstring /
the property text) for every specification of the enumerated family and every
size.  Clauses `split_cli*`: the split branch of `treetools transform` in a
fresh process: sizes of the parts follow the reference, the parts in order
reproduce the unsplit output of the same command, each part is a complete
file (framing of the format, accepted by the reader of the format).  The
same with destination encodings other than UTF-8 (--dest-enc iso-8859-1,
latin-1, utf-16) on treebanks with non-ASCII words: every part is decoded in
the destination encoding and read back by the reader of the format *in that
encoding*; the trees of part i must be the i-th slice (cut by the reference
arithmetic) of the generated trees that survive the filter.
"""
import os
import re

from vlib import tg
from bounded.common import Skip
from bounded import lib_misc as lm

RULE = ("spec_sizes: all specifications with 1 part (N# for N in 0..S, N% for N in 0..100 and {101,150,200}, rest), "
        "all with 2 parts over the full atom set, all with 3 (thorough: 4 over a smaller set) parts over a reduced atom "
        "set, at most one rest is *valid* (two rest are generated as malformed), plus a malformed family; every size in "
        "SIZES; one evaluation = one (specification, size); non-trivial = distinct pair whose reference result is a list "
        "with a non-zero remainder to distribute or a rejection.  split_cli: one evaluation = one command line "
        "(format, specification, with/without filter_by_length, destination encoding) on a generated export treebank "
        "of 5..7 sentences; the cases with a destination encoding other than UTF-8 (and a UTF-8 control) use words with "
        "non-ASCII characters, at least one in every part that has a tree")

PERCENTS = [0, 1, 10, 29, 33, 50, 57, 58, 99, 100]


def BOUNDS(ctx):
    if ctx.quick:
        return {"P": 3, "S": 12, "sizes": list(range(0, 13)) + [100, 1000],
                "abs_full": list(range(0, 13)), "pct_full": PERCENTS + [7, 150],
                "abs_reduced": [0, 1, 2, 5, 12], "pct_reduced": PERCENTS,
                "abs_4": [], "pct_4": [], "cli_cases": "5 formats x 3 specifications x filter on/off + 5 formats x (iso-8859-1, utf-16) x 1 specification "
                             "x filter on or off (tigerxml: both) on non-ASCII words + tigerxml x (latin-1, utf-8) x "
                             "filter on/off + rejections"}
    return {"P": 4, "S": 30, "sizes": list(range(0, 31)) + [100, 1000, 12345],
            "abs_full": list(range(0, 31)), "pct_full": PERCENTS + [7, 14, 28, 55, 56, 150],
            "abs_reduced": [0, 1, 2, 5, 12, 30], "pct_reduced": PERCENTS,
            "abs_4": [0, 1, 3, 30], "pct_4": [0, 29, 33, 50, 58, 100],
            "cli_cases": "5 formats x 8 specifications x filter on/off + 5 formats x (utf-8, iso-8859-1, latin-1, utf-16, "
                         "utf-16-le, cp1252) x 3 specifications x filter on/off on non-ASCII words + rejections"}


SITES = {
    "spec_sizes": "trees.treeoutput.parse_split_specification",
    "split_cli": "trees.transform.run",
    "split_cli_rejects": "trees.transform.run",
}


# ----------------------------------------------------------------------------
# clause A
# ----------------------------------------------------------------------------

def c_spec_sizes(ctx, w):
    spec, size = w["spec"], w["size"]
    to = ctx.mod("treeoutput")
    try:
        exp = lm.ref_split(spec, size)
    except lm.Rejected as e:
        exp = None
        why = str(e)
    try:
        got = to.parse_split_specification(spec, size)
    except Exception as e:
        got = None
        got_exc = "%s: %s" % (type(e).__name__, e)
    if exp is None:
        if got is not None:
            return ("rejected (%s)" % why, got)
        return None
    if got is None:
        return (exp, "raised " + got_exc)
    got = list(got)
    if got != exp or any((not isinstance(x, int)) or isinstance(x, bool) or x < 0 for x in got) or sum(got) != size:
        return (exp, got)
    return None


# ----------------------------------------------------------------------------
# clause B
# ----------------------------------------------------------------------------

FORMATS = ["export", "brackets", "discobrackets", "tigerxml", "terminals"]
FILTER = ["--trans", "filter_by_length", "--params", "filteroperator:lt", "filtervalue:2"]
_UNSPLIT = {}


def _count_sentences(fmt, text):
    if fmt == "export":
        return len(re.findall(r"(?m)^#BOS ", text))
    if fmt == "tigerxml":
        return len(re.findall(r"<s id=", text))
    return len([l for l in text.split("\n") if l.strip() != ""])


def _xml_frame(unsplit):
    """(prefix, suffix) around the sentences of a TIGER-XML file"""
    i = unsplit.find("<s id=")
    j = unsplit.rfind("</s>\n")
    if i < 0 or j < 0:
        return None
    return unsplit[:i], unsplit[j + len("</s>\n"):]


def _xml_sentences(text):
    return re.findall(r"(?s)<s id=.*?</s>\n", text)


def _read_bytes(path):
    with open(path, "rb") as fh:
        return fh.read()


def _decode(data, enc):
    """text of a file written in encoding `enc` (None: not a file in that encoding)"""
    if data is None:
        return None
    try:
        return data.decode(enc)
    except (UnicodeError, LookupError):
        return None


def _enc_args(enc):
    return [] if enc == "utf-8" else ["--dest-enc", enc]


def _run_unsplit(ctx, specs, fmt, filt, enc="utf-8"):
    """(exit status, text decoded in `enc` or None, bytes or None, end of stderr) of the command without --split"""
    key = (os.path.abspath(ctx.repo), lm.tg.spec_str({"l": "X", "c": specs}), fmt, filt, enc)
    if key not in _UNSPLIT:
        with lm.tempdir() as d:
            lm.write_text(os.path.join(d, "in.export"), lm.export_encode(specs))
            args = ["transform", "in.export", "out", "--src-format", "export", "--dest-format", fmt] + _enc_args(enc)
            if filt:
                args += FILTER
            rc, out, err = lm.run_cli(ctx, args, d)
            data = _read_bytes(os.path.join(d, "out")) if os.path.exists(os.path.join(d, "out")) else None
            _UNSPLIT[key] = (rc, _decode(data, enc), data, err[-300:])
    return _UNSPLIT[key]


def _read_back(ctx, fmt, data, enc="utf-8"):
    """snapshots of the trees the reader of `fmt`, told the encoding `enc`, yields for a file with the bytes
    `data`; raises what the reader raises"""
    with lm.tempdir() as d:
        p = os.path.join(d, "part")
        with open(p, "wb") as fh:
            fh.write(data)
        trees = list(getattr(ctx.mod("treeinput"), fmt)(p, enc, quiet=True))
        return [lm.plain_snapshot(t) for t in trees]


def c_split_cli(ctx, w):
    specs, split, fmt, filt = w["specs"], w["split"], w["fmt"], w["filter"]
    enc = w.get("enc", "utf-8")
    kept = [s for s in specs if not (filt and len(tg.spec_leaves(s)) < 2)]
    try:
        sizes = lm.ref_split(split, len(kept))
    except lm.Rejected:
        raise Skip()
    rc0, unsplit, unsplit_bytes, err0 = _run_unsplit(ctx, specs, fmt, filt, enc)
    if rc0 != 0 or unsplit is None:
        raise Skip()           # the format cannot write this treebank at all: not a matter of splitting
    with lm.tempdir() as d:
        lm.write_text(os.path.join(d, "in.export"), lm.export_encode(specs))
        args = ["transform", "in.export", "out", "--split=" + split, "--src-format", "export", "--dest-format", fmt]
        args += _enc_args(enc)
        if filt:
            args += FILTER
        rc, out, err = lm.run_cli(ctx, args, d)
        names = sorted(os.listdir(d))
        raw = []
        for i in range(len(sizes)):
            p = os.path.join(d, "out.%d" % i)
            raw.append(_read_bytes(p) if os.path.exists(p) else None)
        extra = [n for n in names if n.startswith("out") and n not in ["out.%d" % i for i in range(len(sizes))]]
    if rc != 0:
        return ("exit status 0, parts of sizes %s" % sizes, {"rc": rc, "stderr": err[-300:]})
    if any(p is None for p in raw) or extra:
        return ("files out.0 .. out.%d" % (len(sizes) - 1), {"files": names})
    # each part is a file in the destination encoding (as the unsplit output is)
    parts = [_decode(p, enc) for p in raw]
    for i, p in enumerate(parts):
        if p is None:
            return ("part %d is text in the destination encoding %s" % (i, enc), {"part": i, "bytes": repr(raw[i][:60])})
    # every tree in exactly one part, sizes as specified
    got_sizes = [_count_sentences(fmt, p) for p in parts]
    if got_sizes != sizes:
        return ({"sizes": sizes}, {"sizes": got_sizes})
    # the parts in order reproduce the unsplit output
    if fmt == "tigerxml":
        frame = _xml_frame(unsplit)
        if frame is None:
            raise Skip()
        sents = _xml_sentences(unsplit)
        if "".join("".join(_xml_sentences(p)) for p in parts) != "".join(sents):
            return ("sentences of the parts in order == sentences of the unsplit output",
                    {"parts": [p[:200] for p in parts]})
    else:
        if "".join(parts) != unsplit:
            return ("concatenation of the parts == unsplit output", {"parts": [p[:200] for p in parts],
                                                                    "unsplit": unsplit[:400]})
    # the reader of the format (told the destination encoding) accepts each part, and the trees of part i are the
    # i-th slice of the trees we generated (those that survive the filter), the slices cut by the reference
    # arithmetic.  Judged only if reader and writer of the format round-trip the *unsplit* file to the trees we
    # generated (otherwise the format itself is broken: C03's business, e.g. the discobrackets index convention)
    if fmt != "terminals":
        expected = [lm.spec_snapshot(s_) for s_ in kept]
        try:
            whole = _read_back(ctx, fmt, unsplit_bytes, enc)
        except Exception:
            whole = None
        if whole is not None and whole == expected:
            k = 0
            for i, (p, sz) in enumerate(zip(raw, sizes)):
                try:
                    got = _read_back(ctx, fmt, p, enc)
                except Exception as e:
                    return ("the %s reader accepts part %d (encoding %s)" % (fmt, i, enc),
                            {"raised": "%s: %s" % (type(e).__name__, e), "starts": parts[i][:60]})
                if got != expected[k:k + sz]:
                    return ({"part": i, "trees read back": "generated trees %d..%d after the filter" % (k, k + sz - 1)},
                            {"part": i, "n_read": len(got),
                             "first difference": next((j for j, (x, y) in enumerate(zip(got, expected[k:k + sz]))
                                                       if x != y), min(len(got), sz))})
                k += sz
    else:
        # no reader for this format ("all terminals of the tree on one line separated by whitespace"): the lines of
        # part i are the words of the i-th slice of the generated trees
        k = 0
        for i, (p, sz) in enumerate(zip(parts, sizes)):
            exp = [[l["w"] for l in tg.spec_leaves(s_)] for s_ in kept[k:k + sz]]
            got = [l.split() for l in p.split("\n") if l.strip() != ""]
            k += sz
            if got != exp:
                return ({"part": i, "lines": exp}, {"part": i, "lines": got})
    # each part is a complete file: framed like the unsplit file
    if fmt == "tigerxml":
        k = 0
        for i, (p, sz) in enumerate(zip(parts, sizes)):
            exp = frame[0] + "".join(sents[k:k + sz]) + frame[1]
            k += sz
            if p != exp:
                return ({"part": i, "complete file": "starts with %r, ends with %r" % (frame[0], frame[1])},
                        {"part": i, "starts": p[:60], "ends": p[-20:]})
    return None


def c_split_cli_rejects(ctx, w):
    """a specification that is malformed or demands more trees than exist makes the command fail"""
    specs, split, fmt = w["specs"], w["split"], w["fmt"]
    try:
        lm.ref_split(split, len(specs))
        raise Skip()
    except lm.Rejected:
        pass
    with lm.tempdir() as d:
        lm.write_text(os.path.join(d, "in.export"), lm.export_encode(specs))
        args = ["transform", "in.export", "out", "--split=" + split, "--src-format", "export", "--dest-format", fmt]
        rc, out, err = lm.run_cli(ctx, args, d)
        names = sorted(n for n in os.listdir(d) if n.startswith("out"))
    if rc == 0:
        return ("command fails (specification rejected)", {"rc": rc, "files": names})
    return None


CLAUSES = {"spec_sizes": c_spec_sizes, "split_cli": c_split_cli, "split_cli_rejects": c_split_cli_rejects}

CLAUSES = dict((k, lm.guard(v)) for k, v in CLAUSES.items())


# ----------------------------------------------------------------------------
# classification
# ----------------------------------------------------------------------------

def _has_negative(spec):
    return any(re.match(r"^-[0-9]+[#%]$", p) for p in spec.split("_"))


def classify(clause, w, expected, observed):
    import math
    if clause == "spec_sizes":
        spec, size = w["spec"], w["size"]
        if isinstance(observed, list):
            if _has_negative(spec) and isinstance(expected, str) and expected.startswith("rejected"):
                return "negative-number-accepted"
            # does the float formula of the code explain the difference?
            try:
                viafloat = lm.ref_split(spec, size, percent=lambda n, s: int(math.floor((n / 100) * s)))
            except lm.Rejected:
                viafloat = None
            if viafloat == observed:
                return "percent-via-float"
        return None
    if clause == "split_cli" and w["fmt"] == "tigerxml":
        # only parts that lack the frame of the format; a framed part the reader rejects (e.g. an XML declaration
        # that disagrees with the bytes of the file) is a different violation
        if isinstance(observed, dict) and "starts" in observed and not observed["starts"].startswith("<?xml"):
            return "tigerxml-parts-unframed"
    if clause == "split_cli_rejects" and _has_negative(w["split"]):
        return "negative-number-accepted"
    return None


# ----------------------------------------------------------------------------
# generation
# ----------------------------------------------------------------------------

MALFORMED = ["", "_", "5#_", "_5#", "5#__rest", "-1#", "-5#_rest", "-10%_rest", "5#_-2#_rest", "foo", "Rest",
             "rest_rest", "5#_rest_rest", "5", "50", "rest_5", "#", "%", "5#_%", "5x", "5#%", "a#", "1.5#", "rest5#",
             "10%_-10%_rest", "-0#"]


def _atoms(absn, pct):
    return ["%d#" % n for n in absn] + ["%d%%" % n for n in pct] + ["rest"]


def _spec_gen(b):
    import itertools
    # one part
    for n in b["abs_full"]:
        yield "%d#" % n
    for n in list(range(0, 101)) + [101, 150, 200]:
        yield "%d%%" % n
    yield "rest"
    full = _atoms(b["abs_full"], b["pct_full"])
    for a in itertools.product(full, repeat=2):
        yield "_".join(a)          # includes rest_rest (malformed)
    red = _atoms(b["abs_reduced"], b["pct_reduced"])
    for a in itertools.product(red, repeat=3):
        yield "_".join(a)
    if b["P"] >= 4:
        four = _atoms(b["abs_4"], b["pct_4"])
        for a in itertools.product(four, repeat=4):
            yield "_".join(a)
    for m in MALFORMED:
        yield m


def _nontrivial(spec, size):
    try:
        r = lm.ref_split(spec, size)
    except lm.Rejected:
        return "%s|%d" % (spec, size)
    # a remainder had to be distributed
    try:
        base = sum(int(p[:-1]) if p[-1] == "#" else (int(p[:-1]) * size) // 100
                   for p in spec.split("_") if p != "rest")
    except ValueError:
        return None
    return "%s|%d" % (spec, size) if base != size else None


WORDS_ASCII = ["der", "Hund", "bellt", "laut", "Haus", "sieht"]
# every word has a character outside ASCII; WORDS_LATIN1 can be written in iso-8859-1 / latin-1 / cp1252
WORDS_LATIN1 = [u"Gr\u00fc\u00dfe", u"schl\u00e4ft", u"Caf\u00e9", u"\u00f6ffnet", u"M\u00fcller", u"\u00c5se", u"gar\u00e7on"]
WORDS_WIDE = WORDS_LATIN1 + [u"\u0141\u00f3d\u017a", u"\u65e5\u672c", u"\u03bb\u03cc\u03b3\u03bf\u03c2"]


def _treebank(ctx, k, continuous, words=WORDS_ASCII):
    """k sentences, the 2nd and 5th with one token (so that the filter drops them)"""
    rng = ctx.rng
    out = []
    for i in range(k):
        n = 1 if i in (1, 4) else rng.randint(2, 5)
        while True:
            sh = tg.random_shape(rng, n, discont=0.0 if continuous else 0.5)
            if not continuous or tg.shape_is_continuous(sh):
                break
        s = tg.spec_from_shape(sh, rng, words=words,
                               pos=["NN", "VB", "ART"], unary_p=0.2)
        s["sid"] = i + 1
        out.append(s)
    return out


def generate(ctx):
    b = BOUNDS(ctx)
    for spec in _spec_gen(b):
        for size in b["sizes"]:
            yield "spec_sizes", {"spec": spec, "size": size}, _nontrivial(spec, size)
    splits = ["rest", "2#_rest", "50%_50%", "1#_0#_rest", "34%_33%_33%", "rest_1#", "0#_100%", "3#_2#"]
    if ctx.quick:
        splits = ["2#_rest", "34%_33%_33%", "1#_0#_rest"]
    i = 0
    for fmt in FORMATS:
        specs = _treebank(ctx, 6 if ctx.quick else 7, continuous=(fmt == "brackets"))
        for split in splits:
            for filt in (False, True):
                i += 1
                yield "split_cli", {"specs": specs, "split": split, "fmt": fmt, "filter": filt}, "cli%d" % i
    # destination encodings other than UTF-8 (and UTF-8 as a control), words with non-ASCII characters
    if ctx.quick:
        enc_cases = [(fmt, enc, "2#_rest") for fmt in FORMATS for enc in ("iso-8859-1", "utf-16")]
        enc_cases += [("tigerxml", "latin-1", "34%_33%_33%"), ("tigerxml", "utf-8", "1#_0#_rest")]
        filters = {"tigerxml": (False, True)}
    else:
        enc_cases = [(fmt, enc, split) for fmt in FORMATS
                     for enc in ("utf-8", "iso-8859-1", "latin-1", "utf-16", "utf-16-le", "cp1252")
                     for split in ("2#_rest", "34%_33%_33%", "1#_0#_rest")]
        filters = {}
    banks = {}
    for n, (fmt, enc, split) in enumerate(enc_cases):
        wide = enc.startswith("utf")
        if (fmt, wide) not in banks:
            banks[(fmt, wide)] = _treebank(ctx, 6 if ctx.quick else 7, continuous=(fmt == "brackets"),
                                           words=WORDS_WIDE if wide else WORDS_LATIN1)
        for filt in filters.get(fmt, (bool((n // 2 + n) % 2),)) if ctx.quick else (False, True):
            i += 1
            yield "split_cli", {"specs": banks[(fmt, wide)], "split": split, "fmt": fmt, "filter": filt,
                                "enc": enc}, "cli%d" % i
    specs = _treebank(ctx, 3, True)
    for split in ["4#", "2#_2#", "101%", "2#_rest_rest", "-1#_rest", "2#_", "3", "-50%_rest"]:
        yield "split_cli_rejects", {"specs": specs, "split": split, "fmt": "export"}, "rej" + split


def exhaustive(ctx):
    return False      # the specification family is enumerated completely, the treebanks of the CLI clauses are sampled
