"""C20 bounded stand-in: parse_label / format_label / get_label.

Expectations come from (i) the string itself, (ii) a reference formatter
written from the docstring of format_label, (iii) a reference parser written
from the docstring grammar of parse_label and used only on labels that fit it
unambiguously; never from the functions under test.
"""
import itertools
import re
from vlib import tg
from bounded.common import Skip

ALPHABET = ["a", "B", "1", "-", "=", "#", "'", "*"]

RULE = ("exhaustively every string of length 1..L over {a,B,1,-,=,#,',*}, a fixed list of treebank "
        "labels that spell the default literals (EMPTY, --) and the labels of the repo's own test, and "
        "seeded random longer labels (characters of the alphabet mixed with the pieces NP, EMPTY, --, "
        "SBJ, two-digit indices). Per string: round trip (with and without gf_separator='#'), "
        "emptying each component, trace recognition; the reference parser only on the strings that "
        "fit the docstring grammar unambiguously, with gf_separator absent / '-' / '#'. format_label "
        "on hand-made parts x all 4 option subsets; get_label on a constituent and a token x 4 edges x "
        "head x split x all 32 subsets of the decoration options x 3 separators. non-trivial = "
        "distinct string with at least one decoration recognised (function, index, head mark) or a "
        "default literal involved")


def BOUNDS(ctx):
    return {"alphabet": "".join(ALPHABET), "exhaustive_len": 5 if ctx.quick else 6,
            "random_labels": 3000 if ctx.quick else 60000, "random_max_len": 16,
            "get_label_option_subsets": 32, "get_label_separators": [None, "#", "/"]}


SITES = {
    "roundtrip": "trees.trees.parse_label",
    "emptying": "trees.trees.format_label",
    "emptying_gf_empty_string": "trees.trees.format_label",
    "format_defaults": "trees.trees.format_label",
    "is_trace": "trees.trees.parse_label",
    "ref_parser": "trees.trees.parse_label",
    "get_label": "trees.trees.get_label",
}

DEFAULT_LABEL = "EMPTY"
DEFAULT_EDGE = "--"


# ----------------------------------------------------------------------------
# reference formatter (docstring of format_label) and parser (docstring grammar)
# ----------------------------------------------------------------------------

def pieces(cat, gf, sep, gap, co, hm, always_label=False, always_gf=False):
    """the text each component contributes: category, function (with its
    separator), gap index (with =), co-index (with -), head mark"""
    return [cat if (cat != DEFAULT_LABEL or always_label) else "",
            sep + gf if (gf != DEFAULT_EDGE or always_gf) else "",
            "=" + gap if len(gap) > 0 else "",
            "-" + co if len(co) > 0 else "",
            "'" if hm else ""]


def ref_format(cat, gf, sep, gap, co, hm, always_label=False, always_gf=False):
    return "".join(pieces(cat, gf, sep, gap, co, hm, always_label, always_gf))


def _grammar(sep):
    cat = r"(?P<cat>[^\-=#'\s]+)"
    if sep == "-":
        # a function made of digits only could as well be a co-index: not unambiguous
        gf = r"(?:-(?P<gf>[^\-=#'\s]*[^\-=#'\s0-9][^\-=#'\s]*))?"
    else:
        gf = r"(?:%s(?P<gf>[^\-=#'\s]+))?" % re.escape(sep)
    return re.compile("^" + cat + gf + r"(?:=(?P<gap>[0-9]+))?(?:-(?P<co>[0-9]+))?(?P<hm>')?$")


_GRAMMARS = {"-": _grammar("-"), "#": _grammar("#")}


def ref_parse(s, sep):
    """components of s under LABEL (GF_SEP GF)? (= GAPINDEX)? (- COINDEX)? '?
    with LABEL and GF free of separators and markers; None if s does not fit"""
    m = _GRAMMARS[sep].match(s)
    if m is None:
        return None
    cat = m.group("cat")
    return {"label": cat, "gf": m.group("gf") or DEFAULT_EDGE, "gapindex": m.group("gap") or "",
            "coindex": m.group("co") or "", "headmarker": bool(m.group("hm")),
            "is_trace": len(cat) >= 2 and cat[0] == "*" and cat[-1] == "*"}


def _parts(p):
    return (p.label, p.gf, p.gf_separator, p.gapindex, p.coindex, p.headmarker)


def _sepopt(sep):
    return {} if sep is None else {"gf_separator": sep}


# ----------------------------------------------------------------------------
# clauses
# ----------------------------------------------------------------------------

def c_roundtrip(ctx, s):
    trees = ctx.mod("trees")
    if len(s) == 0 or any(ch.isspace() for ch in s):
        raise Skip()
    for sep in (None, "#"):
        p = trees.parse_label(s, **_sepopt(sep))
        cat, gf, gsep, gap, co, hm = _parts(p)
        if not all(isinstance(x, str) for x in (cat, gf, gsep, gap, co, hm)):
            return ("all parts are strings", repr(_parts(p)))
        tag = "" if sep is None else " [gf_separator='#']"
        # the parts spell the original, a default literal may be absent from it
        cats = [cat] if cat != DEFAULT_LABEL else [DEFAULT_LABEL, ""]
        gfs = [gsep + gf] if gf != DEFAULT_EDGE else [gsep + DEFAULT_EDGE, ""]
        tail = "".join(pieces(cat, gf, gsep, gap, co, hm)[2:])
        if s not in [c + g + tail for c in cats for g in gfs]:
            return ("parts of %r glue back to it%s" % (s, tag),
                    {"label": cat, "gf": gf, "sep": gsep, "gap": gap, "co": co, "head": hm})
        for al in (False, True):
            for ag in (False, True):
                opts = {}
                if al:
                    opts["always_label"] = True
                if ag:
                    opts["always_gf"] = True
                exp = ref_format(cat, gf, gsep, gap, co, hm, al, ag)
                got = trees.format_label(trees.parse_label(s, **_sepopt(sep)), **opts)
                if got != exp:
                    return ("format_label(parse_label(%r)%s, %s) == %r (defaults EMPTY / -- dropped "
                            "unless requested)" % (s, tag, sorted(opts), exp), got)
        if cat != DEFAULT_LABEL and gf != DEFAULT_EDGE:
            got = trees.format_label(p)
            if got != s:
                return ("format_label(parse_label(%r)%s) == %r" % (s, tag, s), got)
    return None


COMPONENTS = ("coindex", "gapindex", "headmarker", "gf")


def _emptied(trees, s, comp, value):
    p = trees.parse_label(s)
    before = list(pieces(*_parts(p)))
    setattr(p, comp, value)
    got = trees.format_label(p)
    idx = {"gf": 1, "gapindex": 2, "coindex": 3, "headmarker": 4}[comp]
    removed = before[idx]
    before[idx] = ""
    return "".join(before), got, removed


def c_emptying(ctx, s):
    trees = ctx.mod("trees")
    if len(s) == 0 or any(ch.isspace() for ch in s):
        raise Skip()
    for comp in COMPONENTS:
        exp, got, removed = _emptied(trees, s, comp, DEFAULT_EDGE if comp == "gf" else "")
        if got != exp:
            return ("%r with %s emptied formats to %r (exactly %r removed)" % (s, comp, exp, removed), got)
    return None


def c_emptying_gf_empty_string(ctx, s):
    """docstring of format_label: 'To delete a certain component of the label,
    parse_label it, set the corresponding components to the empty string and
    then format_label it.'"""
    trees = ctx.mod("trees")
    if len(s) == 0 or any(ch.isspace() for ch in s):
        raise Skip()
    if trees.parse_label(s).gf == DEFAULT_EDGE:
        raise Skip()
    exp, got, removed = _emptied(trees, s, "gf", "")
    if got != exp:
        return ({"says": "%r with gf set to '' formats to %r (exactly %r removed)" % (s, exp, removed),
                 "value": exp, "removed": removed}, got)
    return None


def c_format_defaults(ctx, w):
    trees = ctx.mod("trees")
    lab = trees.Label()
    lab.label, lab.gf, lab.gf_separator = w["label"], w["gf"], w["sep"]
    lab.gapindex, lab.coindex, lab.headmarker = w["gap"], w["co"], w["hm"]
    lab.is_trace = False
    opts = dict((k, True) for k in w["opts"])
    exp = ref_format(w["label"], w["gf"], w["sep"], w["gap"], w["co"], w["hm"],
                     "always_label" in opts, "always_gf" in opts)
    got = trees.format_label(lab, **opts)
    if got != exp:
        return ("format_label(%s, %s) == %r" % (w, sorted(opts), exp), got)
    return None


def c_is_trace(ctx, s):
    trees = ctx.mod("trees")
    if len(s) == 0 or any(ch.isspace() for ch in s):
        raise Skip()
    p = trees.parse_label(s)
    cat = p.label
    if cat == "*":
        raise Skip()      # a lone asterisk: "wrapped" is undecided by the text
    exp = len(cat) >= 2 and cat[0] == "*" and cat[-1] == "*"
    if bool(p.is_trace) != exp:
        return ("is_trace == %s for category %r of %r" % (exp, cat, s), p.is_trace)
    return None


def c_ref_parser(ctx, w):
    trees = ctx.mod("trees")
    s, sep = w["s"], w["gf_separator"]
    ref = ref_parse(s, "-" if sep is None else sep)
    if ref is None:
        raise Skip()
    p = trees.parse_label(s, **_sepopt(sep))
    got = {"label": p.label, "gf": p.gf, "gapindex": p.gapindex, "coindex": p.coindex,
           "headmarker": bool(p.headmarker), "is_trace": bool(p.is_trace)}
    if ref["label"] == "*":
        # a lone asterisk: whether it counts as "wrapped in asterisks" is undecided by the text
        del ref["is_trace"], got["is_trace"]
    if got != ref:
        return (ref, got)
    return None


GL_OPTS = ["gf", "gf_terminals", "mark_heads_marking", "boyd_split_marking", "boyd_split_numbering"]


def c_get_label(ctx, w):
    trees = ctx.mod("trees")
    x = {"head": w["head"], "split": w["split"], "block_number": w["block_number"]}
    leaf = tg.leaf_spec(1, "w", w["label"] if w["kind"] == "term" else "NN",
                        w["edge"] if w["kind"] == "term" else "--")
    if w["kind"] == "term":
        leaf["x"] = x
        top = tg.node_spec("VROOT", [leaf])
        node = tg.build(top, trees).children[0]
    else:
        inner = tg.node_spec(w["label"], [leaf], w["edge"])
        inner["x"] = x
        top = tg.node_spec("VROOT", [inner])
        node = tg.build(top, trees).children[0]
    opts = dict((k, True) for k in w["opts"])
    sep = "-"
    if w["gf_separator"] is not None:
        opts["gf_separator"] = w["gf_separator"]
        sep = w["gf_separator"]
    deco = []
    if "gf" in opts and not w["edge"].startswith("-") and (w["kind"] == "cons" or "gf_terminals" in opts):
        deco.append(sep + w["edge"])
    if "mark_heads_marking" in opts and w["head"]:
        deco.append("'")
    if "boyd_split_marking" in opts and w["split"]:
        deco.append("*")
    if "boyd_split_numbering" in opts and w["split"]:
        deco.append(str(w["block_number"]))
    got = trees.get_label(node, **opts)
    # the category followed by exactly the requested decorations (their mutual order is not
    # fixed by the property)
    ok = isinstance(got, str) and any(got == w["label"] + "".join(perm)
                                       for perm in itertools.permutations(deco))
    if not ok:
        return ("%r followed by exactly the decorations %s" % (w["label"], deco), got)
    return None


CLAUSES = {"roundtrip": c_roundtrip, "emptying": c_emptying,
           "emptying_gf_empty_string": c_emptying_gf_empty_string,
           "format_defaults": c_format_defaults, "is_trace": c_is_trace,
           "ref_parser": c_ref_parser, "get_label": c_get_label}


# ----------------------------------------------------------------------------
# generation
# ----------------------------------------------------------------------------

FIXED = ["EMPTY", "EMPTY-SB", "EMPTY-SB=1-2'", "EMPTY---", "EMPTY=1", "EMPTY'", "NP---", "NP---=1",
         "NP----2'", "--", "---", "NP--", "-NONE-", "*T*-1", "*-1", "*LAB*-GF=1'", "A--A=1---2",
         "A--A-1--=2", "-LRB-", "NP-SBJ-1", "VP=2", "NN'", "S-TPC-2", "WHNP-1", "*ICH*-3", "NP=1-2",
         "NP-2=1", "NP-SBJ=2-1'", "PP-LOC-PRD-TPC-3", "NP#SB", "NP#SB=1-2'", "NP#1", "*T*#SB-1",
         "EMPTY#SB", "$.", "$,-PUNCT", "ADJP-PRD=3", "*EXP*-1'"]

PIECES = ["NP", "EMPTY", "--", "SBJ", "12", "07"] + ALPHABET


def strings(ctx):
    b = BOUNDS(ctx)
    for n in range(1, b["exhaustive_len"] + 1):
        for tup in itertools.product(ALPHABET, repeat=n):
            yield "".join(tup)
    for s in FIXED:
        yield s
    rng = ctx.rng
    for _ in range(b["random_labels"]):
        while True:
            s = "".join(rng.choice(PIECES) for _ in range(rng.randint(3, 9)))
            if b["exhaustive_len"] < len(s) <= b["random_max_len"]:
                break
        yield s


def _nt(s):
    """non-trivial: some decoration can be present or a default literal is involved"""
    if any(ch in s for ch in "-=#'") or s.startswith(DEFAULT_LABEL):
        return s
    return None


def generate(ctx):
    # format_label on hand-made parts
    for lab, gf, sep, gap, co, hm in itertools.product(
            ["NP", "EMPTY", "*T*", "a"], ["--", "SB", "1"], ["-", "#"], ["", "1", "23"], ["", "2"],
            ["", "'"]):
        for opts in ([], ["always_label"], ["always_gf"], ["always_label", "always_gf"]):
            w = {"label": lab, "gf": gf, "sep": sep, "gap": gap, "co": co, "hm": hm, "opts": opts}
            yield "format_defaults", w, "%s|%s" % (ref_format(lab, gf, sep, gap, co, hm, True, True), opts)
    # get_label
    for kind in ("cons", "term"):
        for edge in ("SB", "--", "-X", "HD"):
            for head in (False, True):
                for split in (False, True):
                    for r in range(len(GL_OPTS) + 1):
                        for opts in itertools.combinations(GL_OPTS, r):
                            for sep in (None, "#", "/"):
                                w = {"kind": kind, "label": "NP" if kind == "cons" else "NN",
                                     "edge": edge, "head": head, "split": split, "block_number": 2,
                                     "opts": list(opts), "gf_separator": sep}
                                yield "get_label", w, repr(sorted(w.items()))
    # strings
    for s in strings(ctx):
        k = _nt(s)
        yield "roundtrip", s, k
        yield "emptying", s, k
        if "-" in s[1:-1]:
            yield "emptying_gf_empty_string", s, k
        yield "is_trace", s, ("*" + s if "*" in s else None)
        fits_dash = ref_parse(s, "-") is not None
        if fits_dash:
            yield "ref_parser", {"s": s, "gf_separator": None}, k
            yield "ref_parser", {"s": s, "gf_separator": "-"}, k
        if ref_parse(s, "#") is not None:
            yield "ref_parser", {"s": s, "gf_separator": "#"}, (k + "|#") if k else None


def classify(clause, witness, expected, observed):
    if clause == "ref_parser" and witness.get("gf_separator") == "#" and "#" in witness.get("s", "") \
            and isinstance(observed, dict) and isinstance(expected, dict):
        # parse_label did not split at the separator it was given: the function stayed in the
        # category, everything else as expected
        s = witness["s"]
        if observed.get("gf") == DEFAULT_EDGE and expected.get("gf") != DEFAULT_EDGE \
                and observed.get("label") == expected["label"] + "#" + expected["gf"] \
                and all(observed.get(k) == expected[k] for k in ("gapindex", "coindex", "headmarker")):
            return "gf-separator-parameter-ignored"
        return None
    if clause == "emptying_gf_empty_string" and isinstance(observed, str) and isinstance(expected, dict):
        # the function text went away but its one-character separator stayed where it was
        exp, rem = expected.get("value"), expected.get("removed")
        if isinstance(exp, str) and rem and len(observed) == len(exp) + 1 and any(
                observed[:i] + observed[i + 1:] == exp and observed[i] == rem[0]
                for i in range(len(observed))):
            return "gf-set-to-empty-string-leaves-its-separator"
        return None
    return None


def exhaustive(ctx):
    return False     # the random longer labels are a sample; lengths 1..L are complete
