"""Shared plumbing of the bounded stand-ins (run under /venv/bin/python against
the real code in VERIF_REPO).

A bounded oracle module `bounded/cNN.py` provides

  CLAUSES : dict  clause-name -> function(ctx, witness) -> None            (contract holds)
                                                        -> (expected, observed)  (contract violated)
                                               raises Skip                  (input outside the contract's domain)
  SITES   : dict  clause-name -> "trees.module.function" the clause is attached to
  generate(ctx) : iterator of (clause-name, witness, nontrivial_key or None)
  BOUNDS(ctx)   : dict describing the enumerated domain (written into the evidence)

A witness is JSON-serialisable (tree specs, strings, numbers), so that every
failure can be written to a replay file and re-run with `./check <id> --replay`.
Clause functions build fresh inputs from the witness each time: nothing is
shared between evaluations.
"""
import hashlib
import importlib
import io
import json
import os
import random
import sys
import time
import traceback
import contextlib


class Skip(Exception):
    """input outside the domain of the contract (counted, never judged)"""


class Ctx(object):
    def __init__(self, tier="quick", seed=0, repo="/repo", budget_s=None):
        self.tier = tier
        self.seed = seed
        self.repo = repo
        self.rng = random.Random(seed)
        self.t0 = time.time()
        self.budget_s = budget_s if budget_s is not None else (60 if tier == "quick" else 900)
        self.quick = tier == "quick"

    def time_left(self):
        return self.budget_s - (time.time() - self.t0)

    def out_of_time(self):
        return self.time_left() <= 0

    def mod(self, name):
        """import a module of the code under test (from ctx.repo)"""
        return importlib.import_module("trees." + name)


def setup_repo_path(repo):
    repo = os.path.abspath(repo)
    sys.dont_write_bytecode = True
    # the repo under test must win over the copy /venv knows about
    sys.path.insert(0, repo)
    import warnings
    warnings.filterwarnings("ignore", category=SyntaxWarning)
    import trees  # noqa
    got = os.path.dirname(os.path.dirname(os.path.abspath(trees.__file__)))
    if os.path.realpath(got) != os.path.realpath(repo):
        raise RuntimeError("imported trees from %s, wanted %s" % (got, repo))


@contextlib.contextmanager
def quiet():
    """silence the chatter the code under test writes to stdout/stderr"""
    old_out, old_err = sys.stdout, sys.stderr
    sys.stdout, sys.stderr = io.StringIO(), io.StringIO()
    try:
        yield (sys.stdout, sys.stderr)
    finally:
        sys.stdout, sys.stderr = old_out, old_err


def canon(obj):
    return json.dumps(obj, sort_keys=True, ensure_ascii=False, default=repr)


def wkey(obj):
    return hashlib.sha1(canon(obj).encode("utf-8")).hexdigest()[:16]


def run_module(mod, ctx):
    """drive one oracle module; returns the JSON-able result dict"""
    evaluations = 0
    skipped = 0
    nontrivial = set()
    per_clause = {}
    failures = []
    samples = []
    crashed = []
    exhaustive = True
    fail_keys = set()
    gen = mod.generate(ctx)
    for item in gen:
        if ctx.out_of_time():
            exhaustive = False
            break
        clause, witness, ntkey = item
        fn = mod.CLAUSES[clause]
        pc = per_clause.setdefault(clause, {"evaluations": 0, "skipped": 0, "failed": 0})
        try:
            with quiet():
                res = fn(ctx, witness)
        except Skip:
            skipped += 1
            pc["skipped"] += 1
            continue
        except Exception:
            # an oracle that crashes is a checker error, not a violation
            crashed.append({"clause": clause, "witness": witness,
                            "traceback": traceback.format_exc()[-1500:]})
            if len(crashed) > 20:
                break
            continue
        evaluations += 1
        pc["evaluations"] += 1
        if ntkey is not None:
            nontrivial.add((clause, ntkey))
        if len(samples) < 6 and (evaluations in (1, 7, 50, 333, 2000, 9000)):
            samples.append({"clause": clause, "witness": witness})
        if res is not None:
            pc["failed"] += 1
            expected, observed = res
            cls = None
            if hasattr(mod, "classify"):
                cls = mod.classify(clause, witness, expected, observed)
            k = (clause, cls)
            # keep the first (smallest) witness per (clause, class); count the rest
            if k not in fail_keys:
                fail_keys.add(k)
                failures.append({"clause": clause, "site": mod.SITES.get(clause, "?"),
                                 "class": cls, "witness": witness,
                                 "expected": expected, "observed": observed, "count": 1})
            else:
                for f in failures:
                    if (f["clause"], f["class"]) == k:
                        f["count"] += 1
    if not getattr(mod, "EXHAUSTIVE", True):
        exhaustive = False
    if hasattr(mod, "exhaustive"):
        exhaustive = exhaustive and mod.exhaustive(ctx)
    return {
        "evaluations": evaluations, "skipped_outside_domain": skipped,
        "distinct_nontrivial": len(nontrivial), "per_clause": per_clause,
        "failures": failures, "samples": samples, "crashed": crashed,
        "exhaustive": bool(exhaustive and not crashed),
        "bounds": mod.BOUNDS(ctx) if hasattr(mod, "BOUNDS") else {},
        "rule": getattr(mod, "RULE", ""), "wall_s": round(time.time() - ctx.t0, 2),
        "clauses": sorted(mod.CLAUSES), "sites": mod.SITES,
    }


def replay_one(mod, ctx, clause, witness):
    fn = mod.CLAUSES[clause]
    try:
        with quiet():
            res = fn(ctx, witness)
    except Skip:
        return {"status": "skipped"}
    if res is None:
        return {"status": "holds"}
    return {"status": "violated", "expected": res[0], "observed": res[1]}


def main(argv=None):
    import argparse
    ap = argparse.ArgumentParser()
    ap.add_argument("prop")
    ap.add_argument("--tier", default="quick")
    ap.add_argument("--seed", type=int, default=0)
    ap.add_argument("--repo", default=os.environ.get("VERIF_REPO", "/repo"))
    ap.add_argument("--out", required=True)
    ap.add_argument("--budget", type=float, default=None)
    ap.add_argument("--replay-clause")
    ap.add_argument("--replay-witness")
    args = ap.parse_args(argv)
    here = os.path.dirname(os.path.dirname(os.path.abspath(__file__)))
    sys.path.insert(0, here)
    setup_repo_path(args.repo)
    mod = importlib.import_module("bounded." + args.prop.lower())
    ctx = Ctx(args.tier, args.seed, args.repo, args.budget)
    if args.replay_clause:
        witness = json.load(open(args.replay_witness))
        res = replay_one(mod, ctx, args.replay_clause, witness)
    else:
        res = run_module(mod, ctx)
    with open(args.out, "w") as fh:
        json.dump(res, fh, ensure_ascii=False, default=repr)
