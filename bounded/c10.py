"""C10 bounded stand-in: transition sequences are sound oracles.

Three replay automata (top-down, in-order, gap) written from DESIGN §5 C10.
They see only (terminals, transition names) -- never the input tree -- and the
tree they rebuild is compared with the spec the input tree was built from:
every unary node, the root, labels, tokens and (where the transition system
has a side: BINARY-side-X, R-side-X) the head child.  The in-order system has
no side in its transitions, so for it structure, labels and tokens are compared.
"""
import os

from vlib import tg
from bounded.common import Skip
from bounded import lib_misc as lm

RULE = ("every binary shape over 1..n (all discontinuous ones for gap, the continuous ones for top-down; every "
        "continuous shape of arbitrary arity for in-order) x every head assignment (seeded sample above the cap) x "
        "unary decorations (none / one unary node on top of every node incl. root and tokens / seeded random 0..2 per "
        "node with shuffled stored child order / root only); one evaluation = one (system, tree); non-trivial = distinct tree that has a unary node or is "
        "discontinuous; writer/CLI evaluations = one file of 3 trees")


def BOUNDS(ctx):
    return {"max_n": 5 if ctx.quick else 6, "head_cap_per_shape": 16 if ctx.quick else 32,
            "random_unary_decorations_per_tree": 2 if ctx.quick else 3,
            "writer_files": 24 if ctx.quick else 120, "cli_files": 12 if ctx.quick else 60,
            "trees_per_file": 3}


SITES = {
    "replay_topdown": "trees.transitions.topdown",
    "replay_inorder": "trees.transitions.inorder",
    "replay_gap": "trees.transitions.gap",
    "sentence": "trees.transitions.topdown",
    "io_definition": "trees.transitions._inorder",
    "writer_plain": "trees.transitionoutput.plain",
    "cli": "trees.transitions.run",
}


# ----------------------------------------------------------------------------
# items built by the automata
# ----------------------------------------------------------------------------

def _leaf(i, tok):
    return {"t": i, "tok": tok}


def _node(label, kids, heads):
    return {"l": label, "c": kids, "h": heads}


def _min(item):
    if "t" in item:
        return item["t"]
    return min(_min(c) for c in item["c"])


def canon_item(item, with_heads):
    if "t" in item:
        return ("T", item["t"], item["tok"])
    pairs = []
    for c, h in zip(item["c"], item["h"]):
        if len(item["c"]) == 1:
            h = True          # the only child of a unary node is its head
        pairs.append((_min(c), h if with_heads else None, canon_item(c, with_heads)))
    pairs.sort(key=lambda p: p[0])
    return ("N", item["l"], tuple((h, c) for _, h, c in pairs))


def canon_spec(spec, with_heads, tokfield):
    """the same canonical form computed from the spec of the input tree.
    tokfield: 'both' -> (word, pos), 'w' -> word, 'l' -> pos"""
    def tok(s):
        if tokfield == "both":
            return (s["w"], s["l"])
        return s[tokfield]

    def rec(s):
        if tg.is_leaf_spec(s):
            return ("T", s["n"], tok(s))
        pairs = []
        for c in s["c"]:
            h = c.get("x", {}).get("head")
            if len(s["c"]) == 1:
                h = True
            pairs.append((lm.minleaf(c), h if with_heads else None, rec(c)))
        pairs.sort(key=lambda p: p[0])
        return ("N", s["l"], tuple((h, c) for _, h, c in pairs))
    return rec(spec)


def render(c):
    if c is None:
        return None
    if c[0] == "T":
        return "%d:%s" % (c[1], "/".join(c[2]) if isinstance(c[2], tuple) else c[2])
    return "(%s %s)" % (c[1], " ".join(("*" if h else "") + render(k) for h, k in c[2]))


def strip_root_chain(c):
    """drop the chain of unary nodes at the top (used by classify only)"""
    while c[0] == "N" and len(c[2]) == 1:
        c = c[2][0][1]
    return c


# ----------------------------------------------------------------------------
# the three replay automata.  Input: tokens (list), names (list of str).
# Output: (item or None, error text or None).  Acceptance = buffer empty and
# exactly one item.
# ----------------------------------------------------------------------------

class Reject(Exception):
    pass


def _split(name, prefix_parts):
    """'BINARY-LEFT-NP-SBJ' with prefix_parts=2 -> ['BINARY', 'LEFT', 'NP-SBJ']"""
    parts = name.split("-", prefix_parts)
    if len(parts) != prefix_parts + 1:
        raise Reject("malformed transition %r" % name)
    return parts


def replay_topdown(tokens, names):
    buf = [_leaf(i + 1, t) for i, t in enumerate(tokens)]   # read from the right
    stack = []
    for name in names:
        if name == "SHIFT":
            if not buf:
                raise Reject("SHIFT on empty buffer")
            stack.append(buf.pop())
        elif name.startswith("UNARY-"):
            if not stack:
                raise Reject("UNARY on empty stack")
            stack.append(_node(name[len("UNARY-"):], [stack.pop()], [True]))
        elif name.startswith("BINARY-"):
            _, side, label = _split(name, 2)
            if side not in ("LEFT", "RIGHT"):
                raise Reject("unknown side in %r" % name)
            if len(stack) < 2:
                raise Reject("BINARY with fewer than two items")
            left = stack.pop()
            right = stack.pop()
            stack.append(_node(label, [left, right], [side == "LEFT", side == "RIGHT"]))
        else:
            raise Reject("unknown transition %r" % name)
    if buf:
        raise Reject("%d tokens not consumed" % len(buf))
    if len(stack) != 1:
        raise Reject("ends with %d items" % len(stack))
    return stack[0]


_OPEN = "open"


def replay_inorder(tokens, names):
    buf = [_leaf(i + 1, t) for i, t in enumerate(tokens)]
    buf.reverse()                                           # read from the left
    stack = []
    for name in names:
        if name == "SHIFT":
            if not buf:
                raise Reject("SHIFT on empty buffer")
            stack.append(buf.pop())
        elif name.startswith("PJ-"):
            if not stack or (isinstance(stack[-1], tuple)):
                raise Reject("PJ without an item on top")
            first = stack.pop()
            stack.append((_OPEN, name[len("PJ-"):]))
            stack.append(first)
        elif name == "REDUCE":
            kids = []
            while stack and not isinstance(stack[-1], tuple):
                kids.append(stack.pop())
            if not stack:
                raise Reject("REDUCE without an open node")
            _, label = stack.pop()
            kids.reverse()
            if not kids:
                raise Reject("REDUCE closes an empty node")
            stack.append(_node(label, kids, [None] * len(kids)))
        else:
            raise Reject("unknown transition %r" % name)
    if buf:
        raise Reject("%d tokens not consumed" % len(buf))
    if len(stack) != 1 or isinstance(stack[0], tuple):
        raise Reject("ends with %d items" % len(stack))
    return stack[0]


def replay_gap(tokens, names):
    buf = [_leaf(i + 1, t) for i, t in enumerate(tokens)]
    buf.reverse()
    S = []        # top = S[-1]
    D = []        # top = D[0], back = D[-1]

    def flush():
        # D is put onto S; the top of D ends up deepest
        while D:
            S.append(D.pop(0))

    for name in names:
        if name == "SHIFT":
            if not buf:
                raise Reject("SHIFT on empty buffer")
            flush()
            D.insert(0, buf.pop())
        elif name == "GAP":
            if not S:
                raise Reject("GAP on empty stack")
            D.append(S.pop())
        elif name.startswith("R-"):
            _, side, label = _split(name, 2)
            if side not in ("LEFT", "RIGHT"):
                raise Reject("unknown side in %r" % name)
            if not S or not D:
                raise Reject("R needs an item on S and on D")
            s_item = S.pop()
            d_item = D.pop(0)
            x = _node(label, [s_item, d_item], [side == "LEFT", side == "RIGHT"])
            flush()
            D.insert(0, x)
        elif name.startswith("UNARY-"):
            if not D:
                raise Reject("UNARY on empty deque")
            D[0] = _node(name[len("UNARY-"):], [D[0]], [True])
        else:
            raise Reject("unknown transition %r" % name)
    if buf:
        raise Reject("%d tokens not consumed" % len(buf))
    if len(S) + len(D) != 1:
        raise Reject("ends with %d items" % (len(S) + len(D)))
    return (S + D)[0]


REPLAY = {"topdown": replay_topdown, "inorder": replay_inorder, "gap": replay_gap}
WITH_HEADS = {"topdown": True, "inorder": False, "gap": True}


def judge(system, tokens, names, spec, tokfield):
    """None if replaying `names` over `tokens` rebuilds the tree of `spec`"""
    exp = canon_spec(spec, WITH_HEADS[system], tokfield)
    try:
        item = REPLAY[system](tokens, names)
    except Reject as e:
        return (render(exp), {"accepted": False, "error": str(e), "transitions": names})
    got = canon_item(item, WITH_HEADS[system])
    if got != exp:
        return (render(exp), {"accepted": True, "tree": render(got), "transitions": names})
    return None


# ----------------------------------------------------------------------------
# domain checks
# ----------------------------------------------------------------------------

def _in_domain(system, spec):
    # a bare token (what the bracket reader yields for "(NN der)") is a
    # one-token sentence without any constituent: trivially head-marked/binarized
    for s, parent in tg.spec_nodes(spec):
        if tg.is_leaf_spec(s):
            continue
        if system in ("topdown", "gap") and len(s["c"]) > 2:
            return False
        heads = [c.get("x", {}).get("head") for c in s["c"]]
        if any(h not in (True, False) for h in heads) or sum(1 for h in heads if h) != 1:
            return False
    if system in ("topdown", "inorder") and not lm.spec_is_continuous(spec):
        return False
    return True


def _extract(ctx, system, spec):
    tr = ctx.mod("transitions")
    tree = tg.build(spec, ctx.mod("trees"))
    return getattr(tr, system)(tree)


def _c_replay(system):
    def fn(ctx, spec):
        if not _in_domain(system, spec):
            raise Skip()
        try:
            terminals, trans = _extract(ctx, system, spec)
        except Exception as e:           # the extractor itself fails on a tree of its domain
            exp = render(canon_spec(spec, WITH_HEADS[system], "both"))
            return (exp, {"accepted": False, "error": "extractor raised %s: %s" % (type(e).__name__, e)})
        names = [str(t) for t in trans]
        tokens = [tuple(t) for t in terminals]
        return judge(system, tokens, names, spec, "both")
    return fn


def c_io_definition(ctx, spec):
    """validation of the definition the deductive contract of _inorder is stated against (contracts/c10.py io_def):
    IO(x) = seg(c_0) ++ [PJ-label(x)] ++ seg(c_1) ++ ... ++ [REDUCE] over the children ordered by least token, with
    its length / prefix-sum clauses, is what the real function returns for every constituent of the tree"""
    if not _in_domain("inorder", spec):
        raise Skip()
    trees = ctx.mod("trees")
    tr = ctx.mod("transitions")
    root = tg.build(spec, trees)

    def least(n):
        return n.data["num"] if not n.children else min(least(c) for c in n.children)

    def io(x):
        kids = sorted(x.children, key=least)
        segs = [["SHIFT"] if not c.children else io(c) for c in kids]
        ss = [0]
        for sg in segs:
            ss.append(ss[-1] + len(sg))
        out = segs[0] + ["PJ-%s" % x.data["label"]]
        for sg in segs[1:]:
            out += sg
        out.append("REDUCE")
        # the clauses of io_def
        assert len(out) == ss[len(kids)] + 2 and len(out) >= 3 and out[ss[1]] == "PJ-%s" % x.data["label"]
        assert all(a <= b for a, b in zip(ss, ss[1:]))
        for k, sg in enumerate(segs):
            off = ss[k] + (1 if k >= 1 else 0)
            assert out[off:off + len(sg)] == sg
        return out
    for x in tg.all_nodes(root):
        if not x.children:
            continue
        exp = io(x)
        got = [str(t) for t in tr._inorder(x)]
        if got != exp:
            return (exp, got)
    return None


def c_sentence(ctx, w):
    system, spec = w["sys"], w["spec"]
    if not _in_domain(system, spec):
        raise Skip()
    try:
        terminals, _ = _extract(ctx, system, spec)
    except Exception:
        raise Skip()                     # judged by the replay clause
    exp = lm.spec_tokens(spec)
    got = [tuple(t) for t in terminals]
    if got != exp:
        return (exp, got)
    return None


def _check_file(system, text, specs, pos):
    """one line per tree; 'tokens ||| transitions'; replay of each line rebuilds the tree"""
    lines = text.split("\n")
    if lines and lines[-1] == "":
        lines = lines[:-1]
    if len(lines) != len(specs):
        return ("%d lines" % len(specs), {"lines": lines})
    tokfield = "l" if pos else "w"
    for line, spec in zip(lines, specs):
        if line.count(" ||| ") != 1:
            return ("'sentence ||| transitions'", {"line": line})
        sent, seq = line.split(" ||| ")
        exp_sent = " ".join(s[tokfield] for s in tg.spec_leaves(spec))
        if sent != exp_sent:
            return (exp_sent, {"line": line})
        res = judge(system, sent.split(" "), seq.split(" ") if seq else [], spec, tokfield)
        if res is not None:
            return res
    return None


def c_writer_plain(ctx, w):
    system, specs, pos = w["sys"], w["specs"], w["pos"]
    if not all(_in_domain(system, s) for s in specs):
        raise Skip()
    to = ctx.mod("transitionoutput")
    try:
        data = [_extract(ctx, system, s) for s in specs]
    except Exception:
        raise Skip()
    with lm.tempdir() as d:
        dest = os.path.join(d, "out.trans")
        opts = {"pos": True} if pos else {}
        to.plain(data, dest, "utf-8", **opts)
        text = lm.read_text(dest)
    return _check_file(system, text, specs, pos)


def c_cli(ctx, w):
    """export file -> `treetools transitions SRC DEST T --transform negra_mark_heads`;
    heads are the HD children (exactly one HD edge per constituent in the file)"""
    system, specs, pos = w["sys"], w["specs"], w["pos"]
    if not all(_in_domain(system, s) for s in specs):
        raise Skip()
    with lm.tempdir() as d:
        lm.write_text(os.path.join(d, "in.export"), lm.export_encode(specs, sids=list(range(1, len(specs) + 1))))
        args = ["transitions", "in.export", "out.trans", system, "--src-format", "export",
                "--transform", "negra_mark_heads"]
        if pos:
            args += ["--dest-opts", "pos"]
        rc, out, err = lm.run_cli(ctx, args, d)
        if not os.path.exists(os.path.join(d, "out.trans")):
            return ("a transition file", {"accepted": False, "error": "rc=%d, no output: %s" % (rc, err[-300:])})
        text = lm.read_text(os.path.join(d, "out.trans"))
    return _check_file(system, text, specs, pos)


CLAUSES = {"replay_topdown": _c_replay("topdown"), "replay_inorder": _c_replay("inorder"),
           "replay_gap": _c_replay("gap"), "sentence": c_sentence, "io_definition": c_io_definition,
           "writer_plain": c_writer_plain, "cli": c_cli}

CLAUSES = dict((k, lm.guard(v)) for k, v in CLAUSES.items())


# ----------------------------------------------------------------------------
# classification of failures
# ----------------------------------------------------------------------------

def _root_chain_only(system, spec, observed, tokfield):
    """observed tree == expected tree without the unary chain at the root"""
    if not isinstance(observed, dict) or "tree" not in observed:
        return False
    if tg.is_leaf_spec(spec) or len(spec["c"]) != 1:
        return False
    exp = canon_spec(spec, WITH_HEADS[system], tokfield)
    return observed["tree"] == render(strip_root_chain(exp))


def classify(clause, witness, expected, observed):
    if clause == "replay_gap":
        if _root_chain_only("gap", witness, observed, "both"):
            return "gap-unary-chain-at-root-not-emitted"
        return None
    if clause in ("writer_plain", "cli") and witness.get("sys") == "gap":
        tokfield = "l" if witness["pos"] else "w"
        for spec in witness["specs"]:
            if _root_chain_only("gap", spec, observed, tokfield):
                return "gap-unary-chain-at-root-not-emitted"
        return None
    if clause == "replay_inorder" and isinstance(observed, dict) and tg.is_leaf_spec(witness) \
            and "extractor raised IndexError" in str(observed.get("error")):
        return "inorder-bare-token-indexerror"
    return None


# ----------------------------------------------------------------------------
# generation
# ----------------------------------------------------------------------------

def _unary_variants(ctx, shape, k_random):
    """(unary nodes per shape node, shuffle the stored child order?)"""
    n = lm.shape_node_count(shape)
    yield [0] * n, False
    yield [1] * n, False
    for _ in range(k_random):
        yield [ctx.rng.choice((0, 0, 0, 1, 2)) for _ in range(n)], True
    # only the root decorated
    yield [1] + [0] * (n - 1), True
    yield [2] + [0] * (n - 1), False


def _head_choices(ctx, shape, cap):
    total = lm.count_head_choices(shape)
    if total <= cap:
        return list(lm.all_head_choices(shape)), True
    ar = lm.shape_arities(shape)
    seen, out = set(), []
    while len(out) < cap:
        h = tuple(ctx.rng.randrange(a) for a in ar)
        if h not in seen:
            seen.add(h)
            out.append(h)
    return out, False


_SAMPLED = [False]


def _specs(ctx, system, b):
    for n in range(1, b["max_n"] + 1):
        for sh in tg.shapes(n):
            cont = tg.shape_is_continuous(sh)
            if system in ("topdown", "gap") and not lm.shape_is_binary(sh):
                continue
            if system in ("topdown", "inorder") and not cont:
                continue
            heads, complete = _head_choices(ctx, sh, b["head_cap_per_shape"])
            if not complete:
                _SAMPLED[0] = True
            for h in heads:
                for un, shuffle in _unary_variants(ctx, sh, b["random_unary_decorations_per_tree"]):
                    yield lm.headed_spec(sh, list(h), un, shuffle_rng=ctx.rng if shuffle else None)


def _nt(spec):
    unary = any((not tg.is_leaf_spec(s)) and len(s["c"]) == 1 for s, _ in tg.spec_nodes(spec))
    if unary or not lm.spec_is_continuous(spec):
        return tg.spec_str(spec) + "|" + "".join(
            "1" if s.get("x", {}).get("head") else "0" for s, _ in tg.spec_nodes(spec))
    return None


def generate(ctx):
    b = BOUNDS(ctx)
    _SAMPLED[0] = False
    pools = {"topdown": [], "inorder": [], "gap": []}
    for system in ("topdown", "inorder", "gap"):
        seen = set()
        for spec in _specs(ctx, system, b):
            key = tg.spec_str(spec) + "|" + "".join(
                "1" if s.get("x", {}).get("head") else "0" for s, _ in tg.spec_nodes(spec))
            if key in seen:
                continue
            seen.add(key)
            k = _nt(spec)
            yield "replay_" + system, spec, k
            if system == "inorder":
                yield "io_definition", spec, k
            if len(seen) % 7 == 0:
                yield "sentence", {"sys": system, "spec": spec}, k
            pools[system].append(spec)
    # A tree that is a bare token (no root constituent) is outside the domain: the property
    # quantifies over well-formed trees, whose root is a constituent (DESIGN Appendix A); a
    # one-token sentence is VROOT -> token and is covered by the enumeration above.
    rng = ctx.rng
    per = b["trees_per_file"]
    small = dict((k, [s for s in v if len(tg.spec_leaves(s)) <= 2]) for k, v in pools.items())
    for i in range(b["writer_files"]):
        system = ("topdown", "inorder", "gap")[i % 3]
        specs = [rng.choice(small[system])] + [rng.choice(pools[system]) for _ in range(per - 1)]
        rng.shuffle(specs)
        yield "writer_plain", {"sys": system, "specs": specs, "pos": i % 2 == 1}, "w%d" % i
    for i in range(b["cli_files"]):
        system = ("gap", "topdown", "inorder")[i % 3]
        specs = [rng.choice(small[system])] + [rng.choice(pools[system]) for _ in range(per - 1)]
        rng.shuffle(specs)
        yield "cli", {"sys": system, "specs": specs, "pos": i % 4 == 3}, "c%d" % i


def exhaustive(ctx):
    return False     # unary decorations and (above the cap) head assignments are sampled
