"""Helpers shared by the bounded oracles c10, c11, c17, c18.

Nothing in here calls the code under test except `run_cli` (which starts the
command line script of the repository under test in a fresh process) and the
thin `read_file` wrapper around the readers.  Encoders (export, brackets,
discobrackets, TIGER-XML), the reference semantics of the token editing
transformations and of the split specification are written from the
documentation, independently of /repo.
"""
import contextlib
import io
import itertools
import os
import re
import shutil
import subprocess
import sys
import tempfile
from xml.sax.saxutils import quoteattr

from vlib import tg

PY = "/venv/bin/python"

# the documented punctuation inventory (trees.PUNCT), copied from the docs of
# the package so that the oracle does not read the constant it judges
QUOTES = ["\"", "'", "''", "`", "``"]
BRACKET_WORDS = ["(", "-LRB-", "[", "-LSB-", "{", "-LCB-", ")", "-RRB-", "]", "-RSB-", "}", "-RCB-"]
COMMA = [".", ",", ";", "?", "!", "--", ":", "-", "/", "..."]
PUNCT = set(QUOTES + BRACKET_WORDS + COMMA)


# ----------------------------------------------------------------------------
# scratch directories, unique names, subprocesses
# ----------------------------------------------------------------------------

@contextlib.contextmanager
def tempdir():
    d = tempfile.mkdtemp(prefix="verif_b_")
    try:
        yield d
    finally:
        shutil.rmtree(d, ignore_errors=True)


_UNIQ = itertools.count()


def uniq(prefix="f"):
    """a name never used before in this process"""
    return "%s_%d_%d" % (prefix, os.getpid(), next(_UNIQ))


def write_text(path, text):
    with io.open(path, "w", encoding="utf-8") as fh:
        fh.write(text)


def read_text(path):
    with io.open(path, encoding="utf-8") as fh:
        return fh.read()


def cli_env(ctx, hashseed=None):
    env = dict(os.environ)
    env["PYTHONPATH"] = os.path.abspath(ctx.repo)
    env["PYTHONDONTWRITEBYTECODE"] = "1"
    env["PYTHONWARNINGS"] = "ignore"
    env.pop("PYTHONHASHSEED", None)
    if hashseed is not None:
        env["PYTHONHASHSEED"] = str(hashseed)
    return env


def run_cli(ctx, args, cwd, hashseed=None, timeout=120):
    """`treetools ARGS` of the repository under test in a fresh process"""
    script = os.path.join(os.path.abspath(ctx.repo), "treetools")
    p = subprocess.run([PY, script] + [str(a) for a in args], cwd=cwd, env=cli_env(ctx, hashseed),
                       stdout=subprocess.PIPE, stderr=subprocess.PIPE, timeout=timeout)
    return p.returncode, p.stdout.decode("utf-8", "replace"), p.stderr.decode("utf-8", "replace")


def run_py(ctx, code, cwd, stdin_text="", hashseed=None, timeout=120):
    """a python snippet in a fresh interpreter with the repository under test importable"""
    p = subprocess.run([PY, "-c", code], cwd=cwd, env=cli_env(ctx, hashseed), input=stdin_text.encode("utf-8"),
                       stdout=subprocess.PIPE, stderr=subprocess.PIPE, timeout=timeout)
    return p.returncode, p.stdout.decode("utf-8", "replace"), p.stderr.decode("utf-8", "replace")


@contextlib.contextmanager
def capture_stdout():
    """capture what the code under test prints (the driver only silences it)"""
    old = sys.stdout
    sys.stdout = buf = io.StringIO()
    try:
        yield buf
    finally:
        sys.stdout = old


RELOAD_ORDER = ["trees", "misc", "transformconst", "grammarconst", "treeanalysis", "treeinput", "treeoutput",
                "grammaranalysis", "grammarinput", "grammaroutput", "grammar", "transform", "transitionoutput",
                "transitions"]


def reload_repo(ctx):
    """Re-execute the modules of the code under test: every module global, class attribute (Tree.newid) and
    function attribute (terminal file caches) is as in a fresh interpreter.  Used to compare "after a history"
    with "fresh" without paying for a process."""
    import importlib
    import warnings
    with warnings.catch_warnings():
        warnings.simplefilter("ignore")
        for name in RELOAD_ORDER:
            mod = sys.modules.get("trees." + name)
            if mod is not None:
                importlib.reload(mod)


def guard(fn):
    """An exception that escapes from the *code under test* while a clause runs is a violation of the clause
    ("the call returns"), not a crash of the checker.  Exceptions raised by the oracle's own code still crash."""
    import functools
    import traceback
    from bounded.common import Skip

    @functools.wraps(fn)
    def wrapped(ctx, witness):
        try:
            return fn(ctx, witness)
        except Skip:
            raise
        except Exception as e:
            frames = traceback.extract_tb(e.__traceback__)
            repo = os.path.realpath(os.path.abspath(ctx.repo)) + os.sep
            inner = frames[-1].filename if frames else ""
            if os.path.realpath(inner).startswith(repo):
                return ("the call returns normally",
                        {"raised": "%s: %s" % (type(e).__name__, e),
                         "at": "%s:%d" % (os.path.relpath(os.path.realpath(inner), repo), frames[-1].lineno)})
            raise
    return wrapped


# ----------------------------------------------------------------------------
# spec utilities
# ----------------------------------------------------------------------------

def minleaf(spec):
    return min(l["n"] for l in tg.spec_leaves(spec))


def spec_tokens(spec):
    """[(word, pos)] in sentence order"""
    return [(l["w"], l["l"]) for l in tg.spec_leaves(spec)]


def spec_is_continuous(spec):
    for s, _ in tg.spec_nodes(spec):
        if tg.gap_degree_of_set([l["n"] for l in tg.spec_leaves(s)]) > 0:
            return False
    return True


def spec_cons(spec):
    """sorted list of (label, sorted token numbers) of all constituents"""
    out = []
    for s, _ in tg.spec_nodes(spec):
        if not tg.is_leaf_spec(s):
            out.append((s["l"], tuple(sorted(l["n"] for l in tg.spec_leaves(s)))))
    return sorted(out)


def tree_cons(root):
    m = tg.model(root)
    return sorted((lab, tuple(sorted(ys))) for lab, ys in m["cons"])


def tree_tokens(root):
    m = tg.model(root)
    return [(w, p) for _, w, p in m["toks"]]


def tree_nums(root):
    return [n for n, _, _ in tg.model(root)["toks"]]


def copy_spec(spec):
    if tg.is_leaf_spec(spec):
        d = dict(spec)
        if "x" in d:
            d["x"] = dict(d["x"])
        return d
    d = dict(spec)
    if "x" in d:
        d["x"] = dict(d["x"])
    d["c"] = [copy_spec(c) for c in spec["c"]]
    return d


def full_state(root):
    """every data key of every node in stored (DFS) order plus the shape: used to
    see whether a function changed the tree it was given"""
    out = []

    def rec(n, depth):
        out.append((depth, len(n.children), dict((k, repr(v)) for k, v in n.data.items())))
        for c in n.children:
            rec(c, depth + 1)
    rec(root, 0)
    return out


def plain_snapshot(root, leaf_fields=("word", "label"), node_fields=("label",)):
    """nested tuples, children ordered by least token; only the given fields"""
    def rec(n):
        if len(n.children) == 0:
            return ("T", n.data.get("num")) + tuple(n.data.get(f) for f in leaf_fields)
        kids = sorted([rec(c) for c in n.children], key=_ml)
        return ("N",) + tuple(n.data.get(f) for f in node_fields) + (tuple(kids),)
    return rec(root)


def _ml(snap):
    if snap[0] == "T":
        return snap[1] if isinstance(snap[1], int) else 10 ** 9
    return min([_ml(k) for k in snap[-1]] or [10 ** 9])


def spec_snapshot(spec, leaf_fields=("w", "l"), node_fields=("l",)):
    def rec(s):
        if tg.is_leaf_spec(s):
            return ("T", s["n"]) + tuple(s.get(f) for f in leaf_fields)
        kids = sorted([rec(c) for c in s["c"]], key=_ml)
        return ("N",) + tuple(s.get(f) for f in node_fields) + (tuple(kids),)
    return rec(spec)


# ----------------------------------------------------------------------------
# binary shapes, head marking, unary decoration (C10)
# ----------------------------------------------------------------------------

def shape_is_binary(shape):
    if isinstance(shape, int):
        return True
    return len(shape) == 2 and all(shape_is_binary(c) for c in shape)


def shape_internal_count(shape):
    if isinstance(shape, int):
        return 0
    return 1 + sum(shape_internal_count(c) for c in shape)


def shape_node_count(shape):
    if isinstance(shape, int):
        return 1
    return 1 + sum(shape_node_count(c) for c in shape)


def shape_arities(shape):
    """arities of the internal nodes in preorder"""
    if isinstance(shape, int):
        return []
    out = [len(shape)]
    for c in shape:
        out.extend(shape_arities(c))
    return out


C10_LABELS = ["S", "NP", "VP", "NP-SBJ", "NP-1", "S=2", "WHNP-SBJ-3"]     # incl. co-index / gap index decorations
C10_WORDS = ["der", "Hund", "bellt", ",", "laut", "(x)", "Haus"]
C10_POS = ["ART", "NN", "VB", "$,"]


def headed_spec(shape, heads, unary, labels=C10_LABELS, words=C10_WORDS, pos=C10_POS, shuffle_rng=None):
    """Decorate a shape into a head-marked spec.

    heads : list, one entry per internal node of the shape in preorder = index
            of its head child;  unary : list, one entry per node of the shape in
            preorder (internal nodes and leaves) = number of unary nodes put on
            top of it.  The topmost node of the result is labelled VROOT; a
            one-token shape gets at least one unary node (the root).
    Every non-root node carries x.head (True/False), exactly one head per
    constituent; head children get edge HD, the others edge --.  With
    shuffle_rng the *stored* order of every child list is shuffled."""
    hi = iter(heads)
    ui = iter(unary)
    cnt = itertools.count()

    def wrap(spec, k, is_root):
        # k unary nodes on top of spec; the child of a unary node is its head
        for j in range(k):
            spec.setdefault("x", {})["head"] = True
            spec["e"] = "HD"
            spec = {"l": labels[next(cnt) % len(labels)], "e": "--", "c": [spec]}
        return spec

    def rec(sh, is_root):
        k = next(ui)
        if isinstance(sh, int):
            i = next(cnt)
            leaf = {"n": sh, "w": words[(sh - 1 + i) % len(words)], "l": pos[(sh - 1) % len(pos)], "e": "--",
                    "m": "--", "lem": "--"}
            if is_root and k == 0:
                k = 1
            return wrap(leaf, k, is_root)
        h = next(hi)
        lab = labels[next(cnt) % len(labels)]
        kids = []
        for j, c in enumerate(sh):
            cs = rec(c, False)
            cs.setdefault("x", {})["head"] = (j == h)
            cs["e"] = "HD" if j == h else "--"
            kids.append(cs)
        if shuffle_rng is not None:
            shuffle_rng.shuffle(kids)
        return wrap({"l": lab, "e": "--", "c": kids}, k, is_root)

    top = rec(shape, True)
    top["l"] = "VROOT"
    top["e"] = "--"
    top.pop("x", None)
    top["sid"] = 1
    return top


def all_head_choices(shape):
    ar = shape_arities(shape)
    return itertools.product(*[range(a) for a in ar])


def count_head_choices(shape):
    n = 1
    for a in shape_arities(shape):
        n *= a
    return n


# ----------------------------------------------------------------------------
# encoders (our own; never the writers of /repo)
# ----------------------------------------------------------------------------

def export_encode(specs, four=False, sids=None):
    """export v3/v4 text of a list of specs whose root is the virtual root"""
    out = []
    for i, spec in enumerate(specs):
        sid = sids[i] if sids is not None else spec.get("sid", i + 1)
        nums = {}
        counter = itertools.count(500)

        def assign(s, top):
            if tg.is_leaf_spec(s):
                return
            for c in s["c"]:
                assign(c, False)
            nums[id(s)] = 0 if top else next(counter)
        assign(spec, True)
        leaves, nts = [], []

        def walk(s, parent):
            if tg.is_leaf_spec(s):
                leaves.append((s["n"], s, parent))
            else:
                if parent is not None:
                    nts.append((nums[id(s)], s, parent))
                for c in s["c"]:
                    walk(c, s)
        walk(spec, None)
        out.append("#BOS %d" % sid)

        def line(word, s, parent):
            fields = [word]
            if four:
                fields.append(s.get("lem") or "--")
            fields += [s["l"], s.get("m") or "--", s.get("e") or "--", "%d" % nums[id(parent)]]
            out.append("\t".join(fields))
        for n, s, p in sorted(leaves, key=lambda x: x[0]):
            line(s["w"], s, p)
        for n, s, p in sorted(nts, key=lambda x: x[0]):
            line("#%d" % n, s, p)
        out.append("#EOS %d" % sid)
    return "\n".join(out) + ("\n" if out else "")


def brackets_encode(specs):
    """one bracketed tree per line (continuous specs only)"""
    def rec(s):
        if tg.is_leaf_spec(s):
            return "(%s %s)" % (s["l"], s["w"])
        kids = sorted(s["c"], key=minleaf)
        return "(%s %s)" % (s["l"], " ".join(rec(c) for c in kids))
    return "".join(rec(s) + "\n" for s in specs)


def discobrackets_encode(specs):
    """tree with 0-based token indices as words, tab, the sentence"""
    def rec(s):
        if tg.is_leaf_spec(s):
            return "(%s %d)" % (s["l"], s["n"] - 1)
        kids = sorted(s["c"], key=minleaf)
        return "(%s %s)" % (s["l"], " ".join(rec(c) for c in kids))
    return "".join(rec(s) + "\t" + " ".join(l["w"] for l in tg.spec_leaves(s)) + "\n" for s in specs)


def tigerxml_encode(specs, sids=None):
    out = ["<?xml version='1.0' encoding='UTF-8'?>", "<corpus>", "<body>"]
    for i, spec in enumerate(specs):
        sid = sids[i] if sids is not None else spec.get("sid", i + 1)
        ids = {}
        counter = itertools.count(500)
        for s, _ in tg.spec_nodes(spec):
            if tg.is_leaf_spec(s):
                ids[id(s)] = "s%d_%d" % (sid, s["n"])
        order = []

        def post(s):
            if tg.is_leaf_spec(s):
                return
            for c in s["c"]:
                post(c)
            ids[id(s)] = "s%d_%d" % (sid, next(counter))
            order.append(s)
        post(spec)
        out.append("<s id=\"s%d\">" % sid)
        out.append("<graph root=\"%s\">" % ids[id(spec)])
        out.append("<terminals>")
        for l in tg.spec_leaves(spec):
            out.append("<t id=\"%s\" word=%s lemma=%s pos=%s morph=%s />" % (
                ids[id(l)], quoteattr(l["w"]), quoteattr(l.get("lem") or "--"), quoteattr(l["l"]),
                quoteattr(l.get("m") or "--")))
        out.append("</terminals>")
        out.append("<nonterminals>")
        for s in order:
            out.append("<nt id=\"%s\" cat=%s>" % (ids[id(s)], quoteattr(s["l"])))
            for c in s["c"]:
                out.append("<edge label=%s idref=\"%s\" />" % (quoteattr(c.get("e") or "--"), ids[id(c)]))
            out.append("</nt>")
        out.append("</nonterminals>")
        out.append("</graph>")
        out.append("</s>")
    out += ["</body>", "</corpus>"]
    return "\n".join(out) + "\n"


ENCODERS = {"export": export_encode, "brackets": brackets_encode,
            "discobrackets": discobrackets_encode, "tigerxml": tigerxml_encode}


def read_file(ctx, fmt, path, **opts):
    """list of trees the reader of the code under test yields for a file"""
    ti = ctx.mod("treeinput")
    return list(getattr(ti, fmt)(path, "utf-8", **opts))


# ----------------------------------------------------------------------------
# reference semantics: split specification (C17)
# ----------------------------------------------------------------------------

class Rejected(Exception):
    pass


_NUM = re.compile(r"^[0-9]+$")


def ref_split(spec, size, percent=None):
    """part sizes as the documentation states them; raises Rejected for a
    malformed specification or one that asks for more trees than exist.
    `percent` may replace the exact integer rule (used by classify only)."""
    if percent is None:
        percent = lambda n, size: (n * size) // 100
    parts, rest = [], None
    for i, p in enumerate(spec.split("_")):
        if p == "rest":
            if rest is not None:
                raise Rejected("two rest")
            rest = i
            parts.append(0)
        elif len(p) >= 2 and p[-1] in "#%" and _NUM.match(p[:-1]):
            n = int(p[:-1])
            parts.append(n if p[-1] == "#" else percent(n, size))
        else:
            raise Rejected("malformed part %r" % p)
    total = sum(parts)
    if total > size:
        raise Rejected("sum %d > size %d" % (total, size))
    if total < size:
        if rest is not None:
            parts[rest] = size - total
        else:
            parts[parts.index(max(parts))] += size - total
    return parts


# ----------------------------------------------------------------------------
# reference semantics: token editing (C11)
# ----------------------------------------------------------------------------

def ref_delete_tokens(spec, drop):
    """(tokens, constituents) after deleting the tokens whose numbers are in
    `drop`: remaining tokens renumbered 1..m in order, constituents keep their
    label and their remaining tokens, constituents left without tokens vanish"""
    leaves = tg.spec_leaves(spec)
    keep = [l for l in leaves if l["n"] not in drop]
    renum = dict((l["n"], i + 1) for i, l in enumerate(keep))
    toks = [(l["w"], l["l"]) for l in keep]
    cons = []
    for s, parent in tg.spec_nodes(spec):
        if tg.is_leaf_spec(s):
            continue
        ys = tuple(sorted(renum[l["n"]] for l in tg.spec_leaves(s) if l["n"] in renum))
        if ys or parent is None:
            cons.append((s["l"], ys))
    return toks, sorted(cons)


def ref_insert(tokens, requests):
    """tokens [(word,pos)], requests [(idx, word, pos)] of this sentence.
    Inserted tokens end up at the requested (1-based) positions; requests are
    handled in ascending order; a request outside 1..len+1 is ignored.
    Returns (new tokens, list of positions that were inserted)."""
    toks = list(tokens)
    done = []
    for idx, w, p in sorted(requests, key=lambda r: r[0]):
        if 1 <= idx <= len(toks) + 1:
            toks.insert(idx - 1, (w, p))
            done.append(idx)
    return toks, done


def ref_substitute(tokens, requests):
    toks = list(tokens)
    for idx, w, p in requests:
        if 1 <= idx <= len(toks):
            toks[idx - 1] = (w, p if p is not None else toks[idx - 1][1])
    return toks


def terminal_file_text(lines):
    """lines: [[sid, idx, word, pos-or-None], ...]"""
    out = []
    for sid, idx, w, p in lines:
        out.append("%d\t%d\t%s" % (sid, idx, w) + ("" if p is None else "\t%s" % p))
    return "".join(l + "\n" for l in out)       # an empty list of requests is an empty file


def has_duplicate(lines):
    seen = set()
    for sid, idx, _, _ in lines:
        if (sid, idx) in seen:
            return True
        seen.add((sid, idx))
    return False


_IDX = re.compile(r"^(.*?)(=[0-9]+)?(-[0-9]+)?$")


def ref_strip_indices(label, keep_coindex=False):
    """LABEL(-GF)?(=GAP)?(-COINDEX)?  ->  without gap index and (unless kept) co-index"""
    m = _IDX.match(label)
    base, gap, co = m.group(1), m.group(2), m.group(3)
    if not base:
        return label
    return base + (co if (keep_coindex and co) else "")


def label_has_index(label, allow_coindex=False):
    m = _IDX.match(label)
    if not m.group(1):
        return False
    if m.group(2):
        return True
    return bool(m.group(3)) and not allow_coindex
