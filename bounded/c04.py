"""C04 bounded stand-in: structure-only transformations keep the sentence and well-formedness.

Witness: {"spec": tree spec, "seq": [step names]} (steps = transformations with their parameters,
see lib_transform.STEPS).  The sequence is applied to a fresh tree; the LAST step is judged against
the state the earlier steps produced (read off the real tree), the clause is the function of that
last step.  If an earlier step already broke its own contract, or a documented prerequisite does
not hold for the tree at hand, the evaluation is skipped (that shorter sequence is its own
evaluation).

Contract of a step (lib_transform.check_step), the property text made executable:
  * the returned node is the root (parent None) of a tree with tg.wf_errors == []  (one root,
    consistent parent/child links, no cycle, no childless constituent, tokens numbered 1..n)
  * token sequence (num, word, POS) unchanged; collapsing turns the POS below a unary chain into
    'X+..+POS', uncollapsing turns it back
  * constituents: add_topnode adds one TOP above the unchanged tree; boyd_split one node per token
    block, exactly one of the blocks of a constituent being its head block; raising removes exactly
    the non-head blocks, so that boyd_split + raising gives back one node per constituent of the
    tree that was split; binarize adds only @-nodes; collapse /
    uncollapse merge / restore unary chains (reference on specs); every other transformation keeps
    the multiset of (node key, label)
"""
from vlib import tg
from bounded.common import Skip
from bounded import lib_transform as L

RULE = ("every prerequisite-respecting sequence of length <= L over the 15 parameterised "
        "transformations, plus the pipelines [root_attach]? + head marker + boyd_split "
        "(+ raising) (+ one more transformation) that are longer than L, applied to: all tree "
        "shapes with n<=N tokens in D decorations (plain; punctuation mix with unary wrappers "
        "and shuffled stored child order; punctuation-only sentence; unary chain at the root), "
        "hand-made punctuation families, one-token sentences, seeded random trees to n=10; "
        "the pipelines [root_attach]? + negra_mark_heads + boyd_split (+ raising) also on every "
        "discontinuous shape with n<=H tokens x every head assignment (one HD child per "
        "constituent, so that discontinuous head children occur in every position).  "
        "One evaluation = (sequence, tree), judged on the last step.  Non-trivial = distinct "
        "(sequence, tree) with at least two tokens")


def BOUNDS(ctx):
    return {"L": 2 if ctx.quick else 3,
            "exhaustive_shapes_n": 4 if ctx.quick else 5,
            "decorations_per_shape": 4,
            "L3_shapes_n": 0 if ctx.quick else 4, "L3_decorations": 0 if ctx.quick else 2,
            "random_trees": 40 if ctx.quick else 300, "random_max_n": 10,
            "head_assignment_shapes_n": 5, "head_assignment_nested_only_n": 0 if ctx.quick else 6,
            "pipeline_extension": True}


FUNCS = sorted(set(L.func_name(s) for s in L.STEP_NAMES))
SITES = {f: "trees.transform." + f for f in FUNCS}


def _judge(ctx, w):
    trees = ctx.mod("trees")
    seq = w["seq"]
    cur = tg.build(L.uidify(w["spec"]), trees)
    pre = None
    for i, st in enumerate(seq):
        last = i == len(seq) - 1
        # raising directly after boyd_split is also judged against the tree that was split
        origin = pre if (st == "raising" and i > 0 and seq[i - 1] == "boyd_split") else None
        pre = L.real_spec(cur)
        if not L.dynamic_ok(st, seq[:i], pre):
            raise Skip()
        kids_before = L.child_counts(cur)
        try:
            res = L.apply_step(ctx, st, cur)
        except Exception as e:
            if not last:
                raise Skip()
            return ("%s returns the root of a well-formed tree" % st,
                    {"raised": "%s: %s" % (type(e).__name__, e), "wf_errors": L.describe_wreck(cur),
                     "emptied_had_children": L.emptied_info(kids_before, L.top_of(cur))})
        bad = L.check_step(st, pre, res, kids_before, origin)
        if bad:
            if not last:
                raise Skip()
            return bad
        cur = res
    return None


CLAUSES = {f: _judge for f in FUNCS}


# ----------------------------------------------------------------------------
# generation
# ----------------------------------------------------------------------------
def extension_sequences():
    """pipelines that reach boyd_split / raising (and what follows them) beyond length L"""
    out = []
    for hm in L.HEAD_MARKERS:
        for ra in (False, True):
            base = (["root_attach"] if ra else []) + [hm, "boyd_split"]
            out.append(base)
            out.append(base + ["raising"])
            if hm == "negra_mark_heads" or not ra:
                for x in L.STEP_NAMES:
                    out.append(base + [x])
                    out.append(base + ["raising", x])
    return [s for s in out if L.static_ok(s)]


def all_sequences(max_len, with_extension):
    seen, out = set(), []
    seqs = list(L.sequences(max_len))
    if with_extension:
        seqs += extension_sequences()
    for s in seqs:
        if tuple(s) not in seen:
            seen.add(tuple(s))
            out.append(s)
    return out


def one_token_specs():
    out = []
    for w, p in (("Hund", "NN"), (".", "$."), ("\"", "$(")):
        for chain in ([], ["S"], ["S", "NP"], ["S", "NP", "NP"]):
            inner = tg.leaf_spec(1, w, p)
            for lab in reversed(chain):
                inner = tg.node_spec(lab, [inner])
            s = tg.node_spec("VROOT", [inner])
            s["sid"] = 1
            out.append(s)
    return out


def shape_specs(rng, max_n, decorations):
    for n in range(1, max_n + 1):
        for sh in tg.shapes(n):
            for d in range(decorations):
                if d == 0:
                    yield L.decorate(sh, rng, "mix", punct_p=0.5, unary_p=0.25, shuffle=True)
                elif d == 1:
                    yield L.decorate(sh, rng, "allpunct" if rng.random() < 0.5 else "mix", punct_p=0.6,
                                     unary_p=0.2, shuffle=True, root_chain=rng.choice([0, 0, 1, 2]))
                elif d == 2:
                    yield L.decorate(sh, rng, "plain", unary_p=0.0, shuffle=False)
                else:
                    yield L.decorate(sh, rng, "mix", punct_p=0.4, unary_p=0.35, shuffle=True,
                                     root_chain=rng.choice([1, 2, 3]))


def split_pipelines():
    """[root_attach]? + negra_mark_heads + boyd_split (+ raising)"""
    out = []
    for ra in (False, True):
        base = (["root_attach"] if ra else []) + ["negra_mark_heads", "boyd_split"]
        out.append(base)
        out.append(base + ["raising"])
    return out


def _nested_gaps(shape):
    """some discontinuous node below the root has a discontinuous child whose token blocks lie in
    different blocks of that node"""
    def rec(node):
        if isinstance(node, int):
            return False
        runs = tg.runs_of_set(tg.shape_leaves(node))
        if len(runs) > 1:
            for c in node:
                if isinstance(c, int):
                    continue
                cruns = tg.runs_of_set(tg.shape_leaves(c))
                if len(set(i for r in cruns for i, blk in enumerate(runs) if r[0] in blk)) > 1:
                    return True
        return any(rec(c) for c in node)
    if isinstance(shape, int):
        return False
    return any(rec(c) for c in shape)       # the root itself covers 1..n: one block


def head_assignment_specs(max_n, nested_only_n):
    """every discontinuous shape with <= max_n tokens (and those with nested gaps up to
    nested_only_n) x every choice of one head child per constituent, encoded as edge HD (the other
    edges NK / --); distinct labels per depth so that messages are readable"""
    import copy
    import itertools
    for n in range(3, max(max_n, nested_only_n) + 1):
        for sh in tg.shapes(n):
            if tg.shape_is_continuous(sh):
                continue
            if n > max_n and not _nested_gaps(sh):
                continue
            base = tg.spec_from_shape(sh, None, labels=L.LABELS, pos=["NN", "VVFIN", "ART"],
                                      words=L.WORDS_PLAIN, edges=["--"])
            cons = L.constituents(base)
            for choice in itertools.product(*[range(len(c["c"])) for c in cons]):
                spec = copy.deepcopy(base)
                for c, h in zip(L.constituents(spec), choice):
                    for i, k in enumerate(sorted(c["c"], key=L.minleaf)):
                        k["e"] = "HD" if i == h else ("NK" if i % 2 else "--")
                yield spec


def _nt(spec, seq):
    return (tg.spec_str(spec), tuple(seq)) if len(L.tokens(spec)) > 1 else None


def _clause(seq):
    return L.func_name(seq[-1])


def generate(ctx):
    b = BOUNDS(ctx)
    rng = ctx.rng
    seqs2 = all_sequences(min(b["L"], 2), b["pipeline_extension"])
    small = sorted(one_token_specs() + L.handmade(), key=lambda s: len(L.tokens(s)))
    for spec in small:
        for seq in seqs2:
            yield _clause(seq), {"spec": spec, "seq": seq}, _nt(spec, seq)
    for spec in shape_specs(rng, b["exhaustive_shapes_n"], b["decorations_per_shape"]):
        for seq in seqs2:
            yield _clause(seq), {"spec": spec, "seq": seq}, _nt(spec, seq)
    pipes = split_pipelines()
    for spec in head_assignment_specs(b["head_assignment_shapes_n"], b["head_assignment_nested_only_n"]):
        for seq in pipes:
            yield _clause(seq), {"spec": spec, "seq": seq}, _nt(spec, seq)
    for _ in range(b["random_trees"]):
        n = rng.randint(2, b["random_max_n"])
        spec = L.decorate(tg.random_shape(rng, n, p_flat=0.4, discont=0.4), rng, "mix",
                          punct_p=0.4, unary_p=0.25, root_chain=rng.choice([0, 0, 0, 1, 2]))
        for seq in seqs2:
            yield _clause(seq), {"spec": spec, "seq": seq}, _nt(spec, seq)
    if b["L"] >= 3:
        seqs3 = [s for s in L.sequences(3) if len(s) == 3]
        done = set(tuple(s) for s in seqs2)
        seqs3 = [s for s in seqs3 if tuple(s) not in done]
        trees3 = small + list(shape_specs(rng, b["L3_shapes_n"], b["L3_decorations"]))
        for spec in trees3:
            for seq in seqs3:
                yield _clause(seq), {"spec": spec, "seq": seq}, _nt(spec, seq)


def classify(clause, witness, expected, observed):
    """known defects (DESIGN F5, F7); anything else is reported as a new class (None)"""
    if not isinstance(observed, dict):
        return None
    errs = observed.get("wf_errors") or []
    only_childless = bool(errs) and all("childless constituent" in e for e in errs)
    had = observed.get("emptied_had_children") or []
    if clause == "punctuation_root" and only_childless and "raised" not in observed \
            and had and all(isinstance(k, int) and k >= 2 for k in had):
        # every child of a constituent with >= 2 children was a punctuation token and all were moved
        return "punct-moved-out-leaves-childless-parent"
    if clause == "punctuation_symetrify" and only_childless and had and all(isinstance(k, int) and k >= 1 for k in had):
        # a paired-punctuation candidate that was the only (remaining) child of its parent was moved
        if "raised" in observed:
            return "raises-after-emptying-a-constituent"
        return "punct-moved-out-leaves-childless-parent"
    if clause == "uncollapse_unary_chains" and "returned_inner_node" in observed:
        if observed.get("tree_below_the_real_root_ok"):
            return "returns-inner-node-of-root-chain"
        return "returns-inner-node-and-tree-differs"
    return None


def exhaustive(ctx):
    return False
